package main

import (
	"fmt"
	"go/token"
	"go/types"

	"golang.org/x/tools/go/ssa"
)

// withAnons returns fn and all functions nested in it.
func withAnons(fn *ssa.Function) []*ssa.Function {
	if fn == nil {
		return nil
	}
	out := []*ssa.Function{fn}
	for _, a := range fn.AnonFuncs {
		out = append(out, withAnons(a)...)
	}
	return out
}

func openTrueEdges(fn *ssa.Function, field string) []Edge {
	return condEdges(fn, func(cond ssa.Value) (bool, bool) {
		if fieldOfLoad(cond) == field {
			return true, false
		}
		return false, false
	})
}

// R-CLOSE-MUSTCALL
func ruleCloseMustCall(r *Report) {
	const rule = "close-mustcall"
	fn := r.need(rule, "S", "(*Store).Close")
	if fn == nil {
		return
	}
	var openStore *ssa.Store
	for _, st := range deepFieldStores(fn, "Store.open") {
		if b, isC := boolConst(st.Val); isC && !b {
			openStore = st
		}
	}
	if openStore == nil {
		r.Bad(rule, "(*Store).Close/open=false", fn.Pos(), "Store.Close never sets Store.open = false: a second Close would close everything again")
		return
	}
	held := deepLockAt(fn, openStore)
	r.Check(held["store.Store.stateLk"] == modeW, rule, "(*Store).Close/open=false-under-stateLk", instrPos(openStore),
		"open is tested and cleared in one exclusive stateLk section (Close may be called repeatedly and concurrently)",
		"Store.open is cleared without holding stateLk exclusively: two concurrent Close calls can both proceed")
	guard := mkEdgeSet(flagEdges(fn, []string{"Store.open"}, true))
	targets := []string{"(*index.Index).Close", "(primary.PrimaryStorage).Close", "(*filecache.FileCache).Clear", "(*freelist.FreeList).Close"}
	for _, t := range targets {
		sites := deepCallSites(fn, t)
		if len(sites) == 0 {
			r.Bad(rule, "(*Store).Close/calls-"+t, fn.Pos(), "Store.Close does not call "+t+": acknowledged data would stay unflushed or the component stays open")
			continue
		}
		ok, path := followedBy(fn, openStore, nil, isCallNamed(t), nil)
		if ok {
			r.Ok(rule, "(*Store).Close/calls-"+t, sites[0].Pos(), "called on every path after the open guard, whatever errors occur before")
		} else {
			r.BadPath(rule, "(*Store).Close/calls-"+t, sites[0].Pos(), "after Store.open was cleared there is a path to a return that skips "+t+" (e.g. an early return on an earlier error): that component is never flushed/closed, and a second Close does nothing", path)
		}
		for _, s := range sites {
			g, _ := guarded(fn, s, guard, nil)
			r.Check(g, rule, "(*Store).Close/guarded-"+t, s.Pos(), "only runs when the store was open", t+" can run on an already closed store")
		}
	}
	// component Close: file.Close preceded by the component's Flush
	type comp struct{ alias, typ, flush, fileField string }
	comps := []comp{
		{"I", "Index", "(*index.Index).Flush", "Index.file"},
		{"M", "MultihashPrimary", "(*mhprimary.MultihashPrimary).Flush", "MultihashPrimary.file"},
		{"Cd", "CIDPrimary", "(*cidprimary.CIDPrimary).Flush", "CIDPrimary.file"},
		{"F", "FreeList", "(*freelist.FreeList).Flush", "FreeList.file"},
	}
	for _, c := range comps {
		top := r.need(rule, c.alias, "(*"+c.typ+").Close")
		if top == nil {
			continue
		}
		n := 0
		flushSeen := false
		for _, f := range withAnons(top) {
			r.fn(f)
			flushes := instrSet(callSites(f, c.flush))
			if len(flushes) > 0 {
				flushSeen = true
			}
			for _, cl := range callSites(f, "(*os.File).Close") {
				if receiverField(cl) != c.fileField {
					continue
				}
				n++
				ok, path := precededBy(f, cl, flushes, nil)
				if ok {
					r.Ok(rule, c.typ+".Close/flush-before-file-close", cl.Pos(), "the data file is closed only after the component's Flush ran")
				} else {
					r.BadPath(rule, c.typ+".Close/flush-before-file-close", cl.Pos(), "the data file can be closed without the component's Flush having run: pooled (acknowledged) records are lost on a clean Close", path)
				}
			}
		}
		if n == 0 || !flushSeen {
			r.Bad(rule, c.typ+".Close/flush-before-file-close", top.Pos(), fmt.Sprintf("%s.Close: found %d closes of %s, flush call present=%v — Close must flush and then close the data file", c.typ, n, c.fileField, flushSeen))
		}
	}
	r.Min(rule, 12)
}

// R-SNAPSHOT a–d
func ruleSnapshot(r *Report) {
	const rule = "snapshot"
	e := r.E
	// (a) snapshot saved only after a successful flush and close of the log
	top := r.need(rule, "I", "(*Index).Close")
	if top != nil {
		n := 0
		for _, f := range withAnons(top) {
			for _, s := range callSites(f, "(*index.Index).saveBucketState") {
				n++
				var flushCall, closeCall *ssa.Call
				for _, c := range callSites(f, "(*index.Index).Flush") {
					flushCall = asCall(c)
				}
				okF, pathF := successGuard(f, s, flushCall)
				if okF {
					r.Ok(rule, "Index.Close/save-after-flush-success", s.Pos(), "bucket snapshot written only after Index.Flush succeeded")
				} else {
					r.BadPath(rule, "Index.Close/save-after-flush-success", s.Pos(), "the bucket snapshot can be written without a successful Index.Flush before it: the snapshot would be older than (or not cover) the log, so snapshot recovery ≠ rescan", pathF)
				}
				okC := false
				var pathC []*ssa.BasicBlock
				for _, c := range callSites(f, "(*os.File).Close") {
					if receiverField(c) != "Index.file" {
						continue
					}
					closeCall = asCall(c)
					if ok, p := successGuard(f, s, closeCall); ok {
						okC = true
					} else {
						pathC = p
					}
				}
				if okC {
					r.Ok(rule, "Index.Close/save-after-file-close-success", s.Pos(), "bucket snapshot written only after the index file closed without error")
				} else {
					r.BadPath(rule, "Index.Close/save-after-file-close-success", s.Pos(), "the bucket snapshot can be written although closing the index file failed (buffered log data may be missing on disk)", pathC)
				}
			}
		}
		if n == 0 {
			r.Bad(rule, "Index.Close/save", top.Pos(), "Index.Close never saves the bucket state (every reopen would rescan) — not a violation by itself, but the rule cannot be evaluated")
		}
	}
	// the snapshot itself is written to a temp name and renamed after flush+close succeeded
	if save := r.need(rule, "I", "(*Index).saveBucketState"); save != nil {
		renames := callSites(save, "os.Rename")
		if len(renames) != 1 {
			r.Bad(rule, "saveBucketState/rename", save.Pos(), fmt.Sprintf("expected exactly one os.Rename installing the snapshot, found %d", len(renames)))
		} else {
			rn := renames[0]
			final := rn.Common().Args[1]
			tmp := rn.Common().Args[0]
			isFinal := derives(final, flowOpts{}, isCallTo("index.savedBucketsName")) && !derives(final, flowOpts{Arith: true}, func(v ssa.Value) bool { _, ok := v.(*ssa.BinOp); return ok })
			r.Check(isFinal, rule, "saveBucketState/rename-to-snapshot-name", rn.Pos(), "rename installs the file under the snapshot name", "os.Rename target is not the snapshot name")
			var created *ssa.Call
			for _, c := range callSites(save, "os.Create") {
				if sameValue(c.Common().Args[0], tmp) {
					created = asCall(c)
				}
			}
			r.Check(created != nil && !sameValue(tmp, final), rule, "saveBucketState/writes-temp", rn.Pos(), "snapshot is written under a temporary name, distinct from the final one", "snapshot is not written to a temporary file that is then renamed: a crash mid-write leaves a truncated snapshot under the live name")
			for _, nm := range []string{"(*bufio.Writer).Flush", "(*os.File).Close"} {
				okAny := false
				for _, c := range callSites(save, nm) {
					if ok, _ := successGuard(save, rn, asCall(c)); ok {
						okAny = true
					}
				}
				r.Check(okAny, rule, "saveBucketState/rename-after-"+nm, rn.Pos(), "rename only after "+nm+" succeeded", "the snapshot is renamed into place without "+nm+" having succeeded: an incomplete snapshot of the right size may be installed")
			}
			// every bucket is written: the loop ranges over idx.buckets
			ranged := false
			eachInstr(save, func(in ssa.Instruction) {
				if rg, ok := in.(*ssa.Range); ok && fieldOfLoad(rg.X) == "Index.buckets" {
					ranged = true
				}
				if ia, ok := in.(*ssa.IndexAddr); ok && fieldOfLoad(ia.X) == "Index.buckets" {
					ranged = true
				}
			})
			r.Check(ranged, rule, "saveBucketState/iterates-buckets", save.Pos(), "iterates Index.buckets", "saveBucketState does not iterate Index.buckets")
		}
	}
	// (b)(c) loadBucketState
	if load := r.need(rule, "I", "loadBucketState"); load != nil {
		// stores into the buckets parameter
		var bparam *ssa.Parameter
		for _, p := range load.Params {
			if shortType(p.Type()) == "index.Buckets" {
				bparam = p
			}
		}
		if bparam == nil {
			r.Undecided(rule, "loadBucketState has no Buckets parameter")
		} else {
			sizeEq := condEdges(load, func(cond ssa.Value) (bool, bool) {
				bo, ok := cond.(*ssa.BinOp)
				if !ok || (bo.Op != token.EQL && bo.Op != token.NEQ) {
					return false, false
				}
				isSize := func(v ssa.Value) bool {
					return derives(v, flowOpts{}, isCallTo("(io/fs.FileInfo).Size", "(os.FileInfo).Size"))
				}
				isExpected := func(v ssa.Value) bool {
					return derives(v, flowOpts{Arith: true, ThroughCalls: map[string]bool{"builtin.len": true}}, func(x ssa.Value) bool { return x == ssa.Value(bparam) })
				}
				if !(isSize(bo.X) && isExpected(bo.Y)) && !(isSize(bo.Y) && isExpected(bo.X)) {
					return false, false
				}
				if bo.Op == token.EQL {
					return true, false
				}
				return false, true
			})
			n := 0
			eachInstr(load, func(in ssa.Instruction) {
				st, ok := in.(*ssa.Store)
				if !ok {
					return
				}
				ia, ok := st.Addr.(*ssa.IndexAddr)
				if !ok || ia.X != ssa.Value(bparam) {
					return
				}
				n++
				ok2, path := guarded(load, st, mkEdgeSet(sizeEq), nil)
				if ok2 {
					r.Ok(rule, "loadBucketState/fill-after-size-check", instrPos(st), "buckets are filled from the snapshot only when its size equals 8·len(buckets)")
				} else {
					r.BadPath(rule, "loadBucketState/fill-after-size-check", instrPos(st), "buckets can be filled from a snapshot whose size does not match the bucket table (written under a different bit size or truncated): recovery through the snapshot would differ from a rescan", path)
				}
			})
			if n == 0 {
				r.Undecided(rule, "loadBucketState: no store into the buckets parameter found")
			}
		}
		// (c) snapshot removed on every path after a successful open
		var openCall *ssa.Call
		for _, c := range callSites(load, "os.Open") {
			openCall = asCall(c)
		}
		if openCall == nil {
			r.Undecided(rule, "loadBucketState: os.Open call not found")
		} else {
			removes := func(in ssa.Instruction) bool {
				match := func(f *ssa.Function, x ssa.Instruction) bool {
					ci, ok := x.(ssa.CallInstruction)
					if !ok || cname(ci) != "os.Remove" {
						return false
					}
					return derives(ci.Common().Args[0], flowOpts{}, isCallTo("index.savedBucketsName"))
				}
				if match(load, in) {
					return true
				}
				if d, ok := in.(*ssa.Defer); ok {
					if f := d.Call.StaticCallee(); f != nil && f.Blocks != nil {
						found := false
						eachInstr(f, func(x ssa.Instruction) {
							if match(f, x) {
								found = true
							}
						})
						return found
					}
				}
				return false
			}
			okAll := true
			var bad []*ssa.BasicBlock
			for _, se := range successEdges(openCall) {
				se := se
				ok, path := followedBy(load, nil, &se, removes, nil)
				if !ok {
					okAll = false
					bad = path
				}
			}
			if okAll {
				r.Ok(rule, "loadBucketState/snapshot-removed", openCall.Pos(), "once opened, the snapshot file is removed on every path (used or rejected): it cannot survive into a mutating session")
			} else {
				r.BadPath(rule, "loadBucketState/snapshot-removed", openCall.Pos(), "there is a path on which the saved-buckets file is opened but not removed: after the next crash a stale snapshot would be trusted", bad)
			}
		}
	}
	// (d) position convention: value stored in buckets = record start + sizePrefixSize
	rulePosConvention(r, e)
	r.Min(rule, 12)
}

// rulePosConvention compares the offset (relative to the start of the index
// log record) that the writer puts in the bucket table, that the rescan
// reconstructs, and that GC tests with busy().
func rulePosConvention(r *Report, e *Engine) {
	const rule = "snapshot"
	var offsets []string
	// writer: flushBucket
	if fb := r.need(rule, "I", "(*Index).flushBucket"); fb != nil {
		env := linEnv{Rename: map[string]string{"F:Index.length": "START"}}
		found := false
		for _, c := range callSites(fb, "index.localPosToBucketPos") {
			arg := c.Common().Args[0]
			l := env.lin(arg)
			if l.T["START"] == 1 && len(l.T) == 1 {
				// the START load must be the length before this record's increment
				incs := fieldStores(fb, "Index.length")
				okBefore := derives(arg, flowOpts{Arith: true}, func(v ssa.Value) bool {
					ld, ok := v.(*ssa.UnOp)
					if !ok || fieldOfLoad(ld) != "Index.length" {
						return false
					}
					for _, st := range incs {
						if c, isC := intConst(st.Val); isC && c == 0 {
							continue // rollover reset precedes
						}
						if after, _ := (Search{Fn: fb, From: st, Target: isInstr(ld)}).Run(); after {
							return false
						}
					}
					return true
				})
				if okBefore {
					offsets = append(offsets, fmt.Sprintf("flushBucket:%d", l.C))
					r.Ok(rule, "posconv/flushBucket", c.Pos(), fmt.Sprintf("bucket value = record start + %d", l.C))
					found = true
				}
			}
		}
		if !found {
			r.Bad(rule, "posconv/flushBucket", fb.Pos(), "flushBucket does not record (file length before the record + constant) as the bucket position")
		}
	}
	scanOffset := func(fname string, fn *ssa.Function, callName string, argIdx int) {
		if fn == nil {
			return
		}
		// record start = the position value passed to the ReadAt that fills the 4-byte size buffer
		var start ssa.Value
		for _, c := range callSites(fn, "(*os.File).ReadAt") {
			if l, ok := (linEnv{}).sliceLen(c.Common().Args[1]); ok {
				if k, isC := l.isConst(); isC && k == 4 && start == nil {
					start = c.Common().Args[2]
				}
			}
		}
		if start == nil {
			r.Undecided(rule, fname+": size-word ReadAt not found")
			return
		}
		found := false
		for _, c := range callSites(fn, callName) {
			arg := c.Common().Args[argIdx]
			d := linEnv{}.lin(arg).add(linEnv{}.lin(start), -1)
			// the position variable may have been advanced by the prefix
			// before the call (pos += sizePrefixSize): compare through the phi
			if k, isC := d.isConst(); isC {
				offsets = append(offsets, fmt.Sprintf("%s:%d", fname, k))
				r.Ok(rule, "posconv/"+fname, c.Pos(), fmt.Sprintf("position passed = record start + %d", k))
				found = true
			} else {
				r.Bad(rule, "posconv/"+fname, c.Pos(), "position passed to "+callName+" is not record start + constant: "+d.String())
				found = true
			}
		}
		if !found {
			r.Bad(rule, "posconv/"+fname, fn.Pos(), "no call to "+callName+" found")
		}
	}
	scanOffset("scanIndexFile", r.need(rule, "I", "scanIndexFile"), "index.localPosToBucketPos", 0)
	scanOffset("reapIndexRecords", r.need(rule, "I", "(*Index).reapIndexRecords"), "(*index.Index).busy", 2)
	if len(offsets) == 3 {
		same := true
		var k0 string
		for i, o := range offsets {
			var name string
			var k int
			fmt.Sscanf(o[lastColon(o)+1:], "%d", &k)
			name = fmt.Sprint(k)
			if i == 0 {
				k0 = name
			} else if name != k0 {
				same = false
			}
		}
		r.Check(same && k0 == "4", rule, "posconv/agree", token.NoPos, "writer, rescan and GC busy-test use the same convention (record start + 4): "+fmt.Sprint(offsets),
			"writer, rescan and GC busy-test disagree on the bucket position convention: "+fmt.Sprint(offsets)+" — rescan recovery or GC would mis-identify live records")
	}
}

func lastColon(s string) int {
	for i := len(s) - 1; i >= 0; i-- {
		if s[i] == ':' {
			return i
		}
	}
	return -1
}

// R-SCAN-FROM-FIRSTFILE
func ruleScanFromFirstFile(r *Report) {
	const rule = "scan-from-firstfile"
	type site struct {
		alias, fn, callee string
		arg               int
	}
	// the file iterator used to move/copy index files starts at the first file too
	if fi := r.need(rule, "I", "newFileIter"); fi != nil {
		ok := false
		for _, st := range fieldStores(fi, "fileIter.fileNum") {
			if derives(st.Val, flowOpts{}, isFieldLoad("Header.FirstFile")) && derives(st.Val, flowOpts{}, isCallTo("index.readHeader")) {
				ok = true
			}
		}
		r.Check(ok, rule, "index.newFileIter", fi.Pos(), "file iteration starts at the header's FirstFile", "the index file iterator does not start at the header's FirstFile: after GC advanced the first file, MoveFiles finds no files (or leaves the old ones behind), so a re-bucketing installs new files in front of stale ones")
	}
	for _, sz := range [][2]string{{"I", "(*Index).StorageSize"}, {"M", "(*MultihashPrimary).StorageSize"}} {
		if f := r.need(rule, sz[0], sz[1]); f != nil {
			ok := false
			eachInstr(f, func(in ssa.Instruction) {
				if p, isPhi := in.(*ssa.Phi); isPhi {
					for _, e := range p.Edges {
						if fieldOfLoad(e) == "Header.FirstFile" {
							ok = true
						}
					}
				}
			})
			r.Check(ok, rule, shortFunc(f), f.Pos(), "storage size is summed from the header's FirstFile", "storage size is not summed starting at the header's FirstFile")
		}
	}
	sites := []site{
		{"I", "Open", "index.scanIndex", 2},
		{"I", "Open", "index.findLastIndex", 1},
		{"M", "Open", "mhprimary.findLastPrimary", 1},
	}
	for _, s := range sites {
		fn := r.need(rule, s.alias, s.fn)
		if fn == nil {
			continue
		}
		cs := callSites(fn, s.callee)
		if len(cs) == 0 {
			r.Bad(rule, s.callee, fn.Pos(), "Open does not call "+s.callee+": the rule cannot be evaluated")
			continue
		}
		for _, c := range cs {
			arg := c.Common().Args[s.arg]
			ok := derives(arg, flowOpts{}, isFieldLoad("Header.FirstFile")) && !derives(arg, flowOpts{Arith: true}, func(v ssa.Value) bool { _, is := v.(*ssa.BinOp); return is })
			// and the header is the one just read
			fromRead := derives(arg, flowOpts{}, isCallTo("index.readHeader", "mhprimary.readHeader"))
			r.Check(ok && fromRead, rule, s.callee, c.Pos(), "starts at the FirstFile recorded in the header just read",
				"the starting file number is not the header's FirstFile: after GC advanced the first file the scan finds no files and silently starts an empty log")
		}
	}
	r.Min(rule, 6)
}

// helper used by several rules: is t a pointer to / the named module type
func isNamed(t types.Type, name string) bool {
	n := namedOf(t)
	if n == nil {
		return false
	}
	if n.Obj().Name() == name {
		return true
	}
	if n.Obj().Pkg() != nil {
		return canonTypes[n.Obj().Pkg().Path()+"."+n.Obj().Name()] == name
	}
	return false
}

func init() {
	register("C02", func(r *Report) {
		ruleCloseMustCall(r)
		ruleSnapshot(r)
		ruleDeletedCheck(r)
		ruleScanFromFirstFile(r)
		ruleTailRecovery(r)
		ruleRescanAppliesAll(r)
		ruleMergeFraming(r)
		ruleSpanPair(r)
		rulePredictOpenOnly(r)
		ruleGoHandshake(r)
		// what Close leaves behind must be what Open reads back
		r.support(grpFormat, grpOrder, grpGC, []string{"config-wiring", "bucket-after-write", "firstfile-guard", "header-before-remove", "scan-from-firstfile", "pool-flush-complete", "scan-complete-before-truncate"})
	},
		"Decides structural necessary conditions of 'clean Close + reopen preserves contents', not the behaviour: Store.Close reaches the Close of index, primary, file cache and freelist on every path behind the open guard, each component flushes before closing its file; the bucket snapshot is written (temp + rename) only after a successful flush and close, is only trusted when its size matches, and is removed once opened; writer, rescan and GC agree on the bucket position convention; every sequential scanner honours the deleted bit; recovery starts from the header's FirstFile; the primary resumes predicting at the end of the last file. Not covered: that rescan order reproduces the live table for every history, file contents.",
		"dominance on the SSA CFG without pruning infeasible paths")
}

// R-TAIL-RECOVERY: the rescan of the index log cuts an incomplete trailing
// record off at the record's start, whichever way the short read is reported.
func ruleTailRecovery(r *Report) {
	const rule = "tail-recovery"
	fn := r.need(rule, "I", "scanIndexFile")
	if fn == nil {
		return
	}
	truncs := callSites(fn, "os.Truncate", "(*os.File).Truncate")
	if len(truncs) == 0 {
		r.Bad(rule, "scanIndexFile/truncates", fn.Pos(), "the index rescan never truncates an incomplete trailing record: appends after a torn tail would be misparsed by the next scan")
		return
	}
	success, _ := classifyReturns(fn)
	succSet := map[ssa.Instruction]bool{}
	for _, s := range success {
		if isNilConst(retVal(s, 0)) {
			succSet[s] = true
		}
	}
	var start ssa.Value
	n := 0
	for _, c := range callSites(fn, "(*os.File).ReadAt") {
		rc := asCall(c)
		if rc == nil {
			continue
		}
		isSizeWord := false
		if l, ok := (linEnv{}).sliceLen(rc.Call.Args[1]); ok {
			if k, isC := l.isConst(); isC && k == 4 {
				isSizeWord = true
			}
		}
		nVals := map[ssa.Value]bool{}
		for _, v := range extractOf(rc, 0) {
			nVals[v] = true
		}
		var allowed []Edge
		what := "record body"
		if isSizeWord {
			what = "size prefix"
			if start == nil {
				start = rc.Call.Args[2]
			}
			// a clean end of file: nothing at all was read
			allowed = cmpConstEdges(fn, func(v ssa.Value) bool { return nVals[v] }, 0, true)
		}
		n++
		bad := false
		for _, fe := range failureEdges(rc) {
			fe := fe
			reach, path := Search{Fn: fn, FromEdge: &fe, Target: anyOf(succSet), Avoid: anyOf(instrSet(truncs)), AvoidEdges: mkEdgeSet(allowed)}.Run()
			if reach {
				bad = true
				r.BadPath(rule, "scanIndexFile/short-"+what+"-is-cut-off", rc.Pos(), "after a failed/short read of the "+what+" the scan can finish successfully without truncating the file and without having established that nothing was read (n == 0): os.File.ReadAt reports a partial read at the end of the file as io.EOF, so a torn "+what+" stays in the log, later appends follow it, and the next rescan misparses everything after it (flushed keys lost)", path)
			}
		}
		if !bad {
			r.Ok(rule, "scanIndexFile/short-"+what+"-is-cut-off", rc.Pos(), "a short read of the "+what+" either is a clean end of file (n == 0) or leads to truncation or an error")
		}
	}
	if start == nil {
		r.Undecided(rule, "scanIndexFile: size-word ReadAt not found")
		return
	}
	for _, t := range truncs {
		a := t.Common().Args
		off := a[len(a)-1]
		d := linEnv{}.lin(off).add(linEnv{}.lin(start), -1)
		k, isC := d.isConst()
		r.Check(isC && k == 0, rule, "scanIndexFile/truncate-at-record-start", t.Pos(), "the file is cut at the start of the incomplete record",
			fmt.Sprintf("the incomplete record is cut at record start %+d (%s): a dangling fragment (e.g. the size prefix) stays in the log and the next rescan misparses what follows", k, d))
	}
	r.Min(rule, 4)
}
