package main

import (
	"encoding/json"
	"fmt"
	"go/token"
	"os"
	"path/filepath"
	"sort"
	"strings"
	"time"

	"golang.org/x/tools/go/ssa"
)

// Obligation is one checked instance of a rule.
type Obligation struct {
	Rule   string `json:"rule"`
	Key    string `json:"key"`
	Pos    string `json:"pos"`
	OK     bool   `json:"ok"`
	Detail string `json:"detail,omitempty"`
	Path   string `json:"path,omitempty"`
}

// Report collects the obligations of one property run.
type Report struct {
	E          *Engine
	Property   string
	Obls       []Obligation
	Info       []string
	minCount   map[string]int
	keys       map[string]int
	Funcs      map[string]bool // functions analysed
	Sites      int             // call sites inspected
	finalized  bool
	Supporting []string // supporting rules run (support.go)
}

func newReport(e *Engine, prop string) *Report {
	return &Report{E: e, Property: prop, minCount: map[string]int{}, keys: map[string]int{}, Funcs: map[string]bool{}}
}

func (r *Report) uniq(key string) string {
	r.keys[key]++
	if n := r.keys[key]; n > 1 {
		return fmt.Sprintf("%s#%d", key, n)
	}
	return key
}

func (r *Report) add(rule, key string, pos token.Pos, ok bool, detail, path string) {
	r.Obls = append(r.Obls, Obligation{Rule: rule, Key: r.uniq(rule + "/" + key), Pos: r.E.Pos(pos), OK: ok, Detail: detail, Path: path})
}

// Ok records a discharged obligation.
func (r *Report) Ok(rule, key string, pos token.Pos, detail string) {
	r.add(rule, key, pos, true, detail, "")
}

// Bad records a violated obligation.
func (r *Report) Bad(rule, key string, pos token.Pos, detail string) {
	r.add(rule, key, pos, false, detail, "")
}

func (r *Report) BadPath(rule, key string, pos token.Pos, detail string, path []*ssa.BasicBlock) {
	r.add(rule, key, pos, false, detail, pathString(r.E, path))
}

// Check records ok or bad depending on cond.
func (r *Report) Check(cond bool, rule, key string, pos token.Pos, okDetail, badDetail string) bool {
	if cond {
		r.Ok(rule, key, pos, okDetail)
	} else {
		r.Bad(rule, key, pos, badDetail)
	}
	return cond
}

// Undecided records that a rule could not be evaluated (anchor missing, shape
// not recognised). An undecided rule never passes.
func (r *Report) Undecided(rule, what string) {
	r.add(rule, "undecided/"+what, token.NoPos, false, "UNDECIDED: "+what+" — the rule cannot be evaluated on this tree, so the property is not shown to hold", "")
}

// Min declares the minimum number of instances rule must have matched.
func (r *Report) Min(rule string, n int) { r.minCount[rule] = n }

func (r *Report) fn(f *ssa.Function) {
	if f != nil {
		r.Funcs[shortFunc(f)] = true
	}
}

// need resolves a function anchor or records an undecided obligation.
func (r *Report) need(rule, alias, name string) *ssa.Function {
	f := r.E.Func(alias, name)
	if f == nil || f.Blocks == nil {
		r.Undecided(rule, "anchor "+alias+"."+name+" not found")
		return nil
	}
	r.fn(f)
	return f
}

func (r *Report) finalizeCounts() {
	if r.finalized {
		return
	}
	r.finalized = true
	counts := map[string]int{}
	for _, o := range r.Obls {
		counts[o.Rule]++
	}
	var rules []string
	for rule := range r.minCount {
		rules = append(rules, rule)
	}
	sort.Strings(rules)
	for _, rule := range rules {
		if counts[rule] < r.minCount[rule] {
			r.add(rule, "instance-count", token.NoPos, false,
				fmt.Sprintf("rule matched %d instances, fewer than the %d confirmed by reading; the rule would pass vacuously", counts[rule], r.minCount[rule]), "")
		}
	}
}

// ---------------------------------------------------------------------------
// known findings

type Finding struct {
	Property string `json:"property"`
	Rule     string `json:"rule"`
	Key      string `json:"key"`
	Status   string `json:"status"` // known | fixed
	Commit   string `json:"commit,omitempty"`
	What     string `json:"what"`
}

func loadFindings(verifDir string) ([]Finding, error) {
	data, err := os.ReadFile(filepath.Join(verifDir, "known_findings.json"))
	if err != nil {
		if os.IsNotExist(err) {
			return nil, nil
		}
		return nil, err
	}
	var fs []Finding
	if err := json.Unmarshal(data, &fs); err != nil {
		return nil, err
	}
	return fs, nil
}

// ---------------------------------------------------------------------------
// evidence + output

type runMeta struct {
	Tier        string
	Seed        int
	Start       time.Time
	VerifDir    string
	Extra       map[string]any
	Assumptions []string
	Explanation string
	Trusted     []string
}

func (r *Report) finish(meta runMeta) int {
	r.finalizeCounts()
	findings, ferr := loadFindings(meta.VerifDir)
	if ferr != nil {
		r.add("known-findings", "unreadable", token.NoPos, false, "known_findings.json unreadable: "+ferr.Error(), "")
	}
	known := map[string]Finding{}
	for _, f := range findings {
		if f.Status == "known" && f.Property == r.Property {
			known[f.Key] = f
		}
	}
	var viols, knownHits []Obligation
	discharged := 0
	perRule := map[string][2]int{}
	for _, o := range r.Obls {
		c := perRule[o.Rule]
		c[0]++
		if o.OK {
			discharged++
			c[1]++
		} else if _, ok := known[o.Key]; ok {
			knownHits = append(knownHits, o)
		} else {
			viols = append(viols, o)
		}
		perRule[o.Rule] = c
	}
	for _, o := range knownHits {
		fmt.Printf("KNOWN-FINDING: property=%s %s at %s: %s\n", r.Property, o.Key, o.Pos, known[o.Key].What)
	}
	// samples: a few discharged obligations plus all violations
	var samples []any
	n := 0
	seenRule := map[string]int{}
	for _, o := range r.Obls {
		if !o.OK {
			continue
		}
		if seenRule[o.Rule] >= 2 || n >= 40 {
			continue
		}
		seenRule[o.Rule]++
		n++
		samples = append(samples, o)
	}
	for _, o := range viols {
		samples = append(samples, o)
	}
	for _, o := range knownHits {
		samples = append(samples, o)
	}
	rulesCount := map[string]any{}
	var ruleNames []string
	for k := range perRule {
		ruleNames = append(ruleNames, k)
	}
	sort.Strings(ruleNames)
	for _, k := range ruleNames {
		rulesCount[k] = map[string]int{"instances": perRule[k][0], "discharged": perRule[k][1]}
	}
	var funcs []string
	for f := range r.Funcs {
		funcs = append(funcs, f)
	}
	sort.Strings(funcs)
	wall := time.Since(meta.Start).Seconds()
	if meta.Assumptions == nil {
		meta.Assumptions = []string{}
	}
	if r.Info == nil {
		r.Info = []string{}
	}
	cov := map[string]any{
		"explanation":        meta.Explanation,
		"supporting_rules":   supportingNote(r),
		"obligations":        len(r.Obls),
		"discharged":         discharged,
		"known_findings":     len(knownHits),
		"rules":              rulesCount,
		"functions_analysed": funcs,
		"functions_count":    len(funcs),
		"call_sites":         r.Sites,
		"packages_loaded":    len(r.E.Pkgs),
		"module_functions":   len(r.E.ModFuncs),
		"samples":            samples,
		"checker_cmd":        fmt.Sprintf("bin/sthlint -property %s -tier %s", r.Property, meta.Tier),
		"trusted_base":       meta.Trusted,
		"info":               r.Info,
	}
	for k, v := range meta.Extra {
		cov[k] = v
	}
	ev := map[string]any{
		"property_id": r.Property,
		"tier":        meta.Tier,
		"seed":        meta.Seed,
		"level":       "other",
		"coverage":    cov,
		"assumptions": meta.Assumptions,
		"wall_s":      wall,
		"violations":  len(viols),
	}
	evDir := filepath.Join(meta.VerifDir, "evidence")
	_ = os.MkdirAll(evDir, 0o755)
	data, _ := json.MarshalIndent(ev, "", " ")
	if err := os.WriteFile(filepath.Join(evDir, r.Property+".json"), data, 0o644); err != nil {
		fmt.Fprintln(os.Stderr, "cannot write evidence:", err)
		return 2
	}
	for _, l := range r.Info {
		fmt.Println(l)
	}
	for _, k := range ruleNames {
		fmt.Printf("%s %s: %d instances, %d discharged\n", r.Property, k, perRule[k][0], perRule[k][1])
	}
	if len(viols) > 0 {
		vpath := filepath.Join(evDir, r.Property+".violations.json")
		vdata, _ := json.MarshalIndent(viols, "", " ")
		_ = os.WriteFile(vpath, vdata, 0o644)
		fmt.Printf("VIOLATION property=%s replay=%s\n", r.Property, vpath)
		for _, o := range viols {
			fmt.Printf("  %s  %s  %s\n", o.Key, o.Pos, o.Detail)
			if o.Path != "" {
				fmt.Printf("      path: %s\n", o.Path)
			}
		}
		return 1
	}
	_ = os.Remove(filepath.Join(evDir, r.Property+".violations.json"))
	fmt.Printf("OK property=%s obligations=%d discharged=%d known_findings=%d wall=%.1fs\n", r.Property, len(r.Obls), discharged, len(knownHits), wall)
	return 0
}

func joinNonEmpty(parts ...string) string {
	var out []string
	for _, p := range parts {
		if p != "" {
			out = append(out, p)
		}
	}
	return strings.Join(out, "; ")
}

// supportingNote: the rules run for this property on behalf of the mechanisms
// it depends on (tool/support.go), as opposed to its own rules.
func supportingNote(r *Report) map[string]any {
	names := append([]string{}, r.Supporting...)
	sort.Strings(names)
	return map[string]any{
		"rules": names,
		"why":   "each is a necessary condition of this property as well: an open store always runs the flusher and both collectors behind every call, reopen reads what Close/flush wrote, the adapter sits on the store; see the owning property's section in DESIGN.md for what the rule decides",
	}
}
