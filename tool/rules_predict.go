package main

import (
	"fmt"
	"go/token"
	"strings"

	"golang.org/x/tools/go/ssa"
)

// R-PREDICT: the location a primary's Put predicts (and hands to the index)
// must be the location its flushBlock later writes. Decided as agreement of
// sibling affine expressions, not by executing anything.

type predictSpec struct {
	alias     string
	typ       string // receiver type name
	posPut    string // field advanced by Put
	filePut   string // file-number field advanced by Put ("" if single file)
	posFlush  string // field advanced by flushBlock ("" if none)
	fileFlush string
	limit     string
}

func storesTo(fn *ssa.Function, field string) []*ssa.Store { return fieldStores(fn, field) }

func (ps predictSpec) env(pos, file string) linEnv {
	m := map[string]string{}
	if pos != "" {
		m["F:"+ps.typ+"."+pos] = "POS"
	}
	if file != "" {
		m["F:"+ps.typ+"."+file] = "FILE"
	}
	if ps.limit != "" {
		m["F:"+ps.typ+"."+ps.limit] = "LIMIT"
	}
	return linEnv{Rename: m}
}

type rollInfo struct {
	ok         bool
	test       string // normalised comparison
	branch     int
	fileInc    string
	posReset   string
	detail     string
	testPos    token.Pos
	incr       Lin // POS increment outside the rollover region
	incrPos    token.Pos
	incrStore  *ssa.Store
	rollStores []*ssa.Store
}

// analyseAdvance extracts the rollover test and the position increment of fn.
func analyseAdvance(fn *ssa.Function, ps predictSpec, pos, file string) rollInfo {
	env := ps.env(pos, file)
	var ri rollInfo
	var rollEdgeIf *ssa.If
	if file != "" {
		fs := storesTo(fn, ps.typ+"."+file)
		if len(fs) != 1 {
			ri.detail = fmt.Sprintf("expected exactly one store to %s.%s, found %d", ps.typ, file, len(fs))
			return ri
		}
		// walk outwards through the guarding tests to the one on the position
		var ifi *ssa.If
		var idx int
		var op string
		var l, rr Lin
		neg := false
		blk := fs[0].Block()
		for {
			g, gi := guardingIf(blk)
			if g == nil {
				break
			}
			cond, n := stripNot(g.Cond)
			if bo, ok := cond.(*ssa.BinOp); ok {
				o, a, b, ok := cmpNorm(env, bo)
				if ok && (a.T["POS"] != 0 || b.T["POS"] != 0) {
					ifi, idx, op, l, rr, neg = g, gi, o, a, b, n
					break
				}
			}
			blk = g.Block()
		}
		if ifi == nil {
			ri.detail = "store to " + file + " is not guarded by a rollover test on the position"
			return ri
		}
		if neg {
			idx = 1 - idx
		}
		ri.test = fmt.Sprintf("%s %s %s", l.String(), op, rr.String())
		ri.branch = idx
		ri.testPos = instrPos(ifi)
		ri.fileInc = env.lin(fs[0].Val).String()
		ri.rollStores = append(ri.rollStores, fs[0])
		rollEdgeIf = ifi
	}
	for _, st := range storesTo(fn, ps.typ+"."+pos) {
		inRoll := false
		if rollEdgeIf != nil {
			ifi, _ := guardingIf(st.Block())
			for x := ifi; x != nil; {
				if x == rollEdgeIf {
					inRoll = true
					break
				}
				x, _ = guardingIf(x.Block())
			}
		}
		l := env.lin(st.Val)
		if inRoll {
			ri.posReset = l.String()
			ri.rollStores = append(ri.rollStores, st)
			continue
		}
		if ri.incrStore != nil {
			ri.detail = "more than one position increment outside the rollover branch"
			return ri
		}
		if l.T["POS"] != 1 {
			ri.detail = "position store is not POS + increment: " + l.String()
			return ri
		}
		ri.incr = l.add(linAtom("POS"), -1)
		ri.incrPos = st.Pos()
		ri.incrStore = st
	}
	if ri.incrStore == nil {
		ri.detail = "no position increment found for " + pos
		return ri
	}
	ri.ok = true
	return ri
}

func rulePredict(r *Report) {
	const rule = "predict"
	specs := []predictSpec{
		{alias: "M", typ: "MultihashPrimary", posPut: "recPos", filePut: "recFileNum", posFlush: "length", fileFlush: "fileNum", limit: "maxFileSize"},
		{alias: "Cd", typ: "CIDPrimary", posPut: "length"},
	}
	for _, ps := range specs {
		put := r.need(rule, ps.alias, "(*"+ps.typ+").Put")
		flush := r.need(rule, ps.alias, "(*"+ps.typ+").flushBlock")
		get := r.need(rule, ps.alias, "(*"+ps.typ+").Get")
		if put == nil || flush == nil || get == nil {
			continue
		}
		pfx := ps.typ
		pi := analyseAdvance(put, ps, ps.posPut, ps.filePut)
		if !pi.ok {
			r.Undecided(rule, pfx+".Put: "+pi.detail)
			continue
		}
		// Σ bytes written by flushBlock
		envF := ps.env(ps.posFlush, ps.fileFlush)
		written := linConst(0)
		nw := 0
		for _, w := range callSites(flush, "(*bufio.Writer).Write") {
			arg := w.Common().Args[1]
			if l, ok := envF.sliceLen(arg); ok {
				written = written.add(l, 1)
			} else {
				written = written.add(linAtom("len("+envF.rootAtom(arg)+")"), 1)
			}
			nw++
		}
		if nw == 0 {
			r.Undecided(rule, pfx+".flushBlock: no writer.Write calls found")
			continue
		}
		// O3/O4: predicted advance == bytes written
		r.Check(pi.incr.equal(written), rule, pfx+"/O4-written-equals-predicted-advance", pi.incrPos,
			fmt.Sprintf("Put advances the predicted position by [%s]; flushBlock writes [%s] bytes per record", pi.incr, written),
			fmt.Sprintf("Put advances the predicted position by [%s] but flushBlock writes [%s] bytes per record: every later record's indexed location is wrong", pi.incr, written))
		if ps.posFlush != "" {
			fi := analyseAdvance(flush, ps, ps.posFlush, ps.fileFlush)
			if !fi.ok {
				r.Undecided(rule, pfx+".flushBlock: "+fi.detail)
				continue
			}
			r.Check(pi.test == fi.test && pi.branch == fi.branch, rule, pfx+"/O1-rollover-test-agrees", fi.testPos,
				fmt.Sprintf("both use rollover test [%s]", pi.test),
				fmt.Sprintf("Put rolls over when [%s] (branch %d) but flushBlock when [%s] (branch %d): a record predicted into one file is written into another", pi.test, pi.branch, fi.test, fi.branch))
			r.Check(pi.fileInc == fi.fileInc && pi.fileInc == "FILE + 1" && pi.posReset == fi.posReset && pi.posReset == "0", rule, pfx+"/O2-rollover-action-agrees", fi.testPos,
				"both do FILE+1, POS=0 on rollover",
				fmt.Sprintf("rollover actions differ or are not (FILE+1, 0): Put (%s, %s) flushBlock (%s, %s)", pi.fileInc, pi.posReset, fi.fileInc, fi.posReset))
			r.Check(pi.incr.equal(fi.incr), rule, pfx+"/O3-advance-agrees", fi.incrPos,
				fmt.Sprintf("both advance by [%s]", pi.incr),
				fmt.Sprintf("Put advances the predicted position by [%s] but flushBlock advances the written length by [%s]", pi.incr, fi.incr))
		}
		// O5: Block.Size and the reader
		envP := ps.env(ps.posPut, ps.filePut)
		var sizeStore *ssa.Store
		var offStore *ssa.Store
		for _, st := range fieldStores(put, "Block.Size") {
			sizeStore = st
		}
		for _, st := range fieldStores(put, "Block.Offset") {
			offStore = st
		}
		if sizeStore == nil || offStore == nil {
			r.Undecided(rule, pfx+".Put: stores to Block.Size/Block.Offset not found")
			continue
		}
		size := envP.lin(sizeStore.Val)
		prefix := pi.incr.add(size, -1)
		pc, isC := prefix.isConst()
		r.Check(isC && pc >= 0, rule, pfx+"/O5-size-is-record-minus-prefix", sizeStore.Pos(),
			fmt.Sprintf("Block.Size = [%s]; record = size + %d prefix bytes", size, pc),
			fmt.Sprintf("Block.Size [%s] and the predicted advance [%s] do not differ by a constant prefix", size, pi.incr))
		// offset must be the position before the increment and after rollover
		offOK := derives(offStore.Val, flowOpts{ThroughAllCalls: true, Arith: true}, func(v ssa.Value) bool {
			ld, ok := v.(*ssa.UnOp)
			if !ok || fieldOfLoad(ld) != ps.typ+"."+ps.posPut {
				return false
			}
			// not after the increment, not before a rollover store
			after, _ := Search{Fn: put, From: pi.incrStore, Target: isInstr(ld)}.Run()
			if after {
				return false
			}
			for _, rs := range pi.rollStores {
				before, _ := Search{Fn: put, From: ld, Target: isInstr(rs)}.Run()
				if before {
					return false
				}
			}
			return true
		})
		r.Check(offOK, rule, pfx+"/O5-offset-is-position-before-advance", offStore.Pos(),
			"the returned offset is computed from the predicted position after the rollover adjustment and before the advance",
			"the returned offset is not the predicted position between rollover adjustment and advance: the index would name the wrong location")
		if ps.filePut != "" {
			fileOK := derives(offStore.Val, flowOpts{ThroughAllCalls: true, Arith: true}, isFieldLoad(ps.typ+"."+ps.filePut)) &&
				derives(offStore.Val, flowOpts{ThroughAllCalls: true, Arith: true}, isFieldLoad(ps.typ+"."+ps.limit))
			r.Check(fileOK, rule, pfx+"/O5-offset-includes-file-number", offStore.Pos(),
				"the returned offset combines the predicted file number and the file size limit",
				"the returned offset does not depend on the predicted file number/limit")
		}
		// reader: bytes read = Block.Size + prefix, and prefix stripped
		envG := linEnv{}
		var mk ssa.Value
		eachInstr(get, func(in ssa.Instruction) {
			switch x := in.(type) {
			case *ssa.MakeSlice:
				if isByteSlice(x.Type()) && mk == nil {
					mk = x
				}
			}
		})
		if mk == nil {
			r.Undecided(rule, pfx+".Get: read buffer allocation not found")
			continue
		}
		rl := envG.lin(mk.(*ssa.MakeSlice).Len)
		want := linAtom("F:Block.Size").add(linConst(pc), 1)
		r.Check(rl.equal(want), rule, pfx+"/O5-reader-length", mk.Pos(),
			fmt.Sprintf("Get reads [%s] bytes = stored size + %d prefix bytes", rl, pc),
			fmt.Sprintf("Get reads [%s] bytes but a record occupies [%s]", rl, want))
		// the slice handed to readNode strips exactly the prefix
		stripOK := false
		var stripPos token.Pos
		for _, c := range allCalls(get) {
			f := c.Common().StaticCallee()
			if f == nil || !strings.HasSuffix(shortFunc(f), ".readNode") {
				continue
			}
			stripPos = c.Pos()
			if sl, ok := c.Common().Args[0].(*ssa.Slice); ok && sl.Low != nil && sl.High == nil {
				if lo, ok := envG.lin(sl.Low).isConst(); ok && lo == pc && sl.X == mk {
					stripOK = true
				}
			}
		}
		r.Check(stripOK, rule, pfx+"/O5-reader-strips-prefix", stripPos,
			fmt.Sprintf("Get decodes key/value from the buffer after its first %d bytes", pc),
			fmt.Sprintf("Get does not decode key/value from exactly the bytes after the %d-byte size prefix", pc))
		// ReadAt uses the buffer and an offset derived from the block's offset
		readOK := false
		for _, c := range callSites(get, "(*os.File).ReadAt") {
			a := c.Common().Args
			if a[1] == mk && derives(a[2], flowOpts{ThroughAllCalls: true, Arith: true}, isFieldLoad("Block.Offset")) {
				readOK = true
			}
		}
		r.Check(readOK, rule, pfx+"/O5-reader-offset", get.Pos(),
			"Get reads the record at an offset derived from the block's Offset",
			"Get does not read the record buffer at an offset derived from Block.Offset")
		// O6: Open initialises predicted and written positions identically
		open := r.need(rule, ps.alias, "Open")
		if open == nil {
			continue
		}
		if ps.posFlush != "" {
			pairs := [][2]string{{ps.posPut, ps.posFlush}, {ps.filePut, ps.fileFlush}}
			for _, pr := range pairs {
				a := fieldStores(open, ps.typ+"."+pr[0])
				b := fieldStores(open, ps.typ+"."+pr[1])
				ok := len(a) == 1 && len(b) == 1 && linEnv{}.lin(a[0].Val).equal(linEnv{}.lin(b[0].Val))
				var p token.Pos
				if len(a) > 0 {
					p = a[0].Pos()
				}
				r.Check(ok, rule, pfx+"/O6-open-init-"+pr[0]+"="+pr[1], p,
					"Open initialises "+pr[0]+" and "+pr[1]+" from the same value",
					"Open does not initialise "+pr[0]+" and "+pr[1]+" from the same value: the first prediction after reopen is off")
			}
		}
		// the start position is the end of the file that was opened
		a := fieldStores(open, ps.typ+"."+ps.posPut)
		seekOK := len(a) == 1 && derives(a[0].Val, flowOpts{}, func(v ssa.Value) bool {
			c, ok := v.(*ssa.Call)
			if !ok || cname(c) != "(*os.File).Seek" {
				return false
			}
			off, ok1 := intConst(c.Call.Args[1])
			wh, ok2 := intConst(c.Call.Args[2])
			return ok1 && ok2 && off == 0 && wh == 2
		})
		var p token.Pos
		if len(a) > 0 {
			p = a[0].Pos()
		}
		r.Check(seekOK, rule, pfx+"/O6-open-resumes-at-end", p,
			"Open starts predicting at the end of the last file (Seek(0, SeekEnd))",
			"Open does not start predicting at the end of the last file")
	}
	r.Min(rule, 14)
}

// rulePredictOpenOnly re-uses the O6 obligations of R-PREDICT (the primary
// resumes predicting at the end of its last file) for C02.
func rulePredictOpenOnly(r *Report) {
	tmp := newReport(r.E, r.Property)
	rulePredict(tmp)
	n := 0
	for _, o := range tmp.Obls {
		if strings.Contains(o.Key, "/O6-") || strings.Contains(o.Key, "undecided") {
			o.Rule = "predict-open"
			o.Key = "predict-open" + strings.TrimPrefix(o.Key, "predict")
			r.Obls = append(r.Obls, o)
			n++
		}
	}
	for f := range tmp.Funcs {
		r.Funcs[f] = true
	}
	r.Min("predict-open", 4)
}

// rulePredictSubset copies selected R-PREDICT obligations under another rule name.
func rulePredictSubset(r *Report, rule string, parts []string) {
	tmp := newReport(r.E, r.Property)
	rulePredict(tmp)
	n := 0
	for _, o := range tmp.Obls {
		keep := strings.Contains(o.Key, "undecided")
		for _, p := range parts {
			if strings.Contains(o.Key, p) {
				keep = true
			}
		}
		if keep {
			o.Rule = rule
			o.Key = rule + strings.TrimPrefix(o.Key, "predict")
			r.Obls = append(r.Obls, o)
			n++
		}
	}
	for f := range tmp.Funcs {
		r.Funcs[f] = true
	}
	r.Min(rule, 8)
}
