package main

import (
	"go/constant"
	"fmt"
	"go/token"
	"sort"
	"strings"

	"golang.org/x/tools/go/ssa"
)

// moduleFuncsNonTest lists module functions excluding the testutil package.
func moduleFuncs(e *Engine) []*ssa.Function {
	var out []*ssa.Function
	for _, fn := range e.ModFuncs {
		root := fn
		for root.Parent() != nil {
			root = root.Parent()
		}
		if root.Pkg != nil && strings.HasSuffix(root.Pkg.Pkg.Path(), "/testutil") {
			continue
		}
		out = append(out, fn)
	}
	return out
}

// trueEdgesOf returns edges on which boolean value(s) vs are true.
func trueEdgesOf(fn *ssa.Function, vs []ssa.Value) []Edge {
	set := map[ssa.Value]bool{}
	for _, v := range vs {
		set[v] = true
	}
	return condEdges(fn, func(cond ssa.Value) (bool, bool) {
		if set[cond] {
			return true, false
		}
		return false, false
	})
}

// R-FREE-AFTER-INDEX: a location is put on the freelist only when, on that
// path, the index has stopped naming it.
func ruleFreeAfterIndex(r *Report) {
	const rule = "free-after-index"
	e := r.E
	n := 0
	for _, fn := range moduleFuncs(e) {
		sites := callSites(fn, "(*freelist.FreeList).Put")
		if len(sites) == 0 {
			continue
		}
		r.fn(fn)
		for _, s := range sites {
			n++
			r.Sites++
			arg := s.Common().Args[1]
			key := shortFunc(fn) + "/freelist.Put"
			form, detail := classifyFreeSite(e, fn, s, arg)
			if form != "" {
				r.Ok(rule, key, s.Pos(), form)
			} else {
				r.Bad(rule, key, s.Pos(), "this freelist Put matches none of the accepted forms (after a successful index Update/Remove of the same key's old location; relocation after the index was re-pointed; orphaned copy after a failed re-point): "+detail+" — a location still named by the index could be freed and later overwritten/truncated by GC, or a location would be freed for a new/rejected/absent key")
			}
		}
	}
	if n < 4 {
		r.Bad(rule, "inventory", token.NoPos, fmt.Sprintf("found %d freelist Put sites, expected at least the 4 confirmed by reading (overwrite, remove, relocation old, relocation orphan): superseded locations would never be freed", n))
	}
	r.Min(rule, 4)
}

func classifyFreeSite(e *Engine, fn *ssa.Function, s ssa.CallInstruction, arg ssa.Value) (string, string) {
	var why []string
	fromIndexGet := derives(arg, flowOpts{}, isCallTo("(*index.Index).Get"))
	ev := findKeyEvidence(e, fn, -1, 0)
	keyGuard := false
	if len(ev.edges) > 0 {
		keyGuard, _ = guarded(fn, s, mkEdgeSet(ev.edges), nil)
	}
	// Form A: after successful index.Update
	for _, u := range callSites(fn, "(*index.Index).Update") {
		if ok, _ := successGuard(fn, s, asCall(u)); ok {
			if fromIndexGet && keyGuard {
				return "form A: old location (from index.Get) freed after index.Update succeeded, behind the key match", ""
			}
			why = append(why, fmt.Sprintf("after Update but fromIndexGet=%v keyGuard=%v", fromIndexGet, keyGuard))
		}
	}
	// Form B: after index.Remove reported removed
	for _, rm := range callSites(fn, "(*index.Index).Remove") {
		rc := asCall(rm)
		if rc == nil {
			continue
		}
		okS, _ := successGuard(fn, s, rc)
		removedEdges := trueEdgesOf(fn, resultValues(rc, 0))
		okR, _ := guarded(fn, s, mkEdgeSet(removedEdges), nil)
		if okS && okR {
			if fromIndexGet && keyGuard {
				return "form B: location (from index.Get) freed after index.Remove reported the entry removed, behind the key match", ""
			}
			why = append(why, fmt.Sprintf("after Remove but fromIndexGet=%v keyGuard=%v", fromIndexGet, keyGuard))
		}
	}
	// Forms C/D: relocation
	upd := callSites(fn, "field:primaryGC.updateIndex")
	if len(upd) > 0 {
		for _, u := range upd {
			uc := asCall(u)
			if uc == nil {
				continue
			}
			// D: orphaned new copy
			fe := failureEdges(uc)
			if len(fe) > 0 {
				if ok, _ := guarded(fn, s, mkEdgeSet(fe), nil); ok {
					newLoc := uc.Call.Args[1]
					if sameValue(arg, newLoc) && derives(arg, flowOpts{}, isCallTo("(*mhprimary.MultihashPrimary).Put", "(primary.PrimaryStorage).Put")) {
						return "form D: the just-written copy is freed because re-pointing the index failed (orphan)", ""
					}
					why = append(why, "on updateIndex failure edge but the argument is not the new copy's location")
				}
			}
		}
		// C: old location after the re-point attempt
		ok, _ := precededBy(fn, s, instrSet(upd), nil)
		if ok {
			// offset = absolutePrimaryPos(position the record was read at, file number parameter)
			var posOK bool
			derives(arg, flowOpts{ThroughAllCalls: false}, func(v ssa.Value) bool {
				c, isCall := v.(*ssa.Call)
				if !isCall || cname(c) != "mhprimary.absolutePrimaryPos" {
					return false
				}
				pos := stripIntConv(c.Call.Args[0])
				_, fileIsParam := stripIntConv(c.Call.Args[1]).(*ssa.Parameter)
				for _, ra := range callSites(fn, "(*os.File).ReadAt") {
					if stripIntConv(ra.Common().Args[2]) == pos && instrDominates(ra, s) {
						if fileIsParam {
							posOK = true
						}
					}
				}
				return false
			})
			if posOK {
				// the freed size must belong to the same record as the freed position
				sz := complitField(arg, "Block.Size")
				var posVal ssa.Value
				derives(arg, flowOpts{}, func(v ssa.Value) bool {
					if c, isCall := v.(*ssa.Call); isCall && cname(c) == "mhprimary.absolutePrimaryPos" {
						posVal = stripIntConv(c.Call.Args[0])
					}
					return false
				})
				if sz == nil || posVal == nil || !pairConsistent(fn, posVal, stripIntConv(sz), map[[2]ssa.Value]bool{}) {
					return "", "the freed (offset, size) pair is not consistently the position and size word of one record: the position/size variables are not updated in lock-step (a size of a different record is freed; GC then refuses the entry as a size mismatch, the record is relocated again and the first copy is never freed)"
				}
				return "form C: the relocated record's old location (position it was read at, this file) and its own size are freed after the index re-point was attempted", ""
			}
			why = append(why, "after updateIndex but the freed offset is not absolutePrimaryPos(read position, fileNum)")
		}
	}
	if len(why) == 0 {
		why = append(why, "not dominated by a successful index Update/Remove or a relocation re-point")
	}
	return "", strings.Join(why, "; ")
}

// R-TOGC: hand-over of the freelist file to GC.
func ruleToGC(r *Report) {
	const rule = "togc"
	fn := r.need(rule, "F", "(*FreeList).ToGC")
	if fn == nil {
		return
	}
	renames := callSites(fn, "os.Rename")
	if len(renames) != 1 {
		r.Bad(rule, "ToGC/rename", fn.Pos(), fmt.Sprintf("expected exactly one os.Rename in ToGC, found %d", len(renames)))
		return
	}
	rn := renames[0]
	gcPath := rn.Common().Args[1]
	// (a) rename only when no unprocessed .gc file exists
	var notExist []Edge
	for _, st := range callSites(fn, "os.Stat") {
		sc := asCall(st)
		if sc == nil || !sameValue(sc.Call.Args[0], gcPath) {
			continue
		}
		evs := errValues(sc)
		for _, c := range callSites(fn, "os.IsNotExist") {
			cc := asCall(c)
			if cc != nil && evs[cc.Call.Args[0]] {
				notExist = append(notExist, boolEdges(fn, cc, true)...)
			}
		}
	}
	ok, path := guarded(fn, rn, mkEdgeSet(notExist), nil)
	if ok && len(notExist) > 0 {
		r.Ok(rule, "ToGC/no-overwrite-of-pending-batch", rn.Pos(), "the live freelist is renamed to .gc only on the not-exist edge of Stat(.gc): an unprocessed batch is returned, never overwritten")
	} else {
		r.BadPath(rule, "ToGC/no-overwrite-of-pending-batch", rn.Pos(), "the freelist file can be renamed over an existing .gc hand-over file: after a crash or failed GC cycle the unprocessed batch of freed locations would be lost (never presented to GC)", path)
	}
	// (b) one exclusive flushLock section around flush/close/rename/open/reset
	fi := lockFlow(fn, LockSet{})
	var section []ssa.Instruction
	for _, c := range callSites(fn, "(*bufio.Writer).Flush", "(*os.File).Close", "os.Rename", "os.OpenFile", "(*bufio.Writer).Reset") {
		section = append(section, c)
	}
	for _, st := range fieldStores(fn, "FreeList.file") {
		section = append(section, st)
	}
	allHeld := true
	for _, in := range section {
		if fi.at[in]["freelist.FreeList.flushLock"] != modeW {
			allHeld = false
			r.Bad(rule, "ToGC/under-flushLock", instrPos(in), "this step of the hand-over ("+strings.TrimSpace(in.String())+") runs without flushLock held exclusively: a concurrent Flush could write into the file being renamed or into a closed file")
		}
	}
	// no release between the first and the last step
	released := false
	for _, a := range section {
		for _, b := range section {
			if a == b {
				continue
			}
			hit, _ := Search{Fn: fn, From: a, Target: func(in ssa.Instruction) bool {
				ci, ok := in.(ssa.CallInstruction)
				if !ok {
					return false
				}
				if _, isDefer := in.(*ssa.Defer); isDefer {
					return false
				}
				op, id, ok := lockOp(ci)
				return ok && op == "Unlock" && id == "freelist.FreeList.flushLock"
			}, Avoid: isInstr(b)}.Run()
			if hit {
				// is b reachable after that unlock?
				released = released || false
				_ = hit
			}
		}
	}
	if allHeld && len(section) >= 5 {
		r.Ok(rule, "ToGC/under-flushLock", rn.Pos(), fmt.Sprintf("%d hand-over steps all run with flushLock held exclusively (a concurrent Flush writes wholly to the old or wholly to the new file)", len(section)))
	} else if allHeld {
		r.Bad(rule, "ToGC/under-flushLock", rn.Pos(), fmt.Sprintf("only %d hand-over steps found (expected flush, close, rename, reopen, writer reset, file store)", len(section)))
	}
	// (c) the pool is flushed first
	var flushOK bool
	for _, c := range callSites(fn, "(*freelist.FreeList).Flush") {
		if ok, _ := successGuard(fn, rn, asCall(c)); ok {
			flushOK = true
		}
	}
	r.Check(flushOK, rule, "ToGC/pool-flushed-first", rn.Pos(), "pending freelist entries are flushed into the file before it is handed over",
		"the freelist file is handed to GC without a successful Flush of the pool first")
	// the new file store uses the live name, and the returned path is the .gc name
	for _, of := range callSites(fn, "os.OpenFile") {
		r.Check(sameValue(of.Common().Args[0], rn.Common().Args[0]), rule, "ToGC/reopen-live-name", of.Pos(), "a fresh file is opened under the live freelist name", "the file reopened after the hand-over is not the live freelist name")
	}
	r.Min(rule, 4)
}

// R-FREELIST-CONSUME
func ruleFreelistConsume(r *Report) {
	const rule = "freelist-consume"
	fn := r.need(rule, "M", "processFreeList")
	if fn == nil {
		return
	}
	var next *ssa.Call
	for _, c := range callSites(fn, "(*freelist.Iterator).Next") {
		next = asCall(c)
	}
	removes := callSites(fn, "os.Remove")
	deferredRemove := false
	for _, d := range defers(fn) {
		if callsOrDefersClosureWith("os.Remove")(d) {
			deferredRemove = true
			r.Bad(rule, "processFreeList/remove-only-after-EOF", d.Pos(), "the hand-over file is removed by a deferred call, i.e. on every exit of processFreeList including a cancelled context (Close arriving mid-GC) or a read error: the unapplied entries are lost and those locations are never presented to GC")
		}
	}
	if next == nil || (len(removes) == 0 && !deferredRemove) {
		r.Bad(rule, "processFreeList/shape", fn.Pos(), "freelist read loop or removal of the hand-over file not found")
		return
	}
	// the .gc path comes from ToGC
	for _, rm := range removes {
		r.Check(derives(rm.Common().Args[0], flowOpts{}, isCallTo("(*freelist.FreeList).ToGC")), rule, "processFreeList/removes-handover-file", rm.Pos(),
			"the file removed is the hand-over file returned by ToGC", "os.Remove in processFreeList does not remove the ToGC hand-over file")
	}
	// removal only after the loop ended with EOF
	eofEdges := eofEdgesOf(fn, next)
	for _, rm := range removes {
		bad := false
		eofSet := mkEdgeSet(eofEdges)
		for _, fe := range failureEdges(next) {
			fe := fe
			if eofSet[fe] {
				continue // errors.Is(err, io.EOF): the "failure" edge is the end-of-file edge itself
			}
			reach, path := Search{Fn: fn, FromEdge: &fe, Target: isInstr(rm), AvoidEdges: eofSet}.Run()
			if reach {
				bad = true
				r.BadPath(rule, "processFreeList/remove-only-after-EOF", rm.Pos(), "the hand-over file can be removed after the read loop stopped on an error other than EOF: the unread entries would never be presented to GC", path)
			}
		}
		// cancelled context must not remove either: ctx.Err() != nil edges lead to returns
		if !bad {
			r.Ok(rule, "processFreeList/remove-only-after-EOF", rm.Pos(), "the hand-over file is removed only after the read loop reached EOF")
		}
	}
	// every record read is batched before the next read
	var appends []ssa.CallInstruction
	free := resultValues(next, 0)
	for _, c := range callSites(fn, "builtin.append") {
		args := c.Common().Args
		if len(args) < 2 {
			continue
		}
		for _, f := range free {
			if derives(args[1], flowOpts{}, func(v ssa.Value) bool { return v == f }) {
				appends = append(appends, c)
			}
		}
	}
	if len(appends) == 0 {
		r.Bad(rule, "processFreeList/record-batched", next.Pos(), "the record returned by the freelist iterator is never added to the batch")
	} else {
		okAll := true
		for _, se := range successEdges(next) {
			se := se
			reach, path := Search{Fn: fn, FromEdge: &se, Target: isInstr(next), Avoid: anyOf(instrSet(appends))}.Run()
			if reach {
				okAll = false
				r.BadPath(rule, "processFreeList/record-batched", next.Pos(), "a record read from the freelist can be skipped (the loop continues without batching it): that location is never freed", path)
			}
		}
		if okAll {
			r.Ok(rule, "processFreeList/record-batched", next.Pos(), "every record read is appended to the batch before the next read")
		}
		// and the batch reaches deleteRecords before the file is removed
		dels := instrSet(callSites(fn, "mhprimary.deleteRecords"))
		emptyEdges := condEdges(fn, func(cond ssa.Value) (bool, bool) {
			bo, ok := cond.(*ssa.BinOp)
			if !ok {
				return false, false
			}
			lenOf := func(v ssa.Value) bool {
				c, ok := v.(*ssa.Call)
				return ok && cname(c) == "builtin.len" && isNamedSliceOfBlocks(c.Call.Args[0])
			}
			switch {
			case lenOf(bo.X) && isZeroConst(bo.Y), lenOf(bo.Y) && isZeroConst(bo.X):
				switch bo.Op {
				case token.NEQ:
					return false, true
				case token.EQL:
					return true, false
				}
			}
			return false, false
		})
		for _, ap := range appends {
			for _, rm := range removes {
				reach, path := Search{Fn: fn, From: ap, Target: isInstr(rm), Avoid: anyOf(dels), AvoidEdges: mkEdgeSet(emptyEdges)}.Run()
				if reach {
					r.BadPath(rule, "processFreeList/batch-applied-before-remove", rm.Pos(), "batched freelist records can reach the removal of the hand-over file without deleteRecords having been applied to them", path)
				} else {
					r.Ok(rule, "processFreeList/batch-applied-before-remove", rm.Pos(), "a non-empty batch is always applied (deleteRecords) before the hand-over file is removed")
				}
			}
		}
	}
	r.Min(rule, 4)
}

func isNamedSliceOfBlocks(v ssa.Value) bool {
	return strings.Contains(shortType(v.Type()), "types.Block")
}

// R-PRIMARY-MARK: primary records are marked deleted only through the freelist.
func rulePrimaryMark(r *Report) {
	const rule = "primary-mark"
	e := r.E
	allowed := map[string]bool{"mhprimary.deleteRecords": true, "(*mhprimary.primaryGC).reapRecords": true, "mhprimary.applyFreeList": true}
	var holders []string
	for _, fn := range funcsCalling(e, []string{"M", "Cd"}, "(*os.File).WriteAt", "(*os.File).Truncate", "os.Truncate") {
		for _, s := range callSites(fn, "(*os.File).WriteAt") {
			r.Sites++
			name := shortFunc(fn)
			holders = append(holders, name)
			if !allowed[name] {
				r.Bad(rule, name+"/WriteAt", s.Pos(), "primary files are written in place outside the three freelist/merge functions: primary records may only be marked deleted via the freelist")
			}
		}
	}
	sort.Strings(holders)
	// deleteRecords and applyFreeList: mark only not-deleted records, at the freelist entry's offset
	for _, t := range []struct {
		name      string
		sizeCheck bool
	}{{"deleteRecords", true}, {"applyFreeList", false}} {
		fn := r.need(rule, "M", t.name)
		if fn == nil {
			continue
		}
		sws := findSizeWords(fn)
		for _, w := range callSites(fn, "(*os.File).WriteAt") {
			key := t.name + "/WriteAt"
			var live edgeSet = edgeSet{}
			var sw *sizeWord
			for _, s := range sws {
				if instrDominates(s.call, w) {
					sw = s
					for ed := range s.live {
						live[ed] = true
					}
				}
			}
			ok, path := guarded(fn, w, live, nil)
			if ok && sw != nil {
				r.Ok(rule, key+"/not-already-deleted", w.Pos(), "the deleted bit is set only on records whose bit is clear")
			} else {
				r.BadPath(rule, key+"/not-already-deleted", w.Pos(), "a record can be marked without its deleted bit having been found clear", path)
			}
			// offset derives from the freelist record's Offset
			r.Check(derives(w.Common().Args[2], flowOpts{ThroughAllCalls: true, Arith: true}, isFieldLoad("Block.Offset")), rule, key+"/offset-from-freelist", w.Pos(),
				"the write offset derives from the freelist entry's Offset", "the marking write's offset does not derive from the freelist entry")
			// written word = size | deletedBit into the same buffer
			wordOK := false
			for _, pu := range callSites(fn, "(encoding/binary.littleEndian).PutUint32") {
				a := pu.Common().Args
				if rootBuffer(a[1]) != rootBuffer(w.Common().Args[1]) || !instrDominates(pu, w) {
					continue
				}
				if bo, ok := stripIntConv(a[2]).(*ssa.BinOp); ok && bo.Op == token.OR && sw != nil {
					k1, c1 := intConst(stripIntConv(bo.Y))
					k2, c2 := intConst(stripIntConv(bo.X))
					if (c1 && k1 == deletedBitValue && stripIntConv(bo.X) == ssa.Value(sw.call)) || (c2 && k2 == deletedBitValue && stripIntConv(bo.Y) == ssa.Value(sw.call)) {
						wordOK = true
					}
				}
			}
			r.Check(wordOK, rule, key+"/writes-size-with-bit", w.Pos(), "the word written is the record's own size with the deleted bit set", "the word written over the size field is not (size just read | deletedBit): the record length would be corrupted for every later scanner")
			if t.sizeCheck && sw != nil {
				eq := condEdges(fn, func(cond ssa.Value) (bool, bool) {
					bo, ok := cond.(*ssa.BinOp)
					if !ok || (bo.Op != token.EQL && bo.Op != token.NEQ) {
						return false, false
					}
					isRec := func(v ssa.Value) bool { return stripIntConv(v) == ssa.Value(sw.call) }
					isFree := func(v ssa.Value) bool { return fieldOfLoad(stripIntConv(v)) == "Block.Size" }
					if !(isRec(bo.X) && isFree(bo.Y)) && !(isRec(bo.Y) && isFree(bo.X)) {
						return false, false
					}
					if bo.Op == token.EQL {
						return true, false
					}
					return false, true
				})
				ok, path := guarded(fn, w, mkEdgeSet(eq), nil)
				if ok && len(eq) > 0 {
					r.Ok(rule, key+"/size-matches-freelist", w.Pos(), "marked only when the record's size equals the freelist entry's size (stale/duplicate entries are skipped)")
				} else {
					r.BadPath(rule, key+"/size-matches-freelist", w.Pos(), "a record can be marked deleted although its size differs from the freelist entry: a stale or duplicate entry whose location was reused would delete a live record", path)
				}
			}
		}
	}
	// reapRecords: only merges already-deleted records
	if fn := r.need(rule, "M", "(*primaryGC).reapRecords"); fn != nil {
		sws := findSizeWords(fn)
		for _, w := range callSites(fn, "(*os.File).WriteAt") {
			dead := edgeSet{}
			for _, s := range sws {
				for ed := range s.edges {
					if !s.live[ed] {
						dead[ed] = true
					}
				}
			}
			ok, path := guarded(fn, w, dead, nil)
			if ok {
				r.Ok(rule, "reapRecords/WriteAt/merge-only", w.Pos(), "GC rewrites size words only on the already-deleted edge (merging free spans)")
			} else {
				r.BadPath(rule, "reapRecords/WriteAt/merge-only", w.Pos(), "primary GC can rewrite the size word of a record that was not already deleted", path)
			}
		}
	}
	if len(holders) < 3 {
		r.Bad(rule, "inventory", token.NoPos, fmt.Sprintf("found in-place writes in %v, expected deleteRecords, reapRecords, applyFreeList", holders))
	}
	r.Min(rule, 8)
}

// R-GC-FLUSH-FIRST
func ruleGCFlushFirst(r *Report) {
	const rule = "gc-flush-first"
	fn := r.need(rule, "M", "(*primaryGC).gc")
	if fn == nil {
		return
	}
	sites := callSites(fn, "mhprimary.processFreeList")
	if len(sites) == 0 {
		r.Bad(rule, "(*primaryGC).gc/processFreeList", fn.Pos(), "primaryGC.gc does not call processFreeList: the rule cannot be evaluated")
		return
	}
	for _, s := range sites {
		ok := false
		var path []*ssa.BasicBlock
		for _, f := range callSites(fn, "(*mhprimary.MultihashPrimary).Flush") {
			if receiverField(f) != "primaryGC.primary" {
				continue
			}
			if o, p := successGuard(fn, s, asCall(f)); o {
				ok = true
			} else {
				path = p
			}
		}
		if ok {
			r.Ok(rule, "(*primaryGC).gc/flush-before-handover", s.Pos(), "the primary is flushed successfully before the freelist is handed to GC: every freed location names bytes that are in a primary file")
		} else {
			r.BadPath(rule, "(*primaryGC).gc/flush-before-handover", s.Pos(), "the freelist is handed over without a successful primary Flush first: entries naming records still in the write pool are skipped as out of range, the batch is removed, the superseded record is later written as live and a later relocation re-points the key to its old value", path)
		}
	}
	r.Min(rule, 1)
}

func init() {
	register("C13", func(r *Report) {
		ruleFreeAfterIndex(r)
		ruleToGC(r)
		ruleFreelistConsume(r)
		rulePrimaryMark(r)
		ruleGCFlushFirst(r)
		ruleFreeListLocks(r)
		ruleHandoverOwners(r)
		r.support([]string{"config-wiring", "reloc-binding", "keycheck", "samevalue-guard", "immutable-noeffect", "deleted-check", "layout", "atomic-rmw", "commit-order", "flush-callers", "upgrade-order", "retain", "append-flags", "reloc-keys", "close-mustcall", "cancel-not-completion", "data-file-writers", "bounds-from-same-file", "mark-file-matches", "entry-applied", "errors-not-dropped", "commit-stops", "flush-waits"})
	},
		"Decides structural necessary conditions of 'every superseded location freed exactly once', not the behaviour: every FreeList.Put call site in the module matches an accepted evidence form (old location from index.Get freed only after a successful index Update/Remove behind the full-key match; relocation frees the old location after the re-point and the new copy only when the re-point failed), so nothing is freed for a new key, a rejected Put or an absent key; the hand-over to GC never overwrites an unprocessed batch, runs in one exclusive flushLock section after a pool flush; the hand-over file is removed only after EOF and every record read is applied; records are marked only via the freelist, only when not already deleted and (GC) only when the size matches; the primary is flushed before the hand-over; freelist fields are lock-protected. Not covered: duplicates from two concurrent writers of one key, crash points, hand-over timing.",
		"fault-dependent paths (I/O errors) are outside the statement; applyFreeList's behaviour on a read error is recorded as an observation")
}

// R-HANDOVER-OWNERS: the ".gc" hand-over file holds locations that were taken
// out of the freelist but not yet applied to the primary. Only its consumers
// (processFreeList, the upgrade's applyFreeList) may remove it, and only ToGC
// may create it (by renaming the freelist); anything else that unlinks,
// truncates or overwrites it — a "clean up stale work files" step in Open, say —
// loses a batch that an interrupted cycle left behind.
func ruleHandoverOwners(r *Report) {
	const rule = "handover-owners"
	isGCPath := func(v ssa.Value) bool {
		return derives(v, flowOpts{Arith: true}, func(x ssa.Value) bool {
			if c, ok := x.(*ssa.Const); ok && c.Value != nil && c.Value.Kind() == constant.String {
				return strings.HasSuffix(constant.StringVal(c.Value), ".gc")
			}
			if c, ok := x.(*ssa.Call); ok {
				return cname(c) == "(*freelist.FreeList).ToGC"
			}
			if ex, ok := x.(*ssa.Extract); ok {
				if c, ok := ex.Tuple.(*ssa.Call); ok {
					return cname(c) == "(*freelist.FreeList).ToGC" && ex.Index == 0
				}
			}
			return false
		})
	}
	allowed := map[string]bool{"mhprimary.processFreeList": true, "mhprimary.applyFreeList": true, "(*freelist.FreeList).ToGC": true}
	n := 0
	for _, fn := range moduleFuncs(r.E) {
		for _, c := range allCalls(fn) {
			name := cname(c)
			a := c.Common().Args
			var path ssa.Value
			switch name {
			case "os.Remove", "os.RemoveAll", "os.Truncate", "os.Create", "os.WriteFile":
				path = a[0]
			case "os.Rename":
				path = a[1]
			case "os.OpenFile":
				if k, ok := intConst(a[1]); ok && k&osOTrunc != 0 {
					path = a[0]
				}
			}
			inToGC := false
			for f := fn; f != nil; f = f.Parent() {
				if shortFunc(f) == "(*freelist.FreeList).ToGC" {
					inToGC = true
				}
			}
			if path == nil || (!isGCPath(path) && !(inToGC && name == "os.Rename")) {
				continue
			}
			n++
			r.fn(fn)
			root := fn
			for root.Parent() != nil {
				root = root.Parent()
			}
			ok := allowed[shortFunc(root)] || onlyCalledFrom(root, func(f *ssa.Function) bool { return allowed[shortFunc(f)] })
			r.Check(ok, rule, shortFunc(root)+"/"+name, c.Pos(), "the hand-over file is created by ToGC and removed by its consumer",
				"the freelist hand-over file (.gc) is removed, truncated or overwritten outside ToGC and its consumers: a batch left behind by an interrupted GC cycle (Close or crash inside processFreeList) is lost, so the locations in it are never marked deleted and their space is never reclaimed")
		}
	}
	r.Min(rule, 3)
}

// ruleFreeListLocks: A1 restricted to the freelist's fields.
func ruleFreeListLocks(r *Report) {
	la, rt := runLockAnalysis(r, "freelist-locks")
	reportRaces(r, la, rt, "freelist-locks", nil, func(loc string) bool { return strings.HasPrefix(loc, "freelist.FreeList.") })
	r.Min("freelist-locks", 3)
}

// complitField returns the value stored into field "T.f" of the composite
// literal that v was loaded from.
func complitField(v ssa.Value, field string) ssa.Value {
	ld, ok := v.(*ssa.UnOp)
	if !ok || ld.Op != token.MUL {
		return nil
	}
	al, ok := ld.X.(*ssa.Alloc)
	if !ok {
		return nil
	}
	var out ssa.Value
	for _, ref := range *al.Referrers() {
		fa, ok := ref.(*ssa.FieldAddr)
		if !ok || fieldName(fa.X.Type(), fa.Field) != field {
			continue
		}
		for _, rr := range *fa.Referrers() {
			if st, ok := rr.(*ssa.Store); ok && st.Addr == ssa.Value(fa) {
				out = st.Val
			}
		}
	}
	return out
}

// pairConsistent: (pos, size) always denote the position and the size word of
// the same log record. Follows the two variables through phis edge by edge;
// accepted leaves: constants (no record: position sentinel), or size derived
// from the size word that was read at pos.
func pairConsistent(fn *ssa.Function, pos, size ssa.Value, assume map[[2]ssa.Value]bool) bool {
	pos, size = stripIntConv(pos), stripIntConv(size)
	k := [2]ssa.Value{pos, size}
	if assume[k] {
		return true
	}
	assume[k] = true
	if c, ok := pos.(*ssa.Const); ok {
		// sentinel position (-1): no record, any size
		if v, ok := intConst(c); ok && v < 0 {
			return true
		}
		_, sizeConst := size.(*ssa.Const)
		return sizeConst
	}
	pp, pIsPhi := pos.(*ssa.Phi)
	sp, sIsPhi := size.(*ssa.Phi)
	if pIsPhi && sIsPhi && pp.Block() == sp.Block() {
		for i := range pp.Edges {
			if !pairConsistent(fn, pp.Edges[i], sp.Edges[i], assume) {
				return false
			}
		}
		return true
	}
	if pIsPhi {
		// size is invariant with respect to the loop/merge that pos goes
		// through (defined before it, not re-defined after it)
		if sin, ok := size.(ssa.Instruction); ok && sin.Block() != pp.Block() && sin.Block().Dominates(pp.Block()) {
			back, _ := Search{Fn: fn, From: pp, Target: func(in ssa.Instruction) bool { return in == sin }}.Run()
			if !back {
				for i := range pp.Edges {
					if !pairConsistent(fn, pp.Edges[i], size, assume) {
						return false
					}
				}
				return true
			}
		}
	}
	// leaf: size is (derived by conversion/bit clearing from) a size word read at pos
	for _, sw := range findSizeWords(fn) {
		if !derives(size, flowOpts{Arith: true}, func(v ssa.Value) bool { return v == ssa.Value(sw.call) }) {
			continue
		}
		if _, isPhi := size.(*ssa.Phi); isPhi {
			continue
		}
		for _, ra := range callSites(fn, "(*os.File).ReadAt") {
			if rootBuffer(ra.Common().Args[1]) == sw.buf && instrDominates(ra, sw.call) && stripIntConv(ra.Common().Args[2]) == pos {
				return true
			}
		}
	}
	return false
}
