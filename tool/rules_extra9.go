package main

import (
	"go/token"
	"strings"

	"golang.org/x/tools/go/ssa"
)

// Rules prompted by round 8 ("changes that look like improvements").

// R-DISK-READ-FRESH: what readDiskBucket hands back is the record list it read
// in this very call (a buffer filled by ReadAt in this function), never one
// remembered from an earlier call: the position alone does not identify a
// record list once the index has more than one file, and a remembered list
// goes stale when the bucket is rewritten.
func ruleDiskReadFresh(r *Report) {
	const rule = "disk-read-fresh"
	fn := r.need(rule, "I", "(*Index).readDiskBucket")
	if fn == nil {
		return
	}
	key := "readDiskBucket/returns-what-it-read"
	bufs := map[ssa.Value]bool{}
	for _, c := range callSites(fn, "(*os.File).ReadAt", "io.ReadFull") {
		a := c.Common().Args
		bufs[rootBuffer(a[1])] = true
	}
	n := 0
	for _, ret := range returnsOf(fn) {
		v := retVal(ret, 0)
		if isNilConst(v) {
			continue
		}
		n++
		// every leaf of the returned value is a buffer read in this call
		okAll := true
		var walk func(x ssa.Value, seen map[ssa.Value]bool)
		walk = func(x ssa.Value, seen map[ssa.Value]bool) {
			x = stripConv(x)
			if seen[x] {
				return
			}
			seen[x] = true
			switch t := x.(type) {
			case *ssa.Phi:
				for _, e := range t.Edges {
					walk(e, seen)
				}
			case *ssa.Slice:
				walk(t.X, seen)
			case *ssa.Convert:
				walk(t.X, seen)
			case *ssa.Call:
				if f := t.Call.StaticCallee(); f != nil && strings.HasPrefix(shortFunc(f), "index.NewRecordList") && len(t.Call.Args) == 1 {
					walk(t.Call.Args[0], seen)
					return
				}
				okAll = false
			case *ssa.Const:
				if !t.IsNil() {
					okAll = false
				}
			default:
				if !bufs[rootBuffer(x)] {
					okAll = false
				}
			}
		}
		walk(v, map[ssa.Value]bool{})
		r.Check(okAll, rule, key, ret.Pos(), "the record list returned was read from the file in this call",
			"readDiskBucket can return a record list that was not read from the index file in this call (remembered from an earlier read, or taken from a field): a list cached by position alone is another bucket's list once the index has several files, and goes stale when the bucket is rewritten — stored keys read as absent, Remove reports false")
	}
	if n == 0 {
		r.Bad(rule, key, fn.Pos(), "no non-nil result")
	}
	r.Min(rule, 1)
}

// R-OOB-BY-OFFSET: a location is out of bounds iff its OFFSET is at or beyond
// the position the next record will get. The test must not involve the
// record's size: with small file-size limits the last record of a file
// overhangs the limit into the next file's address range, so offset+size can
// lie beyond the next write position for a perfectly valid record (which the
// store would then drop from the index).
func ruleOOBByOffset(r *Report) {
	const rule = "oob-by-offset"
	for _, t := range [][2]string{{"M", "(*MultihashPrimary).getCached"}, {"Cd", "(*CIDPrimary).getCached"}} {
		fn := r.need(rule, t[0], t[1])
		if fn == nil {
			continue
		}
		key := shortFunc(fn) + "/bounds-test-on-offset-only"
		n := 0
		for _, b := range fn.Blocks {
			ifi, ok := lastInstr(b).(*ssa.If)
			if !ok {
				continue
			}
			cond, _ := stripNot(ifi.Cond)
			bo, ok := cond.(*ssa.BinOp)
			if !ok {
				continue
			}
			switch bo.Op {
			case token.GEQ, token.GTR, token.LSS, token.LEQ:
			default:
				continue
			}
			usesOff := derives(bo.X, flowOpts{Arith: true}, isFieldLoad("Block.Offset")) || derives(bo.Y, flowOpts{Arith: true}, isFieldLoad("Block.Offset"))
			if !usesOff {
				continue
			}
			n++
			usesSize := derives(bo.X, flowOpts{Arith: true}, isFieldLoad("Block.Size")) || derives(bo.Y, flowOpts{Arith: true}, isFieldLoad("Block.Size"))
			pure := fieldOfLoad(stripIntConv(bo.X)) == "Block.Offset" || fieldOfLoad(stripIntConv(bo.Y)) == "Block.Offset"
			r.Check(!usesSize && pure, rule, key, instrPos(ifi), "the bounds test compares the location's offset with the next write position",
				"the out-of-bounds test involves more than the location's offset (e.g. offset+size): the last record of a primary file may overhang the file-size limit into the next file's address range, so a valid record whose end lies beyond the next write position is refused with ErrOutOfBounds — and the store then removes its index entry")
		}
		if n == 0 {
			r.Bad(rule, key, fn.Pos(), "no bounds test on Block.Offset found")
		}
	}
	r.Min(rule, 2)
}

// R-FLUSH-WAITS: a component Flush returns — also on its "nothing to do" exit —
// only after it has held flushLock, i.e. after a flush that was already
// running has finished. Store.Close, the collectors' pre-flush and Store.Flush
// rely on "Flush returned ⇒ what was handed to an earlier flush is written".
func ruleFlushWaits(r *Report) {
	const rule = "flush-waits"
	for _, c := range []struct{ alias, typ, lock string }{
		{"I", "Index", "index.Index.flushLock"}, {"M", "MultihashPrimary", "mhprimary.MultihashPrimary.flushLock"},
		{"Cd", "CIDPrimary", "cidprimary.CIDPrimary.flushLock"}, {"F", "FreeList", "freelist.FreeList.flushLock"}} {
		fn := r.need(rule, c.alias, "(*"+c.typ+").Flush")
		if fn == nil {
			continue
		}
		key := c.typ + ".Flush/returns-only-after-flushLock"
		locks := map[ssa.Instruction]bool{}
		deepEach(fn, func(f *ssa.Function, in ssa.Instruction) {
			if ci, ok := in.(ssa.CallInstruction); ok {
				if _, isDefer := in.(*ssa.Defer); isDefer {
					return
				}
				if op, id, ok := lockOp(ci); ok && op == "Lock" && id == c.lock {
					locks[in] = true
				}
			}
		})
		if len(locks) == 0 {
			r.Bad(rule, key, fn.Pos(), "Flush never takes "+c.lock)
			continue
		}
		bad := false
		for _, ret := range returnsOf(fn) {
			if fn.Recover != nil && ret.Block() == fn.Recover {
				continue
			}
			if ok, path := precededBy(fn, ret, locks, nil); !ok {
				bad = true
				r.BadPath(rule, key, ret.Pos(), "Flush can return without having taken flushLock (a fast path in front of the lock): it no longer waits for a flush that is already running, so 'Flush returned' does not mean the data handed to that flush is written — Close then closes the file under the running flush, the collector applies freelist entries for records that are not on disk yet", path)
			}
		}
		if !bad {
			r.Ok(rule, key, fn.Pos(), "every return of Flush is behind flushLock")
		}
	}
	r.Min(rule, 4)
}

// R-FLUSH-WRITES: the per-entry writer of a flush (flushBucket / flushBlock)
// reports success only after it has written the entry, and Index.Flush
// publishes a position for every entry it wrote: an empty record list is
// information too (it is what makes a removal durable and visible).
func ruleFlushWrites(r *Report) {
	const rule = "flush-writes"
	for _, c := range [][2]string{{"I", "(*Index).flushBucket"}, {"M", "(*MultihashPrimary).flushBlock"}, {"Cd", "(*CIDPrimary).flushBlock"}, {"F", "(*FreeList).flushBlock"}} {
		fn := r.E.Func(c[0], c[1])
		if fn == nil {
			continue
		}
		r.fn(fn)
		key := shortFunc(fn) + "/success-only-after-write"
		writes := instrSet(deepCallSites(fn, "(*bufio.Writer).Write"))
		if len(writes) == 0 {
			r.Bad(rule, key, fn.Pos(), "the per-entry writer never writes")
			continue
		}
		succ, _ := classifyReturns(fn)
		bad := false
		for _, ret := range succ {
			if ok, path := precededBy(fn, ret, writes, nil); !ok {
				bad = true
				r.BadPath(rule, key, ret.Pos(), "the per-entry writer can report success without having written the entry (e.g. for an empty record list): the bucket keeps pointing at the previous list on disk, so removed keys come back once the pools are flushed out, or after a rescan", path)
			}
		}
		if !bad {
			r.Ok(rule, key, fn.Pos(), "success only after the entry was written")
		}
	}
	if fn := r.need(rule, "I", "(*Index).Flush"); fn != nil {
		key := "Index.Flush/every-written-entry-published"
		for _, fbc := range callSites(fn, "(*index.Index).flushBucket") {
			c := asCall(fbc)
			if c == nil {
				continue
			}
			appends := instrSet(callSites(fn, "builtin.append"))
			bad := false
			for _, se := range successEdges(c) {
				se := se
				if reach, path := (Search{Fn: fn, FromEdge: &se, Target: isInstr(c), Avoid: anyOf(appends)}).Run(); reach {
					bad = true
					r.BadPath(rule, key, c.Pos(), "after an entry was written successfully the loop can move on without queueing its new position for the bucket table: the bucket keeps pointing at the previous record list", path)
				}
			}
			if !bad {
				r.Ok(rule, key, c.Pos(), "every entry written is queued for the bucket table")
			}
		}
	}
	r.Min(rule, 4)
}

// R-COPY-COMPLETE: copyFile reports success only behind a successful io.Copy —
// an "already there, same size" shortcut adopts whatever an interrupted
// earlier run left at the destination (for the index remap: a copy whose
// offsets were already rewritten once).
func ruleCopyComplete(r *Report) {
	const rule = "copy-complete"
	fn := r.need(rule, "I", "copyFile")
	if fn == nil {
		return
	}
	key := "copyFile/success-only-after-copy"
	var cp *ssa.Call
	for _, c := range callSites(fn, "io.Copy", "io.CopyN", "io.CopyBuffer") {
		cp = asCall(c)
	}
	if cp == nil {
		r.Bad(rule, key, fn.Pos(), "copyFile does not copy")
		return
	}
	evs := errValues(cp)
	bad := false
	for _, ret := range returnsOf(fn) {
		if fn.Recover != nil && ret.Block() == fn.Recover {
			continue
		}
		v := retVal(ret, errResultIndex(fn))
		if evs[v] {
			continue // returns the copy's own error: success iff the copy succeeded
		}
		if !isNilConst(v) {
			continue // an error return
		}
		if ok, path := successGuard(fn, ret, cp); !ok {
			bad = true
			r.BadPath(rule, key, ret.Pos(), "copyFile can report success without a successful copy in this call (e.g. because the destination already exists with the same size): a destination left by an interrupted earlier run is adopted as it is — for the index remap a working copy whose offsets were already rewritten is rewritten a second time", path)
		}
	}
	if !bad {
		r.Ok(rule, key, fn.Pos(), "success only behind the copy")
	}
	r.Min(rule, 1)
}

// R-REMAP-POOL-FRESH: the repaired record lists that remapIndex queues for
// writing (rmPool) are freshly built by PutKeys, never a sub-slice of the
// per-file read buffer, which is reused for the next bucket.
func ruleRemapPoolFresh(r *Report) {
	const rule = "remap-pool-fresh"
	fn := r.need(rule, "I", "remapIndex")
	if fn == nil {
		return
	}
	key := "remapIndex/queued-list-is-fresh"
	n := 0
	eachInstrScope(fn, func(in ssa.Instruction) {
		mu, ok := in.(*ssa.MapUpdate)
		if !ok || !strings.HasSuffix(mu.Map.Type().String(), "index.bucketPool") {
			return
		}
		n++
		okAll := true
		var walk func(x ssa.Value, seen map[ssa.Value]bool)
		walk = func(x ssa.Value, seen map[ssa.Value]bool) {
			x = stripConv(x)
			if seen[x] {
				return
			}
			seen[x] = true
			switch t := x.(type) {
			case *ssa.Phi:
				// the variable of the repair loop: its value on entry is the list as read; the loop only
				// runs when there is something to cut (and then at least once), so only what the loop
				// body assigns counts
				isHeader := false
				for _, pr := range t.Block().Preds {
					if t.Block().Dominates(pr) {
						isHeader = true
					}
				}
				for i, e := range t.Edges {
					if isHeader && !t.Block().Dominates(t.Block().Preds[i]) {
						continue
					}
					walk(e, seen)
				}
			case *ssa.Convert:
				walk(t.X, seen)
			case *ssa.Call:
				if !strings.HasSuffix(cname(t), "RecordList).PutKeys") {
					okAll = false
				}
			case *ssa.Const:
				// nil initial value of the variable
			default:
				okAll = false
			}
		}
		walk(mu.Value, map[ssa.Value]bool{})
		r.Check(okAll, rule, key, mu.Pos(), "the queued list is the result of PutKeys",
			"a record list queued for rewriting can be a sub-slice of the read buffer instead of a list freshly built by PutKeys: the buffer is reused for the next bucket, so the queued bucket is later written with another bucket's bytes and the live keys in it are lost")
	})
	if n == 0 {
		r.Bad(rule, key, fn.Pos(), "no store into the repair pool found")
	}
	r.Min(rule, 1)
}

// R-NOTICE-OWNERS: the notification channel is only ever created where it is
// found nil (create-if-nil) and only reset to nil; installing a fresh channel
// unconditionally orphans the channel earlier waiters are blocked on.
func ruleNoticeOwners(r *Report) {
	const rule = "notice-owners"
	n := 0
	for _, fn := range moduleFuncs(r.E) {
		for _, st := range fieldStores(fn, "Store.flushNotice") {
			if st.Parent() != fn {
				continue
			}
			n++
			r.fn(fn)
			root := fn
			for root.Parent() != nil {
				root = root.Parent()
			}
			key := shortFunc(root) + "/flushNotice-store"
			if isNilConst(st.Val) {
				// reset only right after the channel was closed: clearing it without closing it orphans
				// the channel that writers are blocked on
				closes := map[ssa.Instruction]bool{}
				for _, c := range callSites(fn, "builtin.close") {
					if fieldOfLoad(c.Common().Args[0]) == "Store.flushNotice" {
						closes[c] = true
					}
				}
				if ok, path := precededBy(fn, st, closes, nil); ok && len(closes) > 0 {
					r.Ok(rule, key, st.Pos(), "reset to nil after closing it")
				} else {
					r.BadPath(rule, key, st.Pos(), "the notification channel is cleared without having been closed on this path: writers that are blocked on it are never released (every later flush finds the field nil, or closes a newer channel)", path)
				}
				continue
			}
			ev := condEdges(fn, func(cond ssa.Value) (bool, bool) {
				bo, ok := cond.(*ssa.BinOp)
				if !ok || (bo.Op != token.EQL && bo.Op != token.NEQ) {
					return false, false
				}
				if !(fieldOfLoad(bo.X) == "Store.flushNotice" && isNilConst(bo.Y)) && !(fieldOfLoad(bo.Y) == "Store.flushNotice" && isNilConst(bo.X)) {
					return false, false
				}
				return bo.Op == token.EQL, bo.Op == token.NEQ
			})
			ok, path := guarded(fn, st, mkEdgeSet(ev), nil)
			held := deepLockAt(fn, st)[rateLk] == modeW
			if ok && len(ev) > 0 && held {
				r.Ok(rule, key, st.Pos(), "created only where it was found nil, under rateLk")
			} else {
				r.BadPath(rule, key, st.Pos(), "a notification channel is installed without having found the field nil under rateLk: the channel that writers are already waiting on is replaced and never closed — they wait forever", path)
			}
		}
	}
	if n == 0 {
		r.Bad(rule, "inventory", token.NoPos, "no store to Store.flushNotice found")
	}
	r.Min(rule, 2)
}

// R-DECODER-TOTAL: readNode splits a record into key and value; it fails only
// when the key decoder fails. It must not judge the value (an empty value is a
// value): every error return is behind the failure edge of a call.
func ruleDecoderTotal(r *Report) {
	const rule = "decoder-total"
	for _, t := range [][2]string{{"M", "readNode"}, {"Cd", "readNode"}} {
		fn := r.need(rule, t[0], t[1])
		if fn == nil {
			continue
		}
		key := shortFunc(fn) + "/fails-only-with-the-key-decoder"
		var fe []Edge
		for _, c := range allCalls(fn) {
			if cc := asCall(c); cc != nil {
				fe = append(fe, failureEdges(cc)...)
			}
		}
		_, failure := classifyReturns(fn)
		bad := false
		for _, ret := range failure {
			if ok, path := guarded(fn, ret, mkEdgeSet(fe), nil); !ok || len(fe) == 0 {
				bad = true
				r.BadPath(rule, key, ret.Pos(), "the record decoder can fail for a reason other than the key decoder failing (e.g. 'nothing after the key'): a record with an empty value is a valid record; refusing it makes the store drop the index entry of a stored empty block", path)
			}
		}
		if !bad {
			r.Ok(rule, key, fn.Pos(), "the decoder fails only when the key decoder fails")
		}
	}
	r.Min(rule, 2)
}

// R-COMMIT-STOPS: Store.commit flushes the freelist only after the index flush
// SUCCEEDED (not merely after it ran): freed locations must not reach the
// freelist file while the index on disk still names them.
func ruleCommitStops(r *Report) {
	const rule = "commit-stops"
	fn := r.need(rule, "S", "(*Store).commit")
	if fn == nil {
		return
	}
	var idx *ssa.Call
	for _, c := range callSites(fn, "(*index.Index).Flush") {
		idx = asCall(c)
	}
	fls := callSites(fn, "(*freelist.FreeList).Flush")
	if idx == nil || len(fls) == 0 {
		r.Bad(rule, "commit/freelist-after-index-success", fn.Pos(), "index or freelist flush not found in commit")
		return
	}
	for _, f := range fls {
		if ok, path := successGuard(fn, f, idx); ok {
			r.Ok(rule, "commit/freelist-after-index-success", f.Pos(), "the freelist is flushed only behind the success edge of the index flush")
		} else {
			r.BadPath(rule, "commit/freelist-after-index-success", f.Pos(), "the freelist can be flushed although the index flush failed: the freelist file then names locations the index on disk still refers to; after a restart the collector deletes records that are still live", path)
		}
	}
	r.Min(rule, 1)
}

// R-GC-SINGLE-HANDOVER: a primary GC cycle takes the freelist over exactly
// once, before it looks at any file. Records relocated during the cycle are
// freed through the freelist and must stay readable until the NEXT cycle: a
// caller that obtained the old location from the index just before the
// relocation still reads it. A second hand-over at the end of the same cycle
// deletes them at once.
func ruleGCSingleHandover(r *Report) {
	const rule = "gc-single-handover"
	fn := r.need(rule, "M", "(*primaryGC).gc")
	if fn == nil {
		return
	}
	pfl := deepCallSites(fn, "mhprimary.processFreeList")
	reaps := deepCallSites(fn, "(*mhprimary.primaryGC).reapRecords")
	key := "(*primaryGC).gc/one-handover-before-the-file-loop"
	if len(pfl) == 0 || len(reaps) == 0 {
		r.Bad(rule, key, fn.Pos(), "hand-over or reap call not found")
		return
	}
	bad := false
	for _, rp := range reaps {
		for _, p := range pfl {
			if rp.Parent() != fn || p.Parent() != fn {
				continue
			}
			if reach, path := (Search{Fn: fn, From: rp, Target: isInstr(p)}).Run(); reach {
				bad = true
				r.BadPath(rule, key, p.Pos(), "the freelist is handed over and applied again after files were reaped in the same cycle: records relocated in this cycle are deleted at once, while a caller that read their old location from the index a moment earlier is still about to read them — it finds a deleted record, and the store then drops the index entry that points at the relocated copy", path)
			}
		}
	}
	if !bad {
		r.Ok(rule, key, pfl[0].Pos(), "one hand-over per cycle, before the file loop")
	}
	r.Min(rule, 1)
}

// R-SCAN-ENDS-AT-EOF: the recovery scan of an index file ends successfully only
// behind a failed read (end of file, or a torn tail that is cut off). Leaving
// the loop for any other reason — a "defensive" bound on the position, say —
// silently skips the record lists behind that point; their buckets keep an
// older position (or none) and the keys in them are absent after the reopen.
func ruleScanEndsAtEOF(r *Report) {
	const rule = "scan-ends-at-eof"
	fn := r.need(rule, "I", "scanIndexFile")
	if fn == nil {
		return
	}
	key := "scanIndexFile/success-only-behind-a-failed-read"
	var reads []*ssa.Call
	var avoid []Edge
	for _, c := range callSites(fn, "(*os.File).ReadAt", "io.ReadFull") {
		if cc := asCall(c); cc != nil {
			reads = append(reads, cc)
			avoid = append(avoid, failureEdges(cc)...)
		}
	}
	if len(reads) == 0 {
		r.Bad(rule, key, fn.Pos(), "no read in the scan")
		return
	}
	succ, _ := classifyReturns(fn)
	bad := false
	for _, rd := range reads {
		for _, se := range successEdges(rd) {
			se := se
			if reach, path := (Search{Fn: fn, FromEdge: &se, Target: anyOf(instrSet(succ)), AvoidEdges: mkEdgeSet(avoid)}).Run(); reach {
				bad = true
				r.BadPath(rule, key, rd.Pos(), "after a successful read the scan can end successfully without a later read having failed (end of file): the record lists behind that point are not applied to the bucket table — keys in them are absent after a reopen that rescans", path)
			}
		}
	}
	if !bad {
		r.Ok(rule, key, fn.Pos(), "the scan ends successfully only at the end of the file")
	}
	r.Min(rule, 1)
}

// R-OPEN-DEFAULTS: index.Open replaces a requested bit size / file size by the
// header's value only when THAT parameter is 0 ("use what is there"). A merged
// test (`bits == 0 || size == 0` ⇒ take both from the header) lets a caller
// that passes 0 for one of them — translateIndex opens the old index with bits
// 0 and the configured file size — have the other overridden as well, so the
// file-size mismatch check compares the header with itself and a changed
// IndexFileSize is accepted instead of refused.
func ruleOpenDefaults(r *Report) {
	const rule = "open-defaults"
	fn := r.need(rule, "I", "Open")
	if fn == nil {
		return
	}
	n := 0
	for _, hf := range []string{"Header.BucketsBits", "Header.MaxFileSize"} {
		eachInstr(fn, func(in ssa.Instruction) {
			phi, ok := in.(*ssa.Phi)
			if !ok {
				return
			}
			var par *ssa.Parameter
			hdrIdx := -1
			for i, e := range phi.Edges {
				x := stripIntConv(e)
				if p, isP := x.(*ssa.Parameter); isP && p.Parent() == fn {
					par = p
				}
				if fieldOfLoad(x) == hf {
					hdrIdx = i
				}
			}
			if par == nil || hdrIdx < 0 {
				return
			}
			n++
			key := "Open/" + hf + "-default-only-when-" + par.Name() + "-is-zero"
			ev := condEdges(fn, func(cond ssa.Value) (bool, bool) {
				bo, ok := cond.(*ssa.BinOp)
				if !ok || (bo.Op != token.EQL && bo.Op != token.NEQ) {
					return false, false
				}
				if !(stripIntConv(bo.X) == ssa.Value(par) && isZeroConst(bo.Y)) && !(stripIntConv(bo.Y) == ssa.Value(par) && isZeroConst(bo.X)) {
					return false, false
				}
				return bo.Op == token.EQL, bo.Op == token.NEQ
			})
			pred := phi.Block().Preds[hdrIdx]
			site := lastInstr(pred)
			ok2, path := guarded(fn, site, mkEdgeSet(ev), nil)
			if ok2 && len(ev) > 0 {
				r.Ok(rule, key, phi.Pos(), "the header's value replaces the requested one only when the request was 0")
			} else {
				r.BadPath(rule, key, phi.Pos(), "the header's "+hf+" can replace the requested value although the request was not 0 (the default is taken on a test of another parameter): the mismatch check then compares the header with itself, and a reopen that changes this setting is accepted instead of refused", path)
			}
		})
	}
	if n == 0 {
		r.Bad(rule, "Open/defaults", fn.Pos(), "no 'use the header's value' default found in index.Open")
	}
	r.Min(rule, 1)
}
