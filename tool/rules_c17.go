package main

import (
	"fmt"
	"go/token"
	"strings"

	"golang.org/x/tools/go/ssa"
)

// C17: goroutine hand-shakes and release of resources on failed opens.

type goSite struct {
	spawner *ssa.Function
	stmt    *ssa.Go
	target  *ssa.Function
}

func goSites(e *Engine) []goSite {
	var out []goSite
	for _, fn := range moduleFuncs(e) {
		eachInstr(fn, func(in ssa.Instruction) {
			g, ok := in.(*ssa.Go)
			if !ok {
				return
			}
			var t *ssa.Function
			if mc, ok := g.Call.Value.(*ssa.MakeClosure); ok {
				t, _ = mc.Fn.(*ssa.Function)
			} else {
				t = g.Call.StaticCallee()
			}
			out = append(out, goSite{fn, g, t})
		})
	}
	return out
}

// doneChannel: the channel closed by a defer at the very start of t
// ("field:T.f" or "var:name").
func doneChannel(t *ssa.Function) (string, *ssa.Defer) {
	if t == nil || len(t.Blocks) == 0 {
		return "", nil
	}
	for _, in := range t.Blocks[0].Instrs {
		switch x := in.(type) {
		case *ssa.Defer:
			if cname(x) == "builtin.close" {
				if p, isParam := x.Call.Args[0].(*ssa.Parameter); isParam {
					// the goroutine is a function/method that is handed its completion channel
					return "param:" + p.Name(), x
				}
				return chanName(x.Call.Args[0]), x
			}
			return "", nil
		case *ssa.Call, *ssa.Go:
			return "", nil // something fallible/blocking happens before the defer
		}
	}
	return "", nil
}

func chanName(v ssa.Value) string {
	if f := fieldOfLoad(v); f != "" {
		return "field:" + f
	}
	if u, ok := v.(*ssa.UnOp); ok && u.Op == token.MUL {
		switch c := u.X.(type) {
		case *ssa.FreeVar:
			return "var:" + c.Name()
		case *ssa.Alloc:
			return "var:" + c.Comment
		}
	}
	return ""
}

func recvsOn(fn *ssa.Function, name string) []ssa.Instruction {
	var out []ssa.Instruction
	eachInstr(fn, func(in ssa.Instruction) {
		if u, ok := in.(*ssa.UnOp); ok && u.Op == token.ARROW && chanName(u.X) == name {
			out = append(out, u)
		}
	})
	return out
}

func ruleGoHandshake(r *Report) {
	const rule = "go-handshake"
	e := r.E
	sites := goSites(e)
	if len(sites) < 5 {
		r.Bad(rule, "inventory", token.NoPos, fmt.Sprintf("found %d go statements, expected the 5 confirmed by reading (flusher, two GC supervisors, two GC cycles)", len(sites)))
	}
	for _, gs := range sites {
		r.fn(gs.spawner)
		r.Sites++
		if gs.target == nil || gs.target.Blocks == nil {
			r.Bad(rule, shortFunc(gs.spawner)+"/go-target", gs.stmt.Pos(), "cannot resolve the function started by this go statement")
			continue
		}
		t := gs.target
		r.fn(t)
		key := shortFunc(gs.spawner) + "/go:" + strings.TrimPrefix(shortFunc(t), shortFunc(gs.spawner))
		// (a) done channel closed by a leading defer
		done, _ := doneChannel(t)
		if done == "" {
			r.Bad(rule, key+"/a-done-closed-by-leading-defer", gs.stmt.Pos(), "the goroutine does not begin with `defer close(done)`: whoever stops it cannot wait for it to finish (or waits forever if it returns early/panics before signalling)")
			continue
		}
		r.Ok(rule, key+"/a-done-closed-by-leading-defer", gs.stmt.Pos(), "goroutine starts with defer close("+done+")")
		// (e) the go statement is the last fallible step of its spawner
		_, failure := classifyReturns(gs.spawner)
		fset := map[ssa.Instruction]bool{}
		for _, f := range failure {
			fset[f] = true
		}
		reach, path := Search{Fn: gs.spawner, From: gs.stmt, Target: anyOf(fset)}.Run()
		if reach {
			r.BadPath(rule, key+"/e-no-failure-after-spawn", gs.stmt.Pos(), "the spawner can still fail (return an error) after starting this goroutine: a failed open/start leaks the goroutine, which keeps touching files after the caller gave up", path)
		} else {
			r.Ok(rule, key+"/e-no-failure-after-spawn", gs.stmt.Pos(), "no error return is reachable after the go statement")
		}
		isCycle := gs.spawner.Parent() == nil && t.Parent() == gs.spawner && doneIsLocal(done)
		isDone := func(v ssa.Value) bool { return chanName(v) == done }
		if strings.HasPrefix(done, "param:") {
			// `go gc.runCycle(ctx, limit, gcDone)`: the supervisor's channel is the value passed for that
			// parameter; the supervisor's variable is every value in the same phi-web as it
			var arg ssa.Value
			off := len(gs.stmt.Call.Args) - len(t.Params)
			for i, p := range t.Params {
				if "param:"+p.Name() == done && i+off >= 0 && i+off < len(gs.stmt.Call.Args) {
					arg = gs.stmt.Call.Args[i+off]
				}
			}
			if sel, _, _ := stopSelect(gs.spawner); arg != nil && sel != nil && gs.spawner.Parent() == nil {
				isCycle = true
				isDone = func(v ssa.Value) bool {
					return v == arg || derives(v, flowOpts{}, func(x ssa.Value) bool { return x == arg }) || derives(arg, flowOpts{}, func(x ssa.Value) bool { return x == v })
				}
			}
		}
		if isCycle {
			checkSupervisor(r, rule, gs, done, isDone)
			continue
		}
		// (b) the goroutine's loop has a stop branch that returns
		checkStopBranch(r, rule, key, t)
		// (d) a stopper waits for done behind the stop gate
		checkStopper(r, rule, key, done)
	}
	r.Min(rule, 16)
}

func doneIsLocal(done string) bool { return strings.HasPrefix(done, "var:") }

// stopSelect finds the blocking select of a goroutine loop and the state that
// receives from a struct-field channel other than a ticker (the stop channel).
func stopSelect(t *ssa.Function) (*ssa.Select, int, string) {
	var sel *ssa.Select
	idx := -1
	name := ""
	eachInstr(t, func(in ssa.Instruction) {
		s, ok := in.(*ssa.Select)
		if !ok || !s.Blocking {
			return
		}
		for i, st := range s.States {
			if st.Dir != 2 {
				continue
			}
			f := fieldOfLoad(st.Chan)
			if f == "" || strings.HasPrefix(f, "Timer.") || strings.HasPrefix(f, "Ticker.") {
				continue
			}
			// stop channels carry struct{}
			if !strings.Contains(st.Chan.Type().String(), "struct{}") {
				continue
			}
			if f == "Store.flushNow" {
				continue
			}
			if sel == nil {
				sel, idx, name = s, i, "field:"+f
			}
		}
	})
	return sel, idx, name
}

func selectCaseEdges(fn *ssa.Function, sel *ssa.Select, idx int) []Edge {
	idxVals := extractOf(sel, 0)
	return condEdges(fn, func(cond ssa.Value) (bool, bool) {
		bo, ok := cond.(*ssa.BinOp)
		if !ok || bo.Op != token.EQL {
			return false, false
		}
		for _, iv := range idxVals {
			if bo.X == iv {
				if k, ok := intConst(bo.Y); ok && int(k) == idx {
					return true, false
				}
			}
		}
		return false, false
	})
}

func checkStopBranch(r *Report, rule, key string, t *ssa.Function) {
	sel, idx, stop := stopSelect(t)
	if sel == nil {
		r.Bad(rule, key+"/b-stop-branch", t.Pos(), "the goroutine has no blocking select receiving from a stop channel: Close cannot stop it")
		return
	}
	edges := selectCaseEdges(t, sel, idx)
	if len(edges) == 0 {
		r.Bad(rule, key+"/b-stop-branch", instrPos(sel), "the stop case of the goroutine's select is not dispatched")
		return
	}
	for _, ed := range edges {
		ed := ed
		// from the stop case the loop is never re-entered: the select is unreachable
		reach, path := Search{Fn: t, FromEdge: &ed, Target: isInstr(sel)}.Run()
		if reach {
			r.BadPath(rule, key+"/b-stop-branch", instrPos(sel), "after receiving on "+stop+" the goroutine can go back to its select instead of returning: Close would wait forever for it", path)
		} else {
			r.Ok(rule, key+"/b-stop-branch", instrPos(sel), "receiving on "+stop+" always ends the goroutine")
		}
	}
}

// checkSupervisor: gs is a cycle closure started by a supervisor loop.
func checkSupervisor(r *Report, rule string, gs goSite, done string, isDone func(ssa.Value) bool) {
	sup := gs.spawner
	key := shortFunc(sup) + "/cycle"
	sel, idx, stop := stopSelect(sup)
	if sel == nil {
		r.Bad(rule, key+"/c-supervisor-stop", sup.Pos(), "the supervisor that starts GC cycles has no stop case")
		return
	}
	// the cycle's context derives from a cancellable context of the supervisor
	var cancel ssa.Value
	eachInstr(sup, func(in ssa.Instruction) {
		if c, ok := in.(*ssa.Call); ok && cname(c) == "context.WithCancel" {
			for _, v := range extractOf(c, 1) {
				cancel = v
			}
		}
	})
	ctxOK := false
	for _, a := range gs.stmt.Call.Args { // the context argument (the first one of a closure, after the receiver of a method)
		if strings.HasSuffix(a.Type().String(), "context.Context") && derives(a, flowOpts{}, isCallTo("context.WithCancel")) {
			ctxOK = true
		}
	}
	r.Check(ctxOK && cancel != nil, rule, key+"/c-cycle-context-cancellable", gs.stmt.Pos(), "the cycle runs under a context the supervisor can cancel", "the GC cycle is not started with a context derived from the supervisor's cancellable context: Close cannot interrupt a running cycle")
	// a new cycle is scheduled only once the running one has finished
	doneIdx := -1
	for i, st := range sel.States {
		if st.Dir == 2 && isDone(st.Chan) {
			doneIdx = i
		}
	}
	if doneIdx < 0 {
		r.Bad(rule, key+"/c-one-cycle-at-a-time", instrPos(sel), "the supervisor's select does not receive from the cycle's done channel: it cannot know when a cycle finished")
	} else {
		doneEdges := selectCaseEdges(sup, sel, doneIdx)
		resets := callSites(sup, "(*time.Timer).Reset")
		if len(resets) == 0 {
			r.Bad(rule, key+"/c-one-cycle-at-a-time", instrPos(sel), "the cycle timer is never re-armed (or a ticker is used): cycles either stop or can overlap")
		}
		for _, rs := range resets {
			ok, path := guarded(sup, rs, mkEdgeSet(doneEdges), nil)
			if ok {
				r.Ok(rule, key+"/c-one-cycle-at-a-time", rs.Pos(), "the timer is re-armed only in the branch that received the running cycle's completion: cycles never overlap")
			} else {
				r.BadPath(rule, key+"/c-one-cycle-at-a-time", rs.Pos(), "the cycle timer is re-armed somewhere other than on completion of the running cycle: a cycle that outlasts the interval lets a second cycle start next to it — they race on the collector's state (visited map, reclaimed counter, the done variable, the freelist hand-over) and the stop branch waits for only one of them", path)
			}
		}
		if len(callSites(sup, "time.NewTicker")) > 0 {
			r.Bad(rule, key+"/c-one-cycle-at-a-time", instrPos(sel), "the supervisor uses a ticker: cycles start regardless of whether the previous one finished")
		}
	}
	for _, ed := range selectCaseEdges(sup, sel, idx) {
		ed := ed
		// cancel is called on the stop branch
		isCancel := func(in ssa.Instruction) bool {
			c, ok := in.(*ssa.Call)
			return ok && cancel != nil && c.Call.Value == cancel
		}
		ok1, p1 := followedBy(sup, nil, &ed, isCancel, nil)
		if ok1 {
			r.Ok(rule, key+"/c-stop-cancels-cycle", instrPos(sel), "on "+stop+" the supervisor cancels the cycle context")
		} else {
			r.BadPath(rule, key+"/c-stop-cancels-cycle", instrPos(sel), "on "+stop+" the supervisor can return without cancelling the running cycle's context", p1)
		}
		// and waits for a running cycle: every path to return passes <-done or the done==nil edge
		var recvList []ssa.Instruction
		eachInstr(sup, func(in ssa.Instruction) {
			if u, ok := in.(*ssa.UnOp); ok && u.Op == token.ARROW && isDone(u.X) {
				recvList = append(recvList, u)
			}
		})
		recvs := instrSet(recvList)
		nilEdgesDone := condEdges(sup, func(cond ssa.Value) (bool, bool) {
			bo, ok := cond.(*ssa.BinOp)
			if !ok || (bo.Op != token.NEQ && bo.Op != token.EQL) {
				return false, false
			}
			if !(isDone(bo.X) && isNilConst(bo.Y)) && !(isDone(bo.Y) && isNilConst(bo.X)) {
				return false, false
			}
			if bo.Op == token.NEQ {
				return false, true
			}
			return true, false
		})
		reach, p2 := Search{Fn: sup, FromEdge: &ed, Target: isReturn, Avoid: anyOf(recvs), AvoidEdges: mkEdgeSet(nilEdgesDone)}.Run()
		if reach || len(recvs) == 0 {
			r.BadPath(rule, key+"/c-stop-waits-for-cycle", instrPos(sel), "on "+stop+" the supervisor can return (closing its own done channel) while a GC cycle is still running: Close proceeds to close files that the cycle is still reading, truncating or removing", p2)
		} else {
			r.Ok(rule, key+"/c-stop-waits-for-cycle", instrPos(sel), "on "+stop+" the supervisor waits for a running cycle ("+done+") before returning")
		}
	}
}

type stopperSpec struct {
	doneField   string
	fn          [2]string // alias, name of the function containing the receive
	stopField   string
	notStarted  func(fn *ssa.Function) []Edge
	releaseIn   [][2]string // functions in which resource releases must be behind the gate
	gateCallees []string    // calls that count as passing the gate (the stopper itself)
}

func fieldNilEdges(field string, wantNil bool) func(fn *ssa.Function) []Edge {
	return func(fn *ssa.Function) []Edge {
		return nilEdges(fn, func(v ssa.Value) bool { return fieldOfLoad(v) == field }, !wantNil)
	}
}

func checkStopper(r *Report, rule, key, done string) {
	var specs = map[string]stopperSpec{
		"field:Store.closed": {doneField: "Store.closed", fn: [2]string{"S", "(*Store).Close"}, stopField: "Store.closing",
			notStarted: func(fn *ssa.Function) []Edge {
				// `running` copy read under stateLk: edges where the loaded Store.running value is false
				// (a helper that reports it may also answer false when the store was not open at all)
				return flagEdges(fn, []string{"Store.running", "Store.open"}, false)
			},
			releaseIn: [][2]string{{"S", "(*Store).Close"}}},
		"field:Index.gcDone": {doneField: "Index.gcDone", fn: [2]string{"I", "(*Index).Close"}, stopField: "Index.gcStop",
			notStarted: fieldNilEdges("Index.gcStop", true), releaseIn: [][2]string{{"I", "(*Index).Close"}}},
		"field:primaryGC.done": {doneField: "primaryGC.done", fn: [2]string{"M", "(*primaryGC).close"}, stopField: "primaryGC.stop",
			notStarted: fieldNilEdges("MultihashPrimary.gc", true), releaseIn: [][2]string{{"M", "(*MultihashPrimary).Close"}},
			gateCallees: []string{"(*mhprimary.primaryGC).close"}},
	}
	spec, ok := specs[done]
	if !ok {
		r.Bad(rule, key+"/d-stopper", token.NoPos, "no stopper is known for done channel "+done+": nothing waits for this goroutine when the store is closed")
		return
	}
	top := r.need(rule, spec.fn[0], spec.fn[1])
	if top == nil {
		return
	}
	// the receive from done exists and is preceded by close(stop)
	var recvFn *ssa.Function
	var recvs []ssa.Instruction
	for _, f := range withAnons(top) {
		if rs := recvsOn(f, "field:"+spec.doneField); len(rs) > 0 {
			recvFn, recvs = f, rs
		}
	}
	if recvFn == nil {
		r.Bad(rule, key+"/d-stopper-waits", top.Pos(), "the stopper never receives from "+spec.doneField+": Close returns while the goroutine may still be running")
		return
	}
	for _, rc := range recvs {
		closes := map[ssa.Instruction]bool{}
		for _, c := range callSites(recvFn, "builtin.close") {
			if fieldOfLoad(c.Common().Args[0]) == spec.stopField {
				closes[c] = true
			}
		}
		ok, path := precededBy(recvFn, rc, closes, nil)
		if ok && len(closes) > 0 {
			r.Ok(rule, key+"/d-close-stop-before-wait", instrPos(rc), "close("+spec.stopField+") precedes <-"+spec.doneField)
		} else {
			r.BadPath(rule, key+"/d-close-stop-before-wait", instrPos(rc), "the stopper waits for "+spec.doneField+" without having closed "+spec.stopField+" first: Close blocks forever", path)
		}
	}
	// resource releases are behind the gate
	for _, rel := range spec.releaseIn {
		rtop := r.need(rule, rel[0], rel[1])
		if rtop == nil {
			continue
		}
		for _, f := range withAnons(rtop) {
			gate := map[ssa.Instruction]bool{}
			for _, rc := range recvsOn(f, "field:"+spec.doneField) {
				gate[rc] = true
			}
			for _, c := range callSites(f, spec.gateCallees...) {
				gate[c] = true
			}
			ns := spec.notStarted(f)
			releases := callSites(f, "(*os.File).Close", "(*index.Index).Flush", "(*index.Index).saveBucketState",
				"(*mhprimary.MultihashPrimary).Flush", "(primary.PrimaryStorage).Close", "(*index.Index).Close", "(*freelist.FreeList).Close")
			for _, rl := range releases {
				ok, path := guarded(f, rl, mkEdgeSet(ns), gate)
				k := key + "/d-release-behind-gate/" + shortFunc(f) + "/" + cname(rl)
				if ok && (len(ns) > 0 || len(gate) > 0) {
					r.Ok(rule, k, rl.Pos(), "reached only after the goroutine was stopped and waited for (or was never started)")
				} else {
					r.BadPath(rule, k, rl.Pos(), "this flush/close can run while the background goroutine is still active (no path-wide wait on "+spec.doneField+"): files are closed, flushed or snapshotted underneath a running flusher/GC, and the directory keeps changing after Close returned", path)
				}
			}
		}
	}
}

// ---------------------------------------------------------------------------
// R-OPEN-RELEASE

type acquisition struct {
	names   []string // cnames of the acquiring calls
	release []string // cnames of the releasing calls
	what    string
}

func ruleOpenRelease(r *Report) {
	const rule = "open-release"
	// OpenStore level
	if fn := r.need(rule, "S", "OpenStore"); fn != nil {
		acqs := []acquisition{
			{[]string{"freelist.Open"}, []string{"(*freelist.FreeList).Close"}, "freelist"},
			{[]string{"mhprimary.Open", "cidprimary.Open"}, []string{"(primary.PrimaryStorage).Close", "(*mhprimary.MultihashPrimary).Close", "(*cidprimary.CIDPrimary).Close"}, "primary"},
			{[]string{"index.Open"}, []string{"(*index.Index).Close"}, "index"},
		}
		checkReleaseOnFailure(r, rule, fn, acqs)
	}
	// translateIndex: temporary indexes and directory
	if fn := r.need(rule, "S", "translateIndex"); fn != nil {
		acqs := []acquisition{
			{[]string{"index.Open"}, []string{"(*index.Index).Close"}, "temporary index"},
			{[]string{"os.MkdirTemp"}, []string{"os.RemoveAll"}, "temporary directory"},
		}
		checkReleaseAlways(r, rule, fn, acqs[:1])
		// the new-index temp dir is always removed; the old-index temp dir is removed on success
		for _, mk := range callSites(fn, "os.MkdirTemp")[:1] {
			okAll := true
			for _, se := range successEdges(asCall(mk)) {
				se := se
				if ok, _ := followedBy(fn, nil, &se, isCallNamed("os.RemoveAll"), nil); !ok {
					okAll = false
				}
			}
			r.Check(okAll, rule, "store.translateIndex/temp-dir-removed", mk.Pos(), "the temporary index directory is removed on every path", "the temporary index directory can be left behind")
		}
	}
	// inner opens: the component's own data file
	inner := []struct{ alias, name string }{{"I", "Open"}, {"M", "Open"}, {"Cd", "Open"}, {"F", "Open"}}
	for _, in := range inner {
		fn := r.need(rule, in.alias, in.name)
		if fn == nil {
			continue
		}
		acqs := []acquisition{{[]string{"os.OpenFile", "index.openFileAppend"}, []string{"(*os.File).Close"}, "data file"}}
		checkReleaseOnFailure(r, rule, fn, acqs)
	}
	r.Min(rule, 8)
}

// checkReleaseOnFailure: for each acquisition call A and each failure return
// reachable from A, every path A→return passes a release or a failure edge of A.
func checkReleaseOnFailure(r *Report, rule string, fn *ssa.Function, acqs []acquisition) {
	_, failure := classifyReturns(fn)
	for _, a := range acqs {
		sites := callSites(fn, a.names...)
		if len(sites) == 0 {
			if a.what != "data file" {
				r.Bad(rule, shortFunc(fn)+"/"+a.what+"/acquire", fn.Pos(), "acquisition call not found: "+strings.Join(a.names, "|"))
			}
			continue
		}
		for _, s := range sites {
			sc := asCall(s)
			if sc == nil {
				continue
			}
			fe := mkEdgeSet(failureEdges(sc))
			rel := isCallNamed(a.release...)
			n := 0
			for _, ret := range failure {
				reachable, _ := Search{Fn: fn, From: sc, Target: isInstr(ret)}.Run()
				if !reachable {
					continue
				}
				n++
				leak, path := Search{Fn: fn, From: sc, Target: isInstr(ret), Avoid: rel, AvoidEdges: fe}.Run()
				key := shortFunc(fn) + "/" + a.what + "-released-on-error"
				if leak {
					r.BadPath(rule, key, ret.Pos(), "this error return is reachable after the "+a.what+" was acquired successfully ("+cname(s)+" at "+r.E.Pos(s.Pos())+") without releasing it: a failed open leaks a descriptor (and for the store, leaves background goroutines/files open)", path)
				} else {
					r.Ok(rule, key, ret.Pos(), "the "+a.what+" acquired at "+r.E.Pos(s.Pos())+" is released before this error return")
				}
			}
			if n == 0 {
				r.Ok(rule, shortFunc(fn)+"/"+a.what+"-no-later-failure", s.Pos(), "no error return is reachable after this acquisition")
			}
		}
	}
}

// checkReleaseAlways: after a successful acquisition the release happens on every path to every return.
func checkReleaseAlways(r *Report, rule string, fn *ssa.Function, acqs []acquisition) {
	for _, a := range acqs {
		for _, s := range callSites(fn, a.names...) {
			sc := asCall(s)
			if sc == nil {
				continue
			}
			okAll := true
			var bad []*ssa.BasicBlock
			for _, se := range successEdges(sc) {
				se := se
				if ok, path := followedBy(fn, nil, &se, isCallNamed(a.release...), nil); !ok {
					okAll = false
					bad = path
				}
			}
			key := shortFunc(fn) + "/" + a.what + "-always-released"
			if okAll {
				r.Ok(rule, key, s.Pos(), "released on every path (deferred)")
			} else {
				r.BadPath(rule, key, s.Pos(), "the "+a.what+" opened here is not closed on every path", bad)
			}
		}
	}
}

func init() {
	register("C17", func(r *Report) {
		ruleGoHandshake(r)
		ruleSpawnOnce(r, "go-handshake")
		ruleOpenRelease(r)
		ruleCloseMustCall(r)
		ruleComponentClearsCache(r, "close-mustcall")
		ruleFCCloseGuard(r)
		ruleFCClient(r)
		ruleFileLeak(r)
		ruleFieldFileReplaced(r)
		r.support([]string{"fc-refs", "fc-identity", "fc-removed-writes", "erruse", "close-reports-errors", "commit-order", "fc-open-returns", "sticky-error", "flush-error-returned"})
	},
		"Decides structural necessary conditions of 'Close stops everything and releases every resource', not goroutine/descriptor counts: for every go statement in the module (inventory, min 5) the goroutine begins with defer close(done), its loop has a stop case that never re-enters the loop, GC supervisors cancel the cycle context and wait for a running cycle on stop, the go statement is the last fallible step of its spawner, and a stopper closes the stop channel before waiting for done, with every flush/file-close/snapshot in the stopper reachable only behind that wait (or the never-started edge); Store.Close reaches every component Close on all paths; OpenStore and the inner Open functions release what they acquired before every error return reachable after the acquisition; cache handles are returned and only closed by their last holder. Not covered: a writer blocked in flushTick while Close runs, transient handles on fault paths inside upgrade/remap helpers, actual counts.",
		"started-indicators (Store.running, Index.gcStop, MultihashPrimary.gc) are the ones assigned next to the go statements")
}
