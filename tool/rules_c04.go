package main

import (
	"fmt"
	"go/token"
	"strings"

	"golang.org/x/tools/go/ssa"
)

// eqEdgesBetween: edges on which a == b is known, for values selected by two predicates.
func eqEdgesBetween(fn *ssa.Function, isA, isB func(ssa.Value) bool) []Edge {
	return condEdges(fn, func(cond ssa.Value) (bool, bool) {
		bo, ok := cond.(*ssa.BinOp)
		if !ok || (bo.Op != token.EQL && bo.Op != token.NEQ) {
			return false, false
		}
		x, y := stripIntConv(bo.X), stripIntConv(bo.Y)
		if !(isA(x) && isB(y)) && !(isA(y) && isB(x)) {
			return false, false
		}
		if bo.Op == token.EQL {
			return true, false
		}
		return false, true
	})
}

// R-GC-MARK-GUARD: index GC marks a record deleted only when the bucket table
// does not name it.
func ruleGCMarkGuard(r *Report) {
	const rule = "gc-mark-guard"
	fn := r.need(rule, "I", "(*Index).reapIndexRecords")
	busy := r.need(rule, "I", "(*Index).busy")
	if fn == nil || busy == nil {
		return
	}
	sws := findSizeWords(fn)
	dead := edgeSet{}
	for _, s := range sws {
		for ed := range s.edges {
			if !s.live[ed] {
				dead[ed] = true
			}
		}
	}
	var busyCalls []*ssa.Call
	for _, c := range callSites(fn, "(*index.Index).busy") {
		if bc := asCall(c); bc != nil {
			busyCalls = append(busyCalls, bc)
		}
	}
	if len(busyCalls) == 0 {
		r.Bad(rule, "reapIndexRecords/busy-call", fn.Pos(), "index GC never asks whether a record is in use (no call to busy): it would mark live record lists deleted")
		return
	}
	notBusy := edgeSet{}
	for _, bc := range busyCalls {
		vals := map[ssa.Value]bool{}
		for _, v := range resultValues(bc, 0) {
			vals[v] = true
		}
		for _, ed := range condEdges(fn, func(cond ssa.Value) (bool, bool) {
			if vals[cond] {
				return false, true
			}
			return false, false
		}) {
			// and the busy call succeeded
			notBusy[ed] = true
		}
		// arguments: bucket prefix decoded from the record, the file number parameter
		a := bc.Call.Args
		prefixOK := derives(a[1], flowOpts{}, func(v ssa.Value) bool {
			c, ok := v.(*ssa.Call)
			if !ok || cname(c) != "(encoding/binary.littleEndian).Uint32" {
				return false
			}
			// not the size word
			for _, s := range sws {
				if s.call == c {
					return false
				}
			}
			return true
		})
		r.Check(prefixOK, rule, "reapIndexRecords/busy-arg-bucket", bc.Pos(), "busy is asked about the bucket prefix decoded from this record's data", "the bucket passed to busy is not the prefix decoded from the record being examined")
		_, fileIsParam := stripIntConv(a[3]).(*ssa.Parameter)
		r.Check(fileIsParam, rule, "reapIndexRecords/busy-arg-file", bc.Pos(), "busy is asked about the file being reaped", "the file number passed to busy is not the file being reaped")
		// the error of busy is not ignored
		r.Check(len(failureEdges(bc)) > 0, rule, "reapIndexRecords/busy-error-checked", bc.Pos(), "busy's error is checked", "busy's error result is ignored: on a failed lookup `inUse` is false and the record would be marked deleted")
	}
	n := 0
	for _, w := range callSites(fn, "(*os.File).WriteAt", "(*os.File).Write", "(*os.File).WriteString") {
		n++
		okDead, _ := guarded(fn, w, dead, nil)
		okFree, path := guarded(fn, w, notBusy, nil)
		if okDead {
			r.Ok(rule, "reapIndexRecords/WriteAt", w.Pos(), "rewrites the size word of an already-deleted record (merge)")
		} else if okFree && len(notBusy) > 0 {
			r.Ok(rule, "reapIndexRecords/WriteAt", w.Pos(), "marks a record deleted only on the busy()==false edge")
		} else {
			r.BadPath(rule, "reapIndexRecords/WriteAt", w.Pos(), "index GC can set the deleted bit on a record that was neither already deleted nor found unused by busy(): a record list the bucket table still names would be dropped by the next rescan and truncated away", path)
		}
	}
	if n == 0 {
		r.Bad(rule, "reapIndexRecords/WriteAt", fn.Pos(), "index GC never writes a deleted mark")
	}
	// busy itself: reads the bucket under bucketLk, true only if BOTH file number and position match
	fi := lockFlow(busy, LockSet{})
	for _, g := range callSites(busy, "(index.Buckets).Get") {
		_, held := fi.at[g]["index.Index.bucketLk"]
		r.Check(held, rule, "busy/bucket-read-locked", g.Pos(), "the bucket is read under bucketLk", "busy reads the bucket table without bucketLk while Flush writes it")
		r.Check(sameValue(stripIntConv(g.Common().Args[1]), busy.Params[1]), rule, "busy/bucket-arg", g.Pos(), "the bucket looked up is the one asked about", "busy looks up a bucket other than its bucketPrefix argument")
	}
	fromBucket := func(v ssa.Value) bool {
		return derives(v, flowOpts{ThroughAllCalls: true}, isCallTo("(index.Buckets).Get"))
	}
	isParamN := func(n int) func(ssa.Value) bool {
		return func(v ssa.Value) bool { return n < len(busy.Params) && v == ssa.Value(busy.Params[n]) }
	}
	posEq := eqEdgesBetween(busy, isParamN(2), fromBucket)
	fileEq := eqEdgesBetween(busy, isParamN(3), fromBucket)
	// eqKind: v is `param == bucket value` for the position (2) or file (3) parameter
	eqKind := func(v ssa.Value) int {
		bo, ok := v.(*ssa.BinOp)
		if !ok || bo.Op != token.EQL {
			return 0
		}
		x, y := stripIntConv(bo.X), stripIntConv(bo.Y)
		for _, n := range []int{2, 3} {
			if (isParamN(n)(x) && fromBucket(y)) || (isParamN(n)(y) && fromBucket(x)) {
				return n
			}
		}
		return 0
	}
	neqAll := edgeSet{}
	for _, ed := range append(append([]Edge{}, posEq...), fileEq...) {
		neqAll[Edge{ed.From, 1 - ed.Idx}] = true
	}
	// conjunction: the returned value is exactly `file equal && position equal`
	// written as an expression (a phi over the short-circuit evaluation).
	conjunction := func(v ssa.Value) bool {
		phi, ok := v.(*ssa.Phi)
		if !ok {
			return false
		}
		sawEq := false
		for i, in := range phi.Edges {
			pred := phi.Block().Preds[i]
			entry := Edge{pred, succIndex(pred, phi.Block())}
			term := lastInstr(pred)
			if b, isC := boolConst(in); isC {
				if b {
					g1, _ := guarded(busy, term, mkEdgeSet(posEq), nil)
					g2, _ := guarded(busy, term, mkEdgeSet(fileEq), nil)
					if !g1 || !g2 {
						return false
					}
				} else if !neqAll[entry] {
					if g, _ := guarded(busy, term, neqAll, nil); !g {
						return false
					}
				}
				continue
			}
			k := eqKind(in)
			if k == 0 {
				return false
			}
			other := posEq
			if k == 2 {
				other = fileEq
			}
			if g, _ := guarded(busy, term, mkEdgeSet(other), nil); !g || len(other) == 0 {
				return false
			}
			sawEq = true
		}
		return sawEq
	}
	for _, ret := range returnsOf(busy) {
		if b, isC := boolConst(retVal(ret, 0)); !isC || !b {
			if _, isC2 := boolConst(retVal(ret, 0)); !isC2 {
				if conjunction(retVal(ret, 0)) {
					r.Ok(rule, "busy/return-true", ret.Pos(), "the returned value is the conjunction `file number equal && position equal` of the bucket's location and the arguments")
					r.Ok(rule, "busy/return-false", ret.Pos(), "the returned value is that conjunction: false exactly when one of them differs")
				} else {
					r.Bad(rule, "busy/return-true", ret.Pos(), "busy returns a computed boolean that is not the conjunction of the file-number and position equalities")
				}
			}
			continue
		}
		ok1, _ := guarded(busy, ret, mkEdgeSet(posEq), nil)
		ok2, path := guarded(busy, ret, mkEdgeSet(fileEq), nil)
		if ok1 && ok2 && len(posEq) > 0 && len(fileEq) > 0 {
			r.Ok(rule, "busy/return-true", ret.Pos(), "in-use is reported only when both the file number and the position equal the bucket's")
		} else {
			r.BadPath(rule, "busy/return-true", ret.Pos(), "busy can report in-use without both file number and position matching the bucket (or reports by one of them only)", path)
		}
	}
	// false must be reported when they differ: the false return is not reachable through both equalities
	for _, ret := range returnsOf(busy) {
		if b, isC := boolConst(retVal(ret, 0)); isC && !b && isNilConst(retVal(ret, 1)) {
			// reachable only by failing one of the equalities
			neq := edgeSet{}
			for _, ed := range append(append([]Edge{}, posEq...), fileEq...) {
				neq[Edge{ed.From, 1 - ed.Idx}] = true
			}
			ok, path := guarded(busy, ret, neq, nil)
			if ok {
				r.Ok(rule, "busy/return-false", ret.Pos(), "not-in-use is reported only when the file number or the position differs")
			} else {
				r.BadPath(rule, "busy/return-false", ret.Pos(), "busy can report not-in-use although file number and position both match the bucket: the live record list would be marked deleted", path)
			}
		}
	}
	r.Min(rule, 9)
}

// R-RETAIN: slices handed to a primary's Put are kept until the next flush;
// they must not alias a buffer that is written again meanwhile.
func ruleRetain(r *Report) {
	const rule = "retain"
	e := r.E
	puts := []string{"(primary.PrimaryStorage).Put", "(*mhprimary.MultihashPrimary).Put", "(*cidprimary.CIDPrimary).Put"}
	// retention is derived, not assumed: Put stores its slice parameters into the pool
	for _, im := range [][2]string{{"M", "(*MultihashPrimary).Put"}, {"Cd", "(*CIDPrimary).Put"}} {
		fn := r.need(rule, im[0], im[1])
		if fn == nil {
			continue
		}
		retained := 0
		for _, st := range append(fieldStores(fn, "blockRecord.key"), fieldStores(fn, "blockRecord.value")...) {
			if _, isP := st.Val.(*ssa.Parameter); isP {
				retained++
			}
		}
		r.Info = append(r.Info, fmt.Sprintf("retain: %s stores %d of its slice parameters into the pool (retains them until flush)", shortFunc(fn), retained))
	}
	n := 0
	for _, fn := range moduleFuncs(e) {
		for _, s := range callSites(fn, puts...) {
			args := s.Common().Args
			if !s.Common().IsInvoke() {
				args = args[1:]
			}
			// pure forwarders of the caller's own parameters carry the obligation to their callers
			fwd := true
			for _, a := range args {
				if _, isP := a.(*ssa.Parameter); !isP {
					fwd = false
				}
			}
			if fwd {
				continue
			}
			n++
			r.Sites++
			r.fn(fn)
			for i, a := range args {
				root := aliasRoot(a)
				key := fmt.Sprintf("%s/primary.Put/arg%d", shortFunc(fn), i)
				why := ""
				switch x := root.(type) {
				case *ssa.Phi:
					why = "its buffer is a loop-carried variable (" + x.Comment + ") reused across iterations"
				case *ssa.MakeSlice, *ssa.Alloc:
					in := root.(ssa.Instruction)
					// reused if the call is in a loop that does not contain the allocation
					inLoop, _ := Search{Fn: fn, From: s, Target: isInstr(s)}.Run()
					allocInLoop, _ := Search{Fn: fn, From: s, Target: isInstr(in)}.Run()
					if inLoop && !allocInLoop {
						why = "its buffer is allocated once outside the loop and overwritten by the next iteration"
					}
				case *ssa.Parameter, *ssa.Call, *ssa.Const, *ssa.Extract:
				default:
				}
				if why == "" {
					// is the root buffer written (ReadAt/copy target) again after the Put on some path?
					for _, w := range callSites(fn, "(*os.File).ReadAt", "io.ReadFull", "builtin.copy") {
						wa := w.Common().Args
						var dst ssa.Value
						switch cname(w) {
						case "(*os.File).ReadAt":
							dst = wa[1]
						case "io.ReadFull":
							dst = wa[1]
						case "builtin.copy":
							dst = wa[0]
						}
						if dst != nil && aliasRoot(dst) == root {
							if again, _ := (Search{Fn: fn, From: s, Target: isInstr(w)}).Run(); again {
								if _, fresh := root.(*ssa.MakeSlice); fresh {
									if a2, _ := (Search{Fn: fn, From: s, Target: isInstr(root.(ssa.Instruction))}).Run(); a2 {
										continue // re-allocated before being written again
									}
								}
								why = "the same buffer is filled again (" + cname(w) + ") after the record was handed to Put"
							}
						}
					}
				}
				if why == "" {
					r.Ok(rule, key, s.Pos(), "the slice handed to Put does not alias a buffer that is written again while the record is pending")
				} else {
					r.Bad(rule, key, s.Pos(), "the primary's Put keeps this slice until the next flush, but "+why+": the pending record's key/value bytes are overwritten (relocating two records makes the first read back the second's bytes; also an unsynchronised write under the flusher's reads)")
				}
			}
		}
	}
	if n == 0 {
		r.Bad(rule, "inventory", token.NoPos, "no non-forwarding call of a primary's Put found (expected the relocation in reapRecords)")
	}
	r.Min(rule, 2)
}

// aliasRoot follows slicing, conversions and alias-returning helpers
// (readNode returns slices of its argument) to the underlying buffer.
func aliasRoot(v ssa.Value) ssa.Value {
	for i := 0; i < 12; i++ {
		switch x := v.(type) {
		case *ssa.Slice:
			v = x.X
		case *ssa.ChangeType:
			v = x.X
		case *ssa.Convert:
			v = x.X
		case *ssa.Extract:
			if c, ok := x.Tuple.(*ssa.Call); ok {
				if f := c.Call.StaticCallee(); f != nil && returnsAliasOfParam(f, x.Index, 0) {
					v = c.Call.Args[0]
					continue
				}
			}
			return v
		default:
			return v
		}
	}
	return v
}

var aliasMemo = map[string]bool{}

// returnsAliasOfParam: result #ri of f is (a slice of / derived by slicing or
// by an alias-returning call from) parameter #pi on some return.
func returnsAliasOfParam(f *ssa.Function, ri, pi int) bool {
	if f.Blocks == nil || pi >= len(f.Params) {
		return false
	}
	k := fmt.Sprintf("%s|%d|%d", f.String(), ri, pi)
	if v, ok := aliasMemo[k]; ok {
		return v
	}
	aliasMemo[k] = false
	res := false
	for _, ret := range returnsOf(f) {
		if ri >= len(ret.Results) {
			continue
		}
		if derives(retVal(ret, ri), flowOpts{ThroughCalls: map[string]bool{"mhprimary.readMh": true, "bytes.NewReader": false}}, func(v ssa.Value) bool {
			return v == ssa.Value(f.Params[pi])
		}) {
			res = true
		}
		// multihash/cid values decoded from the buffer are sub-slices of it
		if x, ok := retVal(ret, ri).(*ssa.Extract); ok {
			if c, ok := x.Tuple.(*ssa.Call); ok {
				if g := c.Call.StaticCallee(); g != nil && g != f && len(c.Call.Args) > 0 && c.Call.Args[0] == ssa.Value(f.Params[pi]) && g.Pkg == f.Pkg {
					res = true // conservatively: a package-local decoder of the buffer returns views of it
				}
			}
		}
	}
	aliasMemo[k] = res
	return res
}

// R-ERRUSE: no use of a file result after the open call failed.
func ruleErrUse(r *Report) {
	const rule = "erruse"
	e := r.E
	n := 0
	for _, fn := range moduleFuncs(e) {
		for _, c := range callSites(fn, "os.Open", "os.OpenFile", "os.Create", "index.openFileAppend", "index.openFileForScan", "index.createFileAppend", "mhprimary.createFileAppend") {
			oc := asCall(c)
			if oc == nil {
				continue
			}
			n++
			r.Sites++
			fe := mkEdgeSet(failureEdges(oc))
			if len(fe) == 0 {
				continue
			}
			files := resultValues(oc, 0)
			bad := false
			for _, f := range files {
				refs := f.Referrers()
				if refs == nil {
					continue
				}
				for _, ref := range *refs {
					ci, ok := ref.(ssa.CallInstruction)
					if !ok || len(ci.Common().Args) == 0 || ci.Common().Args[0] != f {
						continue
					}
					if !strings.HasPrefix(cname(ci), "(*os.File).") {
						continue
					}
					if g, _ := guarded(fn, ci, fe, nil); g {
						bad = true
						r.Bad(rule, shortFunc(fn)+"/"+cname(c)+"/use-after-failed-open", ci.Pos(), "the *os.File result of a failed "+cname(c)+" is nil, yet "+cname(ci)+" is called on it on the error path: nil dereference (in GC this panics the background goroutine and kills the process, e.g. on a freelist entry whose primary file does not exist)")
					}
				}
			}
			if !bad {
				r.Ok(rule, shortFunc(fn)+"/"+cname(c), c.Pos(), "the file result is not used on the failure edge of the open")
			}
		}
	}
	if n < 20 {
		r.Bad(rule, "inventory", token.NoPos, fmt.Sprintf("found %d open sites, expected at least 20", n))
	}
	r.Min(rule, 20)
}

// R-GC-NOT-CURRENT: GC never works on the file the appender is writing.
func ruleGCNotCurrent(r *Report) {
	const rule = "gc-not-current"
	type gcfn struct {
		alias, name, curField, lock string
		calls                       []string
		fileName                    string
	}
	fns := []gcfn{
		{"I", "(*Index).gc", "Index.fileNum", "index.Index.flushLock", []string{"(*index.Index).reapIndexRecords"}, "index.indexFileName"},
		{"I", "(*Index).truncateFreeFiles", "Index.fileNum", "index.Index.flushLock", nil, "index.indexFileName"},
		{"M", "(*primaryGC).gc", "MultihashPrimary.fileNum", "mhprimary.MultihashPrimary.flushLock", []string{"(*mhprimary.primaryGC).reapRecords"}, "mhprimary.primaryFileName"},
	}
	for _, g := range fns {
		fn := r.need(rule, g.alias, g.name)
		if fn == nil {
			continue
		}
		fi := lockFlow(fn, LockSet{})
		// the snapshot(s) of the current file number
		cur := map[ssa.Value]bool{}
		for _, ld := range fieldLoads(fn, g.curField) {
			cur[ld] = true
			r.Check(fi.at[ld][g.lock] == modeW, rule, shortFunc(fn)+"/current-read-under-flushLock", ld.Pos(), "the current file number is read under flushLock", "the current file number is read without flushLock: the bound of the GC loop races with a flush that starts a new file")
		}
		// or through an accessor that returns the field read under the lock
		for _, c := range allCalls(fn) {
			cc := asCall(c)
			if cc == nil {
				continue
			}
			h := cc.Call.StaticCallee()
			if h == nil || h.Blocks == nil || !r.E.InModule(h) || h.Signature.Results().Len() != 1 {
				continue
			}
			hfi := lockFlow(h, LockSet{})
			all := true
			nret := 0
			for _, ret := range returnsOf(h) {
				nret++
				ld, ok := stripIntConv(retVal(ret, 0)).(*ssa.UnOp)
				if !ok || fieldOfLoad(ld) != g.curField || hfi.at[ld][g.lock] != modeW {
					all = false
				}
			}
			if all && nret > 0 {
				cur[cc] = true
				r.Ok(rule, shortFunc(fn)+"/current-read-under-flushLock", cc.Pos(), "the current file number is read under flushLock (accessor "+shortFunc(h)+")")
			}
		}
		if len(cur) == 0 {
			r.Bad(rule, shortFunc(fn)+"/current", fn.Pos(), "the GC loop does not consult the component's current file number: nothing keeps it off the file being appended to")
			continue
		}
		// evidence: edges where X != current (or X < current)
		type ev struct {
			ed Edge
			x  ssa.Value
		}
		var evs []ev
		for _, b := range fn.Blocks {
			ifi, ok := lastInstr(b).(*ssa.If)
			if !ok {
				continue
			}
			cond, neg := stripNot(ifi.Cond)
			bo, ok := cond.(*ssa.BinOp)
			if !ok {
				continue
			}
			x, y := stripIntConv(bo.X), stripIntConv(bo.Y)
			var other ssa.Value
			var idx int
			switch {
			case cur[y]:
				other = x
			case cur[x]:
				other = y
			default:
				continue
			}
			switch bo.Op {
			case token.NEQ:
				idx = 0
			case token.EQL:
				idx = 1
			case token.LSS:
				if !cur[y] {
					continue
				}
				idx = 0
			case token.GTR:
				if !cur[x] {
					continue
				}
				idx = 0
			default:
				continue
			}
			if neg {
				idx = 1 - idx
			}
			evs = append(evs, ev{Edge{b, idx}, other})
		}
		check := func(site ssa.CallInstruction, fileNum ssa.Value, what string) {
			var es []Edge
			for _, e := range evs {
				if sameValue(stripIntConv(e.x), stripIntConv(fileNum)) {
					es = append(es, e.ed)
				}
			}
			ok, path := guarded(fn, site, mkEdgeSet(es), nil)
			if ok && len(es) > 0 {
				r.Ok(rule, shortFunc(fn)+"/"+what, site.Pos(), "only reached with a file number known to differ from the current file")
			} else {
				r.BadPath(rule, shortFunc(fn)+"/"+what, site.Pos(), "GC can "+what+" the file that is currently being appended to (the file number is not dominated by a != current test): records would be marked, truncated or the file removed underneath the flusher", path)
			}
		}
		n := 0
		for _, s := range callSites(fn, g.calls...) {
			n++
			check(s, s.Common().Args[idxOfFileArg(s)], "reap")
		}
		for _, s := range callSites(fn, "os.Remove", "os.Truncate") {
			var fileNum ssa.Value
			derives(s.Common().Args[0], flowOpts{}, func(v ssa.Value) bool {
				if c, ok := v.(*ssa.Call); ok && cname(c) == g.fileName {
					fileNum = c.Call.Args[1]
					return true
				}
				return false
			})
			if fileNum == nil {
				continue
			}
			n++
			check(s, fileNum, strings.TrimPrefix(cname(s), "os."))
		}
		if n == 0 {
			r.Bad(rule, shortFunc(fn)+"/sites", fn.Pos(), "no reap/remove/truncate site found in this GC function")
		}
	}
	ruleBoundBeforeScan(r, rule)
	r.Min(rule, 10)
}

// idxOfFileArg finds the uint32 file-number argument of a reap call.
func idxOfFileArg(s ssa.CallInstruction) int {
	for i, a := range s.Common().Args {
		if i == 0 {
			continue
		}
		if shortType(a.Type()) == "uint32" {
			return i
		}
	}
	return 1
}

func init() {
	register("C04", func(r *Report) {
		ruleGCMarkGuard(r)
		rulePrimaryMark(r)
		ruleRetain(r)
		ruleErrUse(r)
		ruleGCFlushFirst(r)
		ruleGCNotCurrent(r)
		ruleFreeAfterIndex(r)
		ruleToGC(r)
		ruleDeletedCheck(r)
		ruleHeaderBeforeRemove(r, "header-before-remove")
		ruleFirstFileGuard(r)
		ruleMergeFraming(r)
		ruleSpanPair(r)
		rulePosCodec(r)
		ruleRescanAppliesAll(r)
		ruleGoHandshake(r)
		r.support([]string{"reloc-binding", "freelist-consume", "fc-removed-writes", "atomic-rmw", "scan-complete-before-truncate", "commit-order", "flush-callers", "header-preserved", "scan-framing", "reloc-keys", "header-persist", "cancel-not-completion", "pool-readers", "completion", "reap-true-means-empty", "mark-file-matches", "bucket-scan-covers", "errors-not-dropped", "handover-owners", "bucket-writers", "flush-waits", "flush-writes", "gc-single-handover"})
	},
		"Decides structural necessary conditions of 'GC never changes contents', not the behaviour: index GC sets the deleted bit only on the busy()==false edge (busy reads the bucket under bucketLk and reports in-use iff file number and position both match) or when merging already-deleted records; primary records are marked only via the freelist, when not deleted and the size matches; slices handed to the primary's retaining Put during relocation do not alias a reused buffer; no *os.File result is used after its open failed; the primary is flushed and the freelist pool handed over before a cycle applies the freelist; reap/remove/truncate only touch file numbers dominated by a != current test against a snapshot read under flushLock; relocation frees exactly the moved record's (offset,size) after the re-point; only the header's first file is unlinked, after the header write; all scanners honour the deleted bit. Not covered: truncation offsets (freeAt/busyAt arithmetic), merge sizes, resume cursor, schedules.")
}
