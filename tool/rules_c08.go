package main

import (
	"fmt"
	"go/token"

	"golang.org/x/tools/go/ssa"
)

// geEdges returns the edges of fn on which a >= b is known (a, b SSA values).
func geEdges(fn *ssa.Function, a, b ssa.Value) []Edge {
	var out []Edge
	for _, blk := range fn.Blocks {
		ifi, ok := lastInstr(blk).(*ssa.If)
		if !ok {
			continue
		}
		cond, neg := stripNot(ifi.Cond)
		bo, ok := cond.(*ssa.BinOp)
		if !ok {
			continue
		}
		x, y := stripIntConv(bo.X), stripIntConv(bo.Y)
		// which edge implies a >= b ?
		idx := -1
		switch {
		case x == a && y == b:
			switch bo.Op {
			case token.GTR, token.GEQ:
				idx = 0
			case token.LSS:
				idx = 1
			}
		case x == b && y == a:
			switch bo.Op {
			case token.LSS, token.LEQ:
				idx = 0
			case token.GTR:
				idx = 1
			}
		}
		if idx < 0 {
			continue
		}
		if neg {
			idx = 1 - idx
		}
		out = append(out, Edge{blk, idx})
	}
	return out
}

// extremeLike: f(a, b) returns one of its two parameters, each only on an edge
// where it is >= (max) resp. <= (min) the other.
func extremeLike(f *ssa.Function, wantMax bool) bool {
	if f == nil || f.Blocks == nil || len(f.Params) != 2 {
		return false
	}
	p0, p1 := ssa.Value(f.Params[0]), ssa.Value(f.Params[1])
	rets := returnsOf(f)
	if len(rets) == 0 {
		return false
	}
	for _, ret := range rets {
		if len(ret.Results) != 1 {
			return false
		}
		v := retVal(ret, 0)
		var es []Edge
		switch v {
		case p0:
			if wantMax {
				es = geEdges(f, p0, p1)
			} else {
				es = geEdges(f, p1, p0)
			}
		case p1:
			if wantMax {
				es = geEdges(f, p1, p0)
			} else {
				es = geEdges(f, p0, p1)
			}
		default:
			return false
		}
		if ok, _ := guarded(f, ret, mkEdgeSet(es), nil); !ok || len(es) == 0 {
			return false
		}
	}
	return true
}

func isExtremeCall(v ssa.Value, wantMax bool) (*ssa.Call, bool) {
	c, ok := v.(*ssa.Call)
	if !ok || len(c.Call.Args) != 2 {
		return nil, false
	}
	if b, isB := c.Call.Value.(*ssa.Builtin); isB {
		if (wantMax && b.Name() == "max") || (!wantMax && b.Name() == "min") {
			return c, true
		}
		return nil, false
	}
	if f := c.Call.StaticCallee(); f != nil && extremeLike(f, wantMax) {
		return c, true
	}
	return nil, false
}

// R-SPLICE and R-TRIM-NEIGHBOURS
func ruleSplice(r *Report) {
	const rule = "splice"
	isIndexKey := func(fn *ssa.Function) func(ssa.Value) bool {
		return func(v ssa.Value) bool {
			return derives(v, flowOpts{}, func(x ssa.Value) bool {
				c, ok := x.(*ssa.Call)
				return ok && cname(c) == "index.stripBucketPrefix" && derives(c.Call.Args[0], flowOpts{}, isParam(fn, 1))
			})
		}
	}
	for _, m := range []string{"Update", "Remove"} {
		fn := r.need(rule, "I", "(*Index)."+m)
		if fn == nil {
			continue
		}
		puts := callSites(fn, "(index.RecordList).PutKeys")
		if len(puts) != 1 {
			r.Bad(rule, "(*Index)."+m+"/PutKeys", fn.Pos(), fmt.Sprintf("expected exactly one PutKeys in Index.%s, found %d", m, len(puts)))
			continue
		}
		p := puts[0]
		a := p.Common().Args // rl, keys, start, end
		// the record addressed
		var rec ssa.Value
		if ld, ok := a[2].(*ssa.UnOp); ok && fieldOfLoad(ld) == "Record.Pos" {
			rec = ld.X.(*ssa.FieldAddr).X
		}
		okStart := rec != nil
		okEnd := false
		if rec != nil {
			if c, ok := a[3].(*ssa.Call); ok && cname(c) == "(*index.Record).NextPos" && c.Call.Args[0] == rec {
				okEnd = true
			} else {
				// or the affine equal: Pos + 13 + len(Key) of the same record
				l := linEnv{}.lin(a[3])
				if l.T["F:Record.Pos"] == 1 && l.C == 13 {
					okEnd = true
				}
			}
		}
		fromGet := rec != nil && derives(rec, flowOpts{}, func(v ssa.Value) bool {
			c, ok := v.(*ssa.Call)
			return ok && cname(c) == "(index.RecordList).GetRecord" && isIndexKey(fn)(c.Call.Args[1]) && sameValue(c.Call.Args[0], a[0])
		})
		r.Check(okStart && okEnd && fromGet, rule, "(*Index)."+m+"/range-is-addressed-record", p.Pos(),
			"the replaced byte range is [r.Pos, r.NextPos()) of the record found for the addressed key in the same record list",
			"the byte range replaced by PutKeys is not exactly [r.Pos, r.NextPos()) of the record found for the addressed key: an update/removal would touch a neighbouring key's entry")
		// behind the r == nil rejection
		if rec != nil {
			nn := nilEdges(fn, func(v ssa.Value) bool { return v == rec }, true)
			ok, path := guarded(fn, p, mkEdgeSet(nn), nil)
			if ok && len(nn) > 0 {
				r.Ok(rule, "(*Index)."+m+"/record-found", p.Pos(), "only when a record was found")
			} else {
				r.BadPath(rule, "(*Index)."+m+"/record-found", p.Pos(), "PutKeys can run although no record was found for the key", path)
			}
		}
		// the replacement
		nKeys, known := (linEnv{}).sliceLen(a[1])
		k, isC := nKeys.isConst()
		if m == "Remove" {
			r.Check(known && isC && k == 0, rule, "(*Index).Remove/replacement-empty", p.Pos(), "Remove splices in nothing", "Index.Remove replaces the entry with something other than nothing")
		} else {
			keyOK := rec != nil && derives(a[1], flowOpts{}, func(v ssa.Value) bool {
				ld, ok := v.(*ssa.UnOp)
				if !ok || fieldOfLoad(ld) != "KeyPositionPair.Key" {
					return false
				}
				return derives(ld.X, flowOpts{}, func(x ssa.Value) bool { return x == rec })
			})
			locOK := derives(a[1], flowOpts{}, isParam(fn, 2))
			r.Check(known && isC && k == 1 && keyOK && locOK, rule, "(*Index).Update/replacement-one-entry", p.Pos(), "Update splices in exactly one entry: the record's own stored prefix with the new location",
				"Index.Update does not replace the entry by exactly (r.Key, new location): the stored prefix or the number of entries changes")
		}
	}
	// Index.Put
	put := r.need(rule, "I", "(*Index).Put")
	if put == nil {
		return
	}
	var fkp *ssa.Call
	for _, c := range callSites(put, "(index.RecordList).FindKeyPosition") {
		fkp = asCall(c)
	}
	if fkp == nil {
		r.Bad(rule, "(*Index).Put/FindKeyPosition", put.Pos(), "Index.Put does not locate the insertion position with FindKeyPosition")
		return
	}
	r.Check(isIndexKey(put)(fkp.Call.Args[1]), rule, "(*Index).Put/position-of-this-key", fkp.Pos(), "the insertion position is searched for the key being put (bucket prefix stripped)", "FindKeyPosition is not called with the key being put")
	posVals := extractOf(fkp, 0)
	prevVals := extractOf(fkp, 1)
	hasVals := extractOf(fkp, 2)
	isPos := func(v ssa.Value) bool {
		for _, p := range posVals {
			if v == p {
				return true
			}
		}
		return false
	}
	isPrevPos := func(v ssa.Value) bool {
		if fieldOfLoad(v) != "Record.Pos" {
			return false
		}
		return derives(v, flowOpts{}, func(x ssa.Value) bool {
			for _, p := range prevVals {
				if x == p {
					return true
				}
			}
			return false
		})
	}
	for _, p := range callSites(put, "(index.RecordList).PutKeys") {
		a := p.Common().Args
		nKeys, known := (linEnv{}).sliceLen(a[1])
		k, isC := nKeys.isConst()
		if phi, isPhi := a[1].(*ssa.Phi); isPhi {
			// both orders of the two-entry replacement
			known, isC, k = true, true, -1
			for _, e := range phi.Edges {
				if l, ok := (linEnv{}).sliceLen(e); ok {
					if c, isConst := l.isConst(); isConst && (k == -1 || k == c) {
						k = c
						continue
					}
				}
				known = false
			}
		}
		switch {
		case isPos(a[2]) && isPos(a[3]):
			r.Check(known && isC && k == 1, rule, "(*Index).Put/pure-insertion", p.Pos(), "inserts exactly one entry at the position found, replacing nothing", "a pure insertion does not insert exactly one entry")
		case isPrevPos(a[2]) && isPos(a[3]):
			r.Check(known && isC && (k == 1 || k == 2), rule, "(*Index).Put/replace-previous", p.Pos(), "replaces exactly [prevRecord.Pos, pos): the too-short previous entry, by the re-trimmed previous entry and the new one", "the previous-entry replacement does not splice 1 or 2 entries")
		default:
			r.Bad(rule, "(*Index).Put/range", p.Pos(), "PutKeys in Index.Put replaces a byte range that is neither [pos,pos) nor [prevRecord.Pos,pos): neighbouring entries of other keys would be overwritten or duplicated")
		}
	}
	// ---- trimming against both neighbours (non-prefix branch)
	const trule = "trim-neighbours"
	var prevNC, nextNC *ssa.Call
	for _, c := range callSites(put, "index.firstNonCommonByte") {
		cc := asCall(c)
		if cc == nil || !isIndexKey(put)(cc.Call.Args[0]) {
			continue
		}
		other := cc.Call.Args[1]
		switch {
		case derives(other, flowOpts{}, func(v ssa.Value) bool { return v == ssa.Value(fkp) }) && !derives(other, flowOpts{}, isCallTo("(primary.PrimaryStorage).GetIndexKey")):
			if fieldOfLoad(other) == "KeyPositionPair.Key" {
				prevNC = cc
			}
		case derives(other, flowOpts{}, isCallTo("(index.RecordList).ReadRecord")):
			nextNC = cc
			// the next record is the one at the insertion position
			derives(other, flowOpts{}, func(v ssa.Value) bool {
				if rc, ok := v.(*ssa.Call); ok && cname(rc) == "(index.RecordList).ReadRecord" {
					r.Check(isPos(rc.Call.Args[1]), trule, "(*Index).Put/next-record-at-insertion-position", rc.Pos(), "the next neighbour is read at the insertion position", "the record compared as 'next' is not the one at the insertion position")
				}
				return false
			})
		}
	}
	if prevNC == nil || nextNC == nil {
		r.Bad(trule, "(*Index).Put/both-neighbours-compared", put.Pos(), fmt.Sprintf("the new key is compared with its previous neighbour: %v, with its next neighbour: %v — the stored prefix must be distinguishable from BOTH neighbours or lookups resolve to the wrong entry", prevNC != nil, nextNC != nil))
		return
	}
	phiOf := func(c *ssa.Call) *ssa.Phi {
		for _, ref := range *c.Referrers() {
			if p, ok := ref.(*ssa.Phi); ok {
				return p
			}
		}
		return nil
	}
	// the default (no such neighbour) may only be taken when there is none
	hasFalse := condEdges(put, func(cond ssa.Value) (bool, bool) {
		for _, h := range hasVals {
			if cond == h {
				return false, true
			}
		}
		return false, false
	})
	noNext := condEdges(put, func(cond ssa.Value) (bool, bool) {
		bo, ok := cond.(*ssa.BinOp)
		if !ok {
			return false, false
		}
		isLen := func(v ssa.Value) bool {
			c, ok := v.(*ssa.Call)
			return ok && (cname(c) == "(index.RecordList).Len" || cname(c) == "builtin.len")
		}
		switch {
		case isPos(bo.X) && isLen(bo.Y):
			switch bo.Op {
			case token.LSS:
				return false, true
			case token.GEQ:
				return true, false
			}
		case isLen(bo.X) && isPos(bo.Y):
			switch bo.Op {
			case token.GTR:
				return false, true
			case token.LEQ:
				return true, false
			}
		}
		return false, false
	})
	checkDefault := func(name string, c *ssa.Call, absent []Edge, what string) ssa.Value {
		phi := phiOf(c)
		if phi == nil {
			// used unconditionally: fine
			r.Ok(trule, "(*Index).Put/"+name+"-default-only-when-absent", c.Pos(), "the comparison with the "+what+" neighbour is used unconditionally")
			return c
		}
		bad := false
		for i, e := range phi.Edges {
			if e == ssa.Value(c) {
				continue
			}
			pred := phi.Block().Preds[i]
			ed := Edge{pred, succIndex(pred, phi.Block())}
			if mkEdgeSet(absent)[ed] {
				continue
			}
			if ok, _ := guarded(put, lastInstr(pred), mkEdgeSet(absent), nil); ok && len(absent) > 0 {
				continue
			}
			bad = true
		}
		if bad {
			r.Bad(trule, "(*Index).Put/"+name+"-default-only-when-absent", c.Pos(), "the "+what+" neighbour can be ignored (its non-common position defaults to 0) although that neighbour exists: the new entry's stored prefix may be a prefix of the "+what+" entry — the list is no longer prefix-free and lookups of the neighbour resolve to the wrong record")
		} else {
			r.Ok(trule, "(*Index).Put/"+name+"-default-only-when-absent", c.Pos(), "the "+what+" neighbour is ignored only when it does not exist")
		}
		return phi
	}
	pv := checkDefault("prev", prevNC, hasFalse, "previous")
	nv := checkDefault("next", nextNC, noNext, "next")
	// the slice bound: 1 + min(max(prevNC, nextNC), len-1)
	okCombine := false
	var where token.Pos = put.Pos()
	eachInstr(put, func(in ssa.Instruction) {
		sl, ok := in.(*ssa.Slice)
		if !ok || sl.High == nil || sl.Low != nil || !isIndexKey(put)(sl.X) {
			return
		}
		hi, ok := sl.High.(*ssa.BinOp)
		if !ok || hi.Op != token.ADD {
			return
		}
		one, isC := intConst(hi.Y)
		if !isC || one != 1 {
			return
		}
		mn, ok := isExtremeCall(hi.X, false)
		if !ok {
			return
		}
		for _, cand := range mn.Call.Args {
			mx, ok := isExtremeCall(cand, true)
			if !ok {
				continue
			}
			a0, a1 := mx.Call.Args[0], mx.Call.Args[1]
			if (a0 == pv && a1 == nv) || (a0 == nv && a1 == pv) {
				okCombine = true
				where = sl.Pos()
			}
		}
	})
	r.Check(okCombine, trule, "(*Index).Put/prefix-extends-past-both", where,
		"the stored prefix ends at 1 + min(max(first non-common byte with previous, with next), len-1): it differs from both neighbours",
		"cannot establish that the new entry's stored prefix extends past the first byte that differs from BOTH neighbours (expected 1+min(max(prevNC,nextNC),len-1) with max/min helpers that really return the larger/smaller argument): a prefix too short to tell the key from a neighbour makes lookups resolve to the wrong record")
	r.Min(trule, 4)
	r.Min(rule, 8)
}

func init() {
	register("C08", func(r *Report) {
		ruleSplice(r)
		ruleLayoutEntryOnly(r)
		ruleStripWholeBytes(r)
		// "re-pointed and removed": the read-modify-write of a bucket's list is
		// atomic and never edits published bytes; a wrong hit is rejected by the
		// store's full-key comparison
		r.support([]string{"atomic-rmw", "published-bytes-immutable", "pool-values-fresh", "keycheck", "pool-order", "lookup-both-pools", "pool-flush-complete", "translate-all", "location-after-rollover", "pos-width", "layout", "list-alias", "pool-readers", "slice-guard", "buckets-bounds", "errors-not-dropped", "bucket-writers", "match-last", "fncb-summary", "flush-writes", "disk-read-fresh"})
	},
		"Decides two structural clauses of the record-list property, not resolution of every key for every key set and order (runtime byte strings; exhaustive enumeration would run the code): (splice) Index.Update/Remove replace exactly the byte range [r.Pos, r.NextPos()) of the record found for the addressed key, by one entry carrying the record's own stored prefix and the new location (Update) or by nothing (Remove), and Index.Put replaces either nothing at the insertion position or exactly [prevRecord.Pos, pos); (trim-neighbours) in the non-prefix branch the new entry's stored prefix ends at 1+min(max(first non-common byte with the previous entry, with the next entry), len-1), each neighbour being ignored only when it does not exist, with max/min verified to return the larger/smaller argument; entry writer/reader offsets agree. Not covered: the prefix-branch re-trimming, lookup rule, ordering of entries.")
}

// ruleLayoutEntryOnly copies the index-entry obligations of R-LAYOUT.
func ruleLayoutEntryOnly(r *Report) {
	tmp := newReport(r.E, r.Property)
	ruleLayout(tmp)
	for _, o := range tmp.Obls {
		if len(o.Key) > 18 && o.Key[:19] == "layout/index-entry/" {
			o.Rule = "entry-layout"
			o.Key = "entry-layout/" + o.Key[19:]
			r.Obls = append(r.Obls, o)
		}
	}
	for f := range tmp.Funcs {
		r.Funcs[f] = true
	}
	r.Min("entry-layout", 4)
}
