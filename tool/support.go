package main

// Supporting rules. A property's check runs its own rules first and then the
// rules of the mechanisms the property depends on: an open store always runs
// the flusher and both collectors in the background, so "behaves like a map"
// (C01) also needs "the collectors never change contents" (C04's rules) and
// "a lookup during a flush consults both pools" (C05's); the adapter contract
// (C15) needs the store underneath to behave like a map; and so on. Each rule
// is a necessary condition of every property it is listed under: breaking it
// breaks the behaviour that property promises. A rule already run for the
// property is not run twice.

var supportRules = map[string]func(*Report){
	"handover-owners":               ruleHandoverOwners,
	"errors-not-dropped":            ruleErrorsNotDropped,
	"open-defaults":                 ruleOpenDefaults,
	"scan-ends-at-eof":              ruleScanEndsAtEOF,
	"gc-single-handover":            ruleGCSingleHandover,
	"disk-read-fresh":               ruleDiskReadFresh,
	"oob-by-offset":                 ruleOOBByOffset,
	"flush-waits":                   ruleFlushWaits,
	"flush-writes":                  ruleFlushWrites,
	"copy-complete":                 ruleCopyComplete,
	"remap-pool-fresh":              ruleRemapPoolFresh,
	"notice-owners":                 ruleNoticeOwners,
	"decoder-total":                 ruleDecoderTotal,
	"commit-stops":                  ruleCommitStops,
	"record-readers":                ruleRecordReaders,
	"snapshot-covers":               ruleSnapshotCovers,
	"gc-start-order":                ruleGCStartOrder,
	"bucket-writers":                ruleBucketWriters,
	"match-last":                    ruleMatchLast,
	"fncb-summary":                  ruleFNCBSummary,
	"atomic-rmw":                    ruleAtomicRMW,
	"bucket-after-write":            ruleBucketAfterWrite,
	"chunk-accounting":              ruleChunkAccounting,
	"close-mustcall":                ruleCloseMustCall,
	"commit-order":                  ruleCommitOrder,
	"config-wiring":                 ruleConfigWiring,
	"deleted-check":                 ruleDeletedCheck,
	"erruse":                        ruleErrUse,
	"fc-client":                     ruleFCClient,
	"fc-close-guard":                ruleFCCloseGuard,
	"fc-identity":                   ruleFCIdentity,
	"fc-locked":                     ruleFCLocked,
	"fc-refs":                       ruleFCRefs,
	"fc-removed-writes":             ruleFCRemovedWrites,
	"fc-shrink":                     ruleFCShrink,
	"firstfile-guard":               ruleFirstFileGuard,
	"free-after-index":              ruleFreeAfterIndex,
	"freelist-consume":              ruleFreelistConsume,
	"gc-flush-first":                ruleGCFlushFirst,
	"gc-mark-guard":                 ruleGCMarkGuard,
	"gc-not-current":                ruleGCNotCurrent,
	"go-handshake":                  ruleGoHandshake,
	"immutable-noeffect":            ruleImmutableNoEffect,
	"index-names-new-location":      ruleIndexNamesNewLocation,
	"iterate-all":                   ruleIterateAll,
	"keycheck":                      ruleKeyCheck,
	"layout":                        ruleLayout,
	"lookup-both-pools":             ruleLookupBothPools,
	"merge-framing":                 ruleMergeFraming,
	"meta-atomic":                   ruleMetaAtomic,
	"opaque-value":                  ruleOpaqueValue,
	"open-release":                  ruleOpenRelease,
	"pool-order":                    rulePoolOrder,
	"pool-swap":                     rulePoolSwap,
	"pool-values-fresh":             rulePoolValuesFresh,
	"pos-codec":                     rulePosCodec,
	"predict":                       rulePredict,
	"primary-mark":                  rulePrimaryMark,
	"published-bytes-immutable":     rulePublishedBytes,
	"reloc-binding":                 ruleRelocBinding,
	"rescan-applies-all":            ruleRescanAppliesAll,
	"retain":                        ruleRetain,
	"rollover-siblings":             ruleRolloverSiblings,
	"rollover-switch":               ruleRolloverSwitch,
	"samevalue-guard":               ruleSameValueGuard,
	"scan-from-firstfile":           ruleScanFromFirstFile,
	"snapshot":                      ruleSnapshot,
	"span-pair":                     ruleSpanPair,
	"splice":                        ruleSplice,
	"strip-whole-bytes":             ruleStripWholeBytes,
	"tail-recovery":                 ruleTailRecovery,
	"togc":                          ruleToGC,
	"translate-order":               ruleTranslateOrder,
	"upgrade-order":                 ruleUpgradeOrder,
	"scan-complete-before-truncate": ruleScanCompleteBeforeTruncate,
	"flush-callers":                 ruleFlushCallers,
	"header-persist":                ruleHeaderPersist,
	"close-reports-errors":          ruleCloseReportsErrors,
	"pool-flush-complete":           rulePoolFlushComplete,
	"translate-all":                 ruleTranslateAll,
	"fc-unknown-closed":             ruleFCUnknownClosed,
	"fc-drop-all":                   ruleFCDropAll,
	"entry-applied":                 ruleEntryApplied,
	"bounds-from-same-file":         ruleBoundsFromSameFile,
	"bucket-scan-covers":            ruleBucketScanCovers,
	"slice-guard":                   ruleSliceGuard,
	"mark-file-matches":             ruleMarkFileMatches,
	"put-section":                   rulePutSection,
	"buckets-bounds":                ruleBucketsBounds,
	"reap-true-means-empty":         ruleReapTrueMeansEmpty,
	"flush-nowork":                  ruleFlushNoWork,
	"sticky-error":                  ruleStickyError,
	"flush-error-returned":          ruleFlushErrorReturned,
	"iter-errors":                   ruleIterErrors,
	"list-alias":                    ruleListAlias,
	"cancel-not-completion":         ruleCancelNotCompletion,
	"limit-component":               ruleLimitComponent,
	"data-file-writers":             ruleDataFileWriters,
	"flush-ack":                     ruleFlushAck,
	"header-renames":                ruleHeaderRenames,
	"pool-readers":                  rulePoolReaders,
	"fc-open-returns":               ruleFCOpenReturns,
	"completion":                    ruleCompletion,
	"header-preserved":              ruleHeaderPreserved,
	"remap-completion":              ruleRemapCompletion,
	"getsize":                       ruleGetSize,
	"lock-paths":                    ruleLockPaths,
	"pos-width":                     rulePosWidth,
	"location-after-rollover":       ruleLocationAfterRollover,
	"open-length":                   ruleOpenLength,
	"index-open-limit":              ruleIndexOpenLimit,
	"bad-index-removal":             ruleBadIndexRemoval,
	"reloc-keys":                    ruleRelocKeys,
	"absent-justified":              ruleAbsentJustified,
	"append-flags":                  ruleAppendFlags,
	"error-wrap":                    ruleErrorWrap,
	"movefiles-order":               ruleMoveFilesOrder,
	"lock-balanced": func(r *Report) {
		reportBalanced(r, "lock-balanced")
		r.Min("lock-balanced", 40)
	},
	"scan-framing":         ruleScanFraming,
	"fc-list-nonnil":       ruleFCListNonNil,
	"file-leak":            ruleFileLeak,
	"field-file-replaced":  ruleFieldFileReplaced,
	"remap-offset":         ruleRemapOffset,
	"chunk-file-fresh":     ruleChunkFileFresh,
	"notify":               ruleNotify,
	"notify-reset":         ruleNotifyReset,
	"wait-protocol":        ruleWaitProtocol,
	"flusher":              ruleFlusher,
	"header-before-remove": func(r *Report) { ruleHeaderBeforeRemove(r, "header-before-remove") },
	"race": func(r *Report) {
		la, rt := runLockAnalysis(r, "race")
		reportRaces(r, la, rt, "race", nil, nil)
		r.Min("race", 25)
	},
}

// rule groups
var (
	grpMap = []string{"keycheck", "samevalue-guard", "opaque-value", "immutable-noeffect", "pool-order", "predict", "splice", "pos-codec",
		"iterate-all", "config-wiring", "index-names-new-location", "pos-width", "location-after-rollover", "bad-index-removal", "absent-justified", "error-wrap", "getsize", "pool-readers", "limit-component", "data-file-writers", "iter-errors", "list-alias", "put-section", "buckets-bounds", "slice-guard", "errors-not-dropped", "bucket-writers", "match-last", "fncb-summary", "record-readers", "disk-read-fresh", "oob-by-offset", "decoder-total"}
	grpGC = []string{"gc-single-handover", "gc-mark-guard", "primary-mark", "retain", "reloc-binding", "gc-flush-first", "gc-not-current", "free-after-index", "togc",
		"deleted-check", "header-before-remove", "firstfile-guard", "merge-framing", "span-pair", "rescan-applies-all", "freelist-consume",
		"scan-complete-before-truncate", "scan-framing", "reloc-keys", "header-preserved", "cancel-not-completion", "completion", "reap-true-means-empty", "mark-file-matches", "bucket-scan-covers", "bounds-from-same-file", "entry-applied", "handover-owners"}
	grpPools = []string{"flush-waits", "flush-writes", "atomic-rmw", "pool-swap", "lookup-both-pools", "published-bytes-immutable", "pool-values-fresh", "bucket-after-write", "pool-flush-complete", "flush-nowork", "put-section", "buckets-bounds"}
	// a writer blocked by the rate limiter must be woken: "every call returns"
	grpBackpressure = []string{"notice-owners", "notify", "notify-reset", "wait-protocol", "flusher", "lock-balanced", "lock-paths", "completion"}
	grpOrder        = []string{"commit-order", "flush-callers", "header-persist", "header-preserved", "close-reports-errors", "rollover-switch", "flush-ack", "header-renames", "cancel-not-completion", "sticky-error", "flush-error-returned", "errors-not-dropped", "bucket-writers", "snapshot-covers", "flush-waits", "flush-writes", "commit-stops", "scan-ends-at-eof"}
	grpFormat       = []string{"layout", "predict", "pos-codec", "rollover-siblings", "strip-whole-bytes", "scan-framing", "pos-width", "location-after-rollover", "open-length", "index-open-limit", "append-flags", "limit-component", "data-file-writers", "completion"}
	grpCache        = []string{"fc-close-guard", "fc-identity", "fc-refs", "fc-removed-writes", "fc-shrink", "fc-locked", "fc-client", "fc-unknown-closed", "fc-drop-all", "fc-list-nonnil", "fc-open-returns", "file-leak"}
)

func (r *Report) support(groups ...[]string) {
	have := func() map[string]bool {
		m := map[string]bool{}
		for _, o := range r.Obls {
			m[o.Rule] = true
		}
		return m
	}
	for _, g := range groups {
		for _, n := range g {
			if have()[n] {
				continue
			}
			fn := supportRules[n]
			if fn == nil {
				r.Undecided("support", "unknown supporting rule "+n)
				continue
			}
			fn(r)
			r.Supporting = append(r.Supporting, n)
		}
	}
}

// open(2) flag values as the os package of this toolchain defines them for the
// analysed platform (linux): the analysed program's constants are compared
// with these.
const (
	osOCreate = 0x40
	osOExcl   = 0x80
	osOTrunc  = 0x200
)
