package main

import (
	"fmt"
	"go/token"
	"strings"

	"golang.org/x/tools/go/ssa"
)

const (
	cidHash   = "(github.com/ipfs/go-cid.Cid).Hash"
	ctxErr    = "(context.Context).Err"
	blockCid  = "(github.com/ipfs/go-block-format.Block).Cid"
	blockData = "(github.com/ipfs/go-block-format.Block).RawData"
)

var storeAPICalls = []string{"(*store.Store).Put", "(*store.Store).Get", "(*store.Store).Has", "(*store.Store).GetSize", "(*store.Store).Remove"}

func adapterMethods(r *Report, rule string) []*ssa.Function {
	var out []*ssa.Function
	for _, m := range []string{"DeleteBlock", "Has", "Get", "GetSize", "Put", "PutMany"} {
		if f := r.need(rule, "R", "(*HashedBlockstore)."+m); f != nil {
			out = append(out, f)
		}
	}
	return out
}

// ctxLiveEdges: edges on which ctx.Err() == nil is known for fn's context parameter.
func ctxLiveEdges(fn *ssa.Function) ([]Edge, []Edge) {
	isCtxErr := func(v ssa.Value) bool {
		c, ok := v.(*ssa.Call)
		if !ok || cname(c) != ctxErr {
			return false
		}
		_, isParam := c.Call.Value.(*ssa.Parameter)
		return isParam
	}
	live := nilEdges(fn, isCtxErr, false)
	dead := nilEdges(fn, isCtxErr, true)
	return live, dead
}

func ruleCtxFirst(r *Report) {
	const rule = "ctx-first"
	for _, fn := range adapterMethods(r, rule) {
		live, dead := ctxLiveEdges(fn)
		sites := callSites(fn, storeAPICalls...)
		if len(sites) == 0 {
			r.Bad(rule, shortFunc(fn)+"/store-call", fn.Pos(), "this blockstore method does not call into the store: the rule cannot be evaluated")
			continue
		}
		for _, s := range sites {
			ok, path := guarded(fn, s, mkEdgeSet(live), nil)
			if ok && len(live) > 0 {
				r.Ok(rule, shortFunc(fn)+"/"+cname(s), s.Pos(), "the store is only touched after ctx.Err() was found nil")
			} else {
				r.BadPath(rule, shortFunc(fn)+"/"+cname(s), s.Pos(), "the store is called on a path that did not find ctx.Err() == nil first: a call with a cancelled context would have side effects / return data", path)
			}
			r.Sites++
		}
		// the cancelled edge returns the context's error
		okRet := len(dead) > 0
		for _, d := range dead {
			b := d.From.Succs[d.Idx]
			ret, isRet := lastInstr(b).(*ssa.Return)
			if !isRet {
				okRet = false
				continue
			}
			ei := errResultIndex(fn)
			if ei < 0 || !derives(retVal(ret, ei), flowOpts{}, isCallTo(ctxErr)) {
				okRet = false
			}
		}
		r.Check(okRet, rule, shortFunc(fn)+"/cancelled-returns-ctx-err", fn.Pos(), "a cancelled context makes the method return ctx.Err() immediately", "on a cancelled context the method does not immediately return the context's error")
	}
	r.Min(rule, 12)
}

func ruleKeyIsMultihash(r *Report) {
	const rule = "key-is-multihash"
	for _, fn := range adapterMethods(r, rule) {
		for _, s := range callSites(fn, storeAPICalls...) {
			key := s.Common().Args[1]
			ok := false
			derives(key, flowOpts{}, func(v ssa.Value) bool {
				c, isCall := v.(*ssa.Call)
				if !isCall || cname(c) != cidHash {
					return false
				}
				// the CID hashed is the method's CID parameter, or the Cid() of its block parameter / range element
				recv := c.Call.Args[0]
				if derives(recv, flowOpts{ThroughCalls: map[string]bool{blockCid: true}}, func(x ssa.Value) bool {
					p, isP := x.(*ssa.Parameter)
					return isP && p.Parent() == fn && paramIndex(p) >= 2
				}) {
					ok = true
				}
				return ok
			})
			// exactly the Hash result (no transformation other than the type change)
			if _, isBin := stripConv(key).(*ssa.BinOp); isBin {
				ok = false
			}
			r.Check(ok, rule, shortFunc(fn)+"/"+cname(s), s.Pos(), "the store key is the multihash of the requested CID (CIDs differing only in version/codec address one block)",
				"the key handed to the store is not cid.Hash() of the requested CID: CIDv0/v1 or different codecs of one multihash would address different blocks (or the wrong block)")
			// Put: the value is the block's raw data
			if cname(s) == "(*store.Store).Put" {
				val := s.Common().Args[2]
				r.Check(derives(val, flowOpts{}, isCallTo(blockData)), rule, shortFunc(fn)+"/value-is-rawdata", s.Pos(), "the value stored is the block's RawData", "the value stored is not the block's RawData")
			}
		}
	}
	r.Min(rule, 6)
}

func ruleNotFound(r *Report) {
	const rule = "notfound"
	for _, m := range []string{"Get", "GetSize"} {
		fn := r.need(rule, "R", "(*HashedBlockstore)."+m)
		if fn == nil {
			continue
		}
		var sc *ssa.Call
		for _, s := range callSites(fn, "(*store.Store)."+m) {
			sc = asCall(s)
		}
		if sc == nil {
			r.Bad(rule, m+"/store-call", fn.Pos(), "store call not found")
			continue
		}
		foundVals := extractOf(sc, 1)
		fset := map[ssa.Value]bool{}
		for _, v := range foundVals {
			fset[v] = true
		}
		missEdges := condEdges(fn, func(cond ssa.Value) (bool, bool) {
			if fset[cond] {
				return false, true
			}
			return false, false
		})
		hitEdges := condEdges(fn, func(cond ssa.Value) (bool, bool) {
			if fset[cond] {
				return true, false
			}
			return false, false
		})
		if len(missEdges) == 0 {
			r.Bad(rule, m+"/branches-on-found", sc.Pos(), "the method does not branch on the store's found result: an absent block would be returned as an empty block / size 0")
			continue
		}
		ei := errResultIndex(fn)
		for _, me := range missEdges {
			b := me.From.Succs[me.Idx]
			ret, isRet := lastInstr(b).(*ssa.Return)
			ok := false
			if isRet {
				mi, isMI := retVal(ret, ei).(*ssa.MakeInterface)
				if isMI && strings.HasSuffix(shortType(mi.X.Type()), "format.ErrNotFound") {
					// carries the requested CID
					if derives(mi.X, flowOpts{}, func(v ssa.Value) bool {
						p, isP := v.(*ssa.Parameter)
						return isP && p.Parent() == fn && strings.HasSuffix(shortType(p.Type()), "cid.Cid")
					}) {
						ok = true
					}
				}
			}
			r.Check(ok, rule, m+"/miss-returns-ErrNotFound", instrPos(lastInstr(b)), "an unknown CID yields ipld.ErrNotFound carrying the requested CID", "on a miss the method does not return ipld.ErrNotFound{Cid: requested}: callers using ipld.IsNotFound would not recognise an absent block")
		}
		// data is returned only on the found edge
		succ, _ := classifyReturns(fn)
		for _, ret := range succ {
			if isNilConst(retVal(ret, ei)) || !isNilOrZero(retVal(ret, 0)) {
				ok, path := guarded(fn, ret, mkEdgeSet(hitEdges), nil)
				if !isNilOrZero(retVal(ret, 0)) {
					if ok {
						r.Ok(rule, m+"/data-only-when-found", ret.Pos(), "data is returned only on the found edge")
					} else {
						r.BadPath(rule, m+"/data-only-when-found", ret.Pos(), "a block/size can be returned although the store reported the key absent", path)
					}
				}
			}
		}
	}
	// Has returns the store's answer unchanged
	if fn := r.need(rule, "R", "(*HashedBlockstore).Has"); fn != nil {
		ok := false
		for _, ret := range returnsOf(fn) {
			if derives(retVal(ret, 0), flowOpts{}, isCallTo("(*store.Store).Has")) {
				if _, isBin := retVal(ret, 0).(*ssa.BinOp); !isBin {
					if _, isNot := retVal(ret, 0).(*ssa.UnOp); !isNot {
						ok = true
					}
				}
			}
		}
		r.Check(ok, rule, "Has/returns-store-answer", fn.Pos(), "Has returns the store's boolean unchanged", "Has does not return the store's answer unchanged")
	}
	r.Min(rule, 5)
}

func isNilOrZero(v ssa.Value) bool {
	if isNilConst(v) {
		return true
	}
	if k, ok := intConst(v); ok && k == 0 {
		return true
	}
	return false
}

func ruleDupSilent(r *Report) {
	const rule = "dup-silent"
	kexists := errKeyExistsConst(r.E)
	for _, m := range []string{"Put", "PutMany"} {
		fn := r.need(rule, "R", "(*HashedBlockstore)."+m)
		if fn == nil {
			continue
		}
		for _, s := range callSites(fn, "(*store.Store).Put") {
			sc := asCall(s)
			if sc == nil {
				continue
			}
			evs := errValues(sc)
			notDup := condEdges(fn, func(cond ssa.Value) (bool, bool) {
				if c, isCall := cond.(*ssa.Call); isCall && cname(c) == "errors.Is" && len(c.Call.Args) == 2 {
					if evs[c.Call.Args[0]] && isConstErr(c.Call.Args[1], kexists) {
						return false, true
					}
					return false, false
				}
				bo, ok := cond.(*ssa.BinOp)
				if !ok || (bo.Op != token.EQL && bo.Op != token.NEQ) {
					return false, false
				}
				if !(evs[bo.X] && isConstErr(bo.Y, kexists)) && !(evs[bo.Y] && isConstErr(bo.X, kexists)) {
					return false, false
				}
				if bo.Op == token.NEQ {
					return true, false
				}
				return false, true
			})
			ei := errResultIndex(fn)
			n := 0
			for _, ret := range returnsOf(fn) {
				v := retVal(ret, ei)
				if !evs[v] {
					continue
				}
				n++
				ok, path := guarded(fn, ret, mkEdgeSet(notDup), nil)
				if ok && len(notDup) > 0 {
					r.Ok(rule, m+"/put-error-returned-only-if-not-key-exists", ret.Pos(), "the store's Put error is propagated only on the edge where it is not ErrKeyExists")
				} else {
					r.BadPath(rule, m+"/put-error-returned-only-if-not-key-exists", ret.Pos(), "the store's Put error can be returned without having been compared with types.ErrKeyExists: a duplicate Put would surface key-exists to blockstore callers instead of being accepted silently", path)
				}
			}
			if n == 0 {
				r.Bad(rule, m+"/put-error-propagated", s.Pos(), "errors of the store's Put are never propagated")
			}
		}
	}
	// PutMany: a duplicate must not end the batch — success is returned only when the loop is exhausted
	if fn := r.need(rule, "R", "(*HashedBlockstore).PutMany"); fn != nil {
		done := condEdges(fn, func(cond ssa.Value) (bool, bool) {
			bo, ok := cond.(*ssa.BinOp)
			if !ok || bo.Op != token.LSS {
				return false, false
			}
			c, isLen := bo.Y.(*ssa.Call)
			if !isLen || cname(c) != "builtin.len" {
				return false, false
			}
			if _, isP := c.Call.Args[0].(*ssa.Parameter); !isP {
				return false, false
			}
			return false, true
		})
		if len(done) == 0 {
			eachInstr(fn, func(in ssa.Instruction) {
				// range over the slice compiled with Next/ok
				if ex, ok := in.(*ssa.Extract); ok && ex.Index == 0 {
					if _, isNext := ex.Tuple.(*ssa.Next); isNext {
						done = append(done, condEdges(fn, func(cond ssa.Value) (bool, bool) {
							if cond == ssa.Value(ex) {
								return false, true
							}
							return false, false
						})...)
					}
				}
			})
		}
		// an empty batch is exhausted too: `len(blks) == 0` is an accepted reason for success
		done = append(done, condEdges(fn, func(cond ssa.Value) (bool, bool) {
			bo, ok := cond.(*ssa.BinOp)
			if !ok || (bo.Op != token.EQL && bo.Op != token.NEQ) {
				return false, false
			}
			c, isLen := bo.X.(*ssa.Call)
			if !isLen || cname(c) != "builtin.len" || !isZeroConst(bo.Y) {
				return false, false
			}
			if _, isP := c.Call.Args[0].(*ssa.Parameter); !isP {
				return false, false
			}
			return bo.Op == token.EQL, bo.Op == token.NEQ
		})...)
		succ, _ := classifyReturns(fn)
		for _, ret := range succ {
			if !isNilConst(retVal(ret, 0)) {
				continue
			}
			ok, path := guarded(fn, ret, mkEdgeSet(done), nil)
			if ok && len(done) > 0 {
				r.Ok(rule, "PutMany/success-only-after-all-blocks", ret.Pos(), "PutMany reports success only when the loop over the batch is exhausted")
			} else {
				r.BadPath(rule, "PutMany/success-only-after-all-blocks", ret.Pos(), "PutMany can return success from inside the loop (e.g. on a duplicate): the blocks after that point in the batch are silently not stored", path)
			}
		}
	}
	r.Min(rule, 3)
}

func ruleGetSize(r *Report) {
	const rule = "getsize"
	fn := r.need(rule, "S", "(*Store).GetSize")
	if fn == nil {
		return
	}
	n := 0
	for _, ret := range returnsOf(fn) {
		if b, isC := boolConst(retVal(ret, 1)); !isC || !b {
			continue
		}
		n++
		l := linEnv{}.lin(retVal(ret, 0))
		want := linAtom("F:Block.Size").add(linAtom("len(p1)"), -1)
		fromIndex := derives(retVal(ret, 0), flowOpts{Arith: true}, isCallTo("(*index.Index).Get"))
		r.Check(l.equal(want) && fromIndex, rule, "(*Store).GetSize/size-minus-key", ret.Pos(), "GetSize = indexed Block.Size − len(key) (Block.Size is len(key)+len(value), see predict O5)",
			fmt.Sprintf("GetSize returns [%s], expected [%s] of the block the index returned", l, want))
	}
	if n == 0 {
		r.Undecided(rule, "GetSize has no found=true return")
	}
	r.Min(rule, 1)
}

func ruleHashOnRead(r *Report) {
	const rule = "hashonread"
	if fn := r.need(rule, "R", "(*HashedBlockstore).HashOnRead"); fn != nil {
		sts := fieldStores(fn, "HashedBlockstore.hashOnRead")
		if len(sts) == 0 {
			r.Bad(rule, "HashOnRead/stores-flag", fn.Pos(), "HashOnRead does not set the flag")
		}
		for _, st := range sts {
			ok := derives(st.Val, flowOpts{}, isParam(fn, 1))
			if _, isNot := st.Val.(*ssa.UnOp); isNot {
				ok = false
			}
			r.Check(ok, rule, "HashOnRead/flag-from-argument", instrPos(st), "the flag stored is the method's argument", "the value stored to hashOnRead does not come from the `enabled` argument (e.g. a constant): HashOnRead(false) would enable, or HashOnRead(true) not enable, re-hashing")
		}
	}
	fn := r.need(rule, "R", "(*HashedBlockstore).Get")
	if fn == nil {
		return
	}
	flagTrue := condEdges(fn, func(cond ssa.Value) (bool, bool) {
		if fieldOfLoad(cond) == "HashedBlockstore.hashOnRead" {
			return true, false
		}
		return false, false
	})
	if len(flagTrue) == 0 {
		r.Bad(rule, "Get/branches-on-flag", fn.Pos(), "Get does not branch on hashOnRead: hash-on-read can never be enabled (or is always on)")
		return
	}
	checks := callSites(fn, "(github.com/ipfs/go-cid.Prefix).Sum", "(github.com/ipfs/go-cid.Cid).Equals")
	for _, c := range checks {
		ok, path := guarded(fn, c, mkEdgeSet(flagTrue), nil)
		if ok {
			r.Ok(rule, "Get/hash-only-when-enabled", c.Pos(), "re-hashing happens only on the hashOnRead edge (no check when disabled)")
		} else {
			r.BadPath(rule, "Get/hash-only-when-enabled", c.Pos(), "the block is re-hashed although hashOnRead is false", path)
		}
	}
	var eq *ssa.Call
	for _, c := range callSites(fn, "(github.com/ipfs/go-cid.Cid).Equals") {
		eq = asCall(c)
	}
	if eq == nil {
		r.Bad(rule, "Get/compares-hash", fn.Pos(), "Get never compares the re-computed CID with the requested one")
		return
	}
	// Equals compares Sum(value) with the requested CID
	a0, a1 := eq.Call.Args[0], eq.Call.Args[1]
	isSum := func(v ssa.Value) bool {
		return derives(v, flowOpts{}, isCallTo("(github.com/ipfs/go-cid.Prefix).Sum"))
	}
	isReq := func(v ssa.Value) bool { _, ok := v.(*ssa.Parameter); return ok }
	r.Check((isSum(a0) && isReq(a1)) || (isSum(a1) && isReq(a0)), rule, "Get/compares-sum-with-requested", eq.Pos(), "the CID recomputed from the stored bytes is compared with the requested CID", "Equals does not compare the recomputed CID with the requested CID")
	eqTrue := boolEdges(fn, eq, true)
	succ, _ := classifyReturns(fn)
	for _, fe := range flagTrue {
		fe := fe
		for _, ret := range succ {
			if isNilOrZero(retVal(ret, 0)) {
				continue
			}
			reach, path := Search{Fn: fn, FromEdge: &fe, Target: isInstr(ret), AvoidEdges: mkEdgeSet(eqTrue)}.Run()
			if reach {
				r.BadPath(rule, "Get/enabled-returns-only-verified", ret.Pos(), "with hash-on-read enabled a block can be returned without the recomputed CID having been found equal to the requested one", path)
			} else {
				r.Ok(rule, "Get/enabled-returns-only-verified", ret.Pos(), "with hash-on-read enabled the block is returned only on the Equals-true edge")
			}
		}
	}
	// mismatch returns ErrWrongHash
	wrong := false
	for _, ret := range returnsOf(fn) {
		ei := errResultIndex(fn)
		if u, ok := retVal(ret, ei).(*ssa.UnOp); ok && u.Op == token.MUL {
			if g, ok := u.X.(*ssa.Global); ok && g.Name() == "ErrWrongHash" {
				wrong = true
			}
		}
	}
	r.Check(wrong, rule, "Get/mismatch-returns-ErrWrongHash", fn.Pos(), "a mismatch is reported as blocks.ErrWrongHash", "a hash mismatch is not reported as blocks.ErrWrongHash")
	r.Min(rule, 5)
}

func init() {
	register("C15", func(r *Report) {
		ruleCtxFirst(r)
		ruleKeyIsMultihash(r)
		ruleNotFound(r)
		ruleDupSilent(r)
		ruleGetSize(r)
		ruleHashOnRead(r)
		// clauses inherited from the store (Has/GetSize agree with Get; Put then Get round-trips)
		ruleKeyCheck(r)
		rulePredict(r)
		// the adapter is a thin layer: the store underneath must behave like a map
		r.support(grpMap, grpBackpressure, []string{"retain", "reloc-binding", "lookup-both-pools", "pool-swap", "gc-mark-guard", "primary-mark", "free-after-index", "pool-flush-complete", "race", "pool-values-fresh", "published-bytes-immutable"})
	},
		"Decides the shape of the thin blockstore adapter (structural necessary conditions of its contract, not round-trip equality of bytes): every store call in a context-taking method is dominated by the ctx.Err()==nil edge and the other edge returns ctx.Err(); the key handed to the store is cid.Hash() of the requested CID/block and the value the block's RawData; a miss returns ipld.ErrNotFound carrying the requested CID and data is returned only on the found edge, Has returns the store's answer unchanged; the store's Put error reaches a return only on the not-ErrKeyExists edge (Put and PutMany agree); Store.GetSize = indexed size − len(key); HashOnRead stores its argument, re-hashing happens only when enabled and then only a verified block is returned, else ErrWrongHash. Not covered: byte equality and sizes (inherited from C01).")
}
