package main

import (
	"fmt"
	"go/token"
	"strings"

	"golang.org/x/tools/go/ssa"
)

// R-DELETED-CHECK (shared by C02, C04, C07): every reader of index/primary log
// records tests the deleted bit of the size word before using the size.

type sizeWord struct {
	call  *ssa.Call // the Uint32 call
	buf   ssa.Value // root buffer
	tests []*ssa.If
	edges edgeSet // both out-edges of the tests
	live  edgeSet // edges on which the bit is known clear
}

func rootBuffer(v ssa.Value) ssa.Value {
	for i := 0; i < 8; i++ {
		switch x := v.(type) {
		case *ssa.Slice:
			v = x.X
		case *ssa.ChangeType:
			v = x.X
		case *ssa.Convert:
			v = x.X
		default:
			return v
		}
	}
	return v
}

const deletedBitValue = int64(1) << 31

// findSizeWords lists the Uint32 decodes of 4-byte buffers in fn.
func findSizeWords(fn *ssa.Function) []*sizeWord {
	var out []*sizeWord
	for _, ci := range callSites(fn, "(encoding/binary.littleEndian).Uint32") {
		c := asCall(ci)
		if c == nil {
			continue
		}
		arg := c.Call.Args[len(c.Call.Args)-1]
		l, ok := (linEnv{}).sliceLen(arg)
		if !ok {
			continue
		}
		if k, isC := l.isConst(); !isC || k != 4 {
			continue
		}
		sw := &sizeWord{call: c, buf: rootBuffer(arg), edges: edgeSet{}, live: edgeSet{}}
		// deleted-bit tests: (s & deletedBit) ==/!= 0 in an If
		isMasked := func(v ssa.Value) bool {
			bo, ok := stripIntConv(v).(*ssa.BinOp)
			if !ok || bo.Op != token.AND {
				return false
			}
			x, y := stripIntConv(bo.X), stripIntConv(bo.Y)
			if x == ssa.Value(c) {
				k, ok := intConst(y)
				return ok && k == deletedBitValue
			}
			if y == ssa.Value(c) {
				k, ok := intConst(x)
				return ok && k == deletedBitValue
			}
			return false
		}
		for _, b := range fn.Blocks {
			ifi, ok := lastInstr(b).(*ssa.If)
			if !ok {
				continue
			}
			cond, neg := stripNot(ifi.Cond)
			bo, ok := cond.(*ssa.BinOp)
			if !ok || (bo.Op != token.NEQ && bo.Op != token.EQL) {
				continue
			}
			var masked bool
			if isMasked(bo.X) && isZeroConst(bo.Y) || isMasked(bo.Y) && isZeroConst(bo.X) {
				masked = true
			}
			if !masked {
				continue
			}
			sw.tests = append(sw.tests, ifi)
			sw.edges[Edge{b, 0}] = true
			sw.edges[Edge{b, 1}] = true
			// bit clear: (x&bit)==0 true edge, or !=0 false edge
			clearIdx := 1
			if bo.Op == token.EQL {
				clearIdx = 0
			}
			if neg {
				clearIdx = 1 - clearIdx
			}
			sw.live[Edge{b, clearIdx}] = true
		}
		out = append(out, sw)
	}
	return out
}

func stripIntConv(v ssa.Value) ssa.Value {
	for {
		switch x := v.(type) {
		case *ssa.Convert:
			v = x.X
		case *ssa.ChangeType:
			v = x.X
		default:
			return v
		}
	}
}

// usesOf returns the instructions using v, looking through integer conversions.
type useSite struct {
	in   ssa.Instruction
	edge *Edge // for phi operands: the CFG edge on which the value flows
}

func usesOf(v ssa.Value, seen map[ssa.Value]bool) []useSite {
	var out []useSite
	if seen[v] {
		return nil
	}
	seen[v] = true
	refs := v.Referrers()
	if refs == nil {
		return nil
	}
	for _, r := range *refs {
		switch x := r.(type) {
		case *ssa.Convert:
			out = append(out, usesOf(x, seen)...)
		case *ssa.ChangeType:
			out = append(out, usesOf(x, seen)...)
		case *ssa.Phi:
			for i, e := range x.Edges {
				if e == v {
					pred := x.Block().Preds[i]
					ed := Edge{pred, succIndex(pred, x.Block())}
					out = append(out, useSite{in: x, edge: &ed})
				}
			}
		case *ssa.DebugRef:
		default:
			out = append(out, useSite{in: r})
		}
	}
	return out
}

// reReadOfLiveRecord: the size word is read at a position variable that only
// ever takes (besides constants) values that flowed in on an edge where an
// earlier size word of the same function had its deleted bit clear.
func reReadOfLiveRecord(fn *ssa.Function, sw *sizeWord, others []*sizeWord) bool {
	var posArg ssa.Value
	for _, ci := range callSites(fn, "(*os.File).ReadAt") {
		if rootBuffer(ci.Common().Args[1]) == sw.buf && instrDominates(ci, sw.call) {
			posArg = ci.Common().Args[2]
		}
	}
	if posArg == nil {
		return false
	}
	live := edgeSet{}
	for _, o := range others {
		if o == sw {
			continue
		}
		for e := range o.live {
			live[e] = true
		}
	}
	if len(live) == 0 {
		return false
	}
	seen := map[*ssa.Phi]bool{}
	var ok func(v ssa.Value, via *ssa.BasicBlock) bool
	ok = func(v ssa.Value, via *ssa.BasicBlock) bool {
		v = stripIntConv(v)
		if via != nil {
			// the value flows in from a block only reachable with the bit clear
			if g, _ := guarded(fn, lastInstr(via), live, nil); g {
				return true
			}
		}
		switch x := v.(type) {
		case *ssa.Const:
			return true
		case *ssa.Phi:
			if seen[x] {
				return true
			}
			seen[x] = true
			for i, e := range x.Edges {
				if !ok(e, x.Block().Preds[i]) {
					return false
				}
			}
			return true
		}
		return false
	}
	if _, isPhi := stripIntConv(posArg).(*ssa.Phi); !isPhi {
		return false
	}
	return ok(posArg, nil)
}

func ruleDeletedCheck(r *Report) {
	const rule = "deleted-check"
	type target struct{ alias, name, kind string }
	targets := []target{
		{"I", "scanIndexFile", "scanner"},
		{"I", "(*RawIterator).Next", "scanner"},
		{"I", "(*Index).reapIndexRecords", "scanner"},
		{"M", "(*Iterator).Next", "scanner"},
		{"M", "(*primaryGC).reapRecords", "scanner"},
		{"M", "chunkOldPrimary", "scanner"},
		{"M", "(*MultihashPrimary).Get", "point"},
		{"M", "deleteRecords", "point"},
		{"M", "applyFreeList", "point"},
	}
	// Exception (1): index.chunkOldIndex copies a version-2 index, whose format
	// predates the deleted bit; it is deliberately not in the table.
	for _, t := range targets {
		fn := r.need(rule, t.alias, t.name)
		if fn == nil {
			continue
		}
		sws := findSizeWords(fn)
		if len(sws) == 0 {
			r.Bad(rule, shortFunc(fn)+"/size-word", fn.Pos(), "no 4-byte size word decode found in this record reader: the rule cannot be evaluated")
			continue
		}
		for i, sw := range sws {
			key := fmt.Sprintf("%s/size-word-%d", shortFunc(fn), i+1)
			if len(sw.tests) == 0 {
				if reReadOfLiveRecord(fn, sw, sws) {
					r.Ok(rule, key, sw.call.Pos(), "exempt: re-read of a record at a position that only takes values classified not-deleted earlier in the same call")
					continue
				}
				r.Bad(rule, key, sw.call.Pos(), "the size word of a log record is used without testing the deleted bit: a deleted (GC-marked or freed) record would be parsed as live, with a size of 2^31+n")
				continue
			}
			bad := false
			for _, u := range usesOf(sw.call, map[ssa.Value]bool{}) {
				// the mask operation of a test is itself allowed
				if bo, ok := u.in.(*ssa.BinOp); ok && bo.Op == token.AND {
					if k, ok := intConst(stripIntConv(bo.Y)); ok && k == deletedBitValue {
						continue
					}
					if k, ok := intConst(stripIntConv(bo.X)); ok && k == deletedBitValue {
						continue
					}
				}
				if u.edge != nil {
					if sw.edges[*u.edge] {
						continue
					}
					term := lastInstr(u.edge.From)
					reach, path := Search{Fn: fn, From: sw.call, Target: isInstr(term), AvoidEdges: sw.edges}.Run()
					if reach {
						bad = true
						r.BadPath(rule, key, instrPos(term), "the record size flows onward on a path that did not test the deleted bit", path)
					}
					continue
				}
				reach, path := Search{Fn: fn, From: sw.call, Target: isInstr(u.in), AvoidEdges: sw.edges}.Run()
				if reach {
					bad = true
					r.BadPath(rule, key, instrPos(u.in), "the record size is used ("+strings.TrimSpace(u.in.String())+") on a path that did not test the deleted bit: a deleted record would be treated as live with a wrong size", path)
				}
			}
			if !bad {
				r.Ok(rule, key, sw.call.Pos(), "every use of the size word is reached only through a branch on size&deletedBit")
			}
		}
	}
	r.Min(rule, 9)
}
