package main

import (
	"fmt"
	"go/token"
	"strings"

	"golang.org/x/tools/go/ssa"
)

// ---------------------------------------------------------------------------
// A5 (simplified): which functions may modify files

var writePrims = map[string]bool{
	"os.Remove": true, "os.RemoveAll": true, "os.Rename": true, "os.Truncate": true, "os.WriteFile": true, "os.Create": true,
	"os.Mkdir": true, "os.MkdirAll": true, "os.MkdirTemp": true,
	"(*os.File).Write": true, "(*os.File).WriteAt": true, "(*os.File).WriteString": true, "(*os.File).Truncate": true,
	"(*bufio.Writer).Flush": true,
}

func isWriteOpen(ci ssa.CallInstruction) bool {
	if cname(ci) != "os.OpenFile" {
		return false
	}
	flags, ok := intConst(ci.Common().Args[1])
	if !ok {
		return true // unknown flags: assume the worst
	}
	const wr = 0x1 | 0x2 | 0x40 | 0x200 | 0x400 // O_WRONLY|O_RDWR|O_CREATE|O_TRUNC|O_APPEND
	return flags&wr != 0
}

type effectSummary struct {
	e    *Engine
	memo map[*ssa.Function]int // 0 unknown, 1 no, 2 yes, 3 busy
}

func newEffects(e *Engine) *effectSummary {
	return &effectSummary{e: e, memo: map[*ssa.Function]int{}}
}

// mayWrite: fn (transitively, through callees with bodies in the module) may
// create, modify, rename or remove a file.
func (es *effectSummary) mayWrite(fn *ssa.Function) bool {
	switch es.memo[fn] {
	case 1, 3:
		return false
	case 2:
		return true
	}
	es.memo[fn] = 3
	res := false
	for _, c := range allCalls(fn) {
		if es.callWrites(c) {
			res = true
			break
		}
	}
	if res {
		es.memo[fn] = 2
	} else {
		es.memo[fn] = 1
	}
	return res
}

func (es *effectSummary) callWrites(c ssa.CallInstruction) bool {
	n := cname(c)
	if writePrims[n] || isWriteOpen(c) {
		return true
	}
	for _, callee := range es.e.Callees(c) {
		if callee.Blocks != nil && es.e.InModule(callee) && es.mayWrite(callee) {
			return true
		}
	}
	return false
}

// errTypeReturns lists the returns of fn whose error result is a value of the
// named module type (e.g. types.ErrIndexWrongBitSize).
func errTypeReturns(fn *ssa.Function, typeName string) []*ssa.Return {
	var out []*ssa.Return
	ei := errResultIndex(fn)
	if ei < 0 {
		return nil
	}
	for _, ret := range returnsOf(fn) {
		if mi, ok := retVal(ret, ei).(*ssa.MakeInterface); ok && shortType(mi.X.Type()) == typeName {
			out = append(out, ret)
		}
	}
	return out
}

func ruleTranslateTrigger(r *Report) {
	const rule = "translate-trigger"
	fn := r.need(rule, "S", "OpenStore")
	if fn == nil {
		return
	}
	sites := callSites(fn, "store.translateIndex")
	if len(sites) == 0 {
		r.Bad(rule, "OpenStore/translateIndex", fn.Pos(), "OpenStore never translates the index: a changed bit size could not be honoured")
		return
	}
	var asEdges []Edge
	for _, c := range callSites(fn, "errors.As") {
		cc := asCall(c)
		if cc == nil {
			continue
		}
		// target type
		if mi, ok := cc.Call.Args[1].(*ssa.MakeInterface); ok && strings.Contains(shortType(mi.X.Type()), "types.ErrIndexWrongBitSize") {
			// the error examined is index.Open's
			if derives(cc.Call.Args[0], flowOpts{}, isCallTo("index.Open")) {
				asEdges = append(asEdges, boolEdges(fn, cc, true)...)
			}
		}
	}
	for _, s := range sites {
		ok, path := guarded(fn, s, mkEdgeSet(asEdges), nil)
		if ok && len(asEdges) > 0 {
			r.Ok(rule, "OpenStore/translate-only-on-wrong-bit-size", s.Pos(), "the (destructive) translation starts only when index.Open failed with ErrIndexWrongBitSize")
		} else {
			r.BadPath(rule, "OpenStore/translate-only-on-wrong-bit-size", s.Pos(), "translateIndex can start on something other than index.Open's ErrIndexWrongBitSize (e.g. a file-size mismatch or any error): a refused open would rewrite/replace the index instead of leaving the store intact", path)
		}
		// the new size handed to the translation is the configured one, and the reopen follows on success
		var reopenOK bool
		for _, o := range callSites(fn, "index.Open") {
			if ok, _ := successGuard(fn, o, asCall(s)); ok {
				reopenOK = true
			}
		}
		r.Check(reopenOK, rule, "OpenStore/reopen-after-translate", s.Pos(), "after a successful translation the index is opened again", "after a successful translation the index is not opened again")
	}
	r.Min(rule, 2)
}

func ruleRejectBeforeMutate(r *Report) {
	const rule = "reject-before-mutate"
	es := newEffects(r.E)
	type target struct {
		alias, fn, readHeader string
		errTypes              []string
	}
	targets := []target{
		{"I", "Open", "index.readHeader", []string{"types.ErrIndexWrongBitSize", "types.ErrIndexWrongFileSize"}},
		{"M", "Open", "mhprimary.readHeader", []string{"types.ErrPrimaryWrongFileSize"}},
	}
	// Exception (1): the ErrPrimaryWrongFileSize return inside index.Open is
	// reached after the recovery scan, whose only effects (snapshot removal,
	// torn-tail truncation) are performed by every successful open too.
	for _, t := range targets {
		fn := r.need(rule, t.alias, t.fn)
		if fn == nil {
			continue
		}
		var rh *ssa.Call
		for _, c := range callSites(fn, t.readHeader) {
			rh = asCall(c)
		}
		if rh == nil {
			r.Undecided(rule, shortFunc(fn)+": readHeader call not found")
			continue
		}
		for _, et := range t.errTypes {
			rets := errTypeReturns(fn, et)
			if len(rets) == 0 {
				r.Bad(rule, shortFunc(fn)+"/"+et, fn.Pos(), "Open never returns "+et+": a mismatching configuration would not be refused with the specific error")
				continue
			}
			for _, ret := range rets {
				bad := false
				for _, c := range allCalls(fn) {
					if _, isDefer := c.(*ssa.Defer); isDefer {
						continue
					}
					if !es.callWrites(c) {
						continue
					}
					afterRead := false
					for _, se := range successEdges(rh) {
						se := se
						if a, _ := (Search{Fn: fn, FromEdge: &se, Target: isInstr(c)}).Run(); a {
							afterRead = true
						}
					}
					beforeRet, _ := Search{Fn: fn, From: c, Target: isInstr(ret)}.Run()
					if afterRead && beforeRet {
						bad = true
						r.Bad(rule, shortFunc(fn)+"/"+et+"/no-write-before-refusal", c.Pos(), cname(c)+" may modify files between reading the header and refusing the open with "+et+": a refused open must leave the store intact so that a later open with the original settings finds the contents")
					}
				}
				if !bad {
					r.Ok(rule, shortFunc(fn)+"/"+et+"/no-write-before-refusal", ret.Pos(), "no file is created, modified or removed between reading the header and refusing with "+et)
				}
				// the refusal is decided by comparing the header's value with the requested one
				var cmpField string
				switch et {
				case "types.ErrIndexWrongBitSize":
					cmpField = "Header.BucketsBits"
				default:
					cmpField = "Header.MaxFileSize"
				}
				ne := condEdges(fn, func(cond ssa.Value) (bool, bool) {
					bo, ok := cond.(*ssa.BinOp)
					if !ok || (bo.Op != token.NEQ && bo.Op != token.EQL) {
						return false, false
					}
					if fieldOfLoad(bo.X) != cmpField && fieldOfLoad(bo.Y) != cmpField {
						return false, false
					}
					if bo.Op == token.NEQ {
						return true, false
					}
					return false, true
				})
				ok, path := guarded(fn, ret, mkEdgeSet(ne), nil)
				if ok && len(ne) > 0 {
					r.Ok(rule, shortFunc(fn)+"/"+et+"/on-mismatch", ret.Pos(), "refused exactly on the "+cmpField+" != requested edge")
				} else {
					r.BadPath(rule, shortFunc(fn)+"/"+et+"/on-mismatch", ret.Pos(), et+" is returned on a path that did not find "+cmpField+" different from the requested value", path)
				}
			}
			// and a mismatch cannot continue into a normal open: from the != edge no successful return
			// and no call that writes files is reachable (adopting the requested value instead of
			// refusing — "the limit can be raised while everything is still in the first file" — changes
			// the header, so that the other component, or a later open with the original settings, is refused)
			cmpField := "Header.MaxFileSize"
			if et == "types.ErrIndexWrongBitSize" {
				cmpField = "Header.BucketsBits"
			}
			succ, _ := classifyReturns(fn)
			okRets := instrSet(succ)
			for _, ed := range condEdges(fn, func(cond ssa.Value) (bool, bool) {
				bo, ok := cond.(*ssa.BinOp)
				if !ok || (bo.Op != token.NEQ && bo.Op != token.EQL) {
					return false, false
				}
				if fieldOfLoad(bo.X) != cmpField && fieldOfLoad(bo.Y) != cmpField {
					return false, false
				}
				other := bo.Y
				if fieldOfLoad(bo.Y) == cmpField {
					other = bo.X
				}
				if !derives(other, flowOpts{}, func(v ssa.Value) bool { _, isParam := v.(*ssa.Parameter); return isParam }) {
					return false, false
				}
				return bo.Op == token.NEQ, bo.Op == token.EQL
			}) {
				ed := ed
				target := func(in ssa.Instruction) bool {
					if okRets[in] {
						return true
					}
					if c, ok := in.(ssa.CallInstruction); ok {
						if _, isDefer := in.(*ssa.Defer); !isDefer && es.callWrites(c) {
							return true
						}
					}
					return false
				}
				reach, path := Search{Fn: fn, FromEdge: &ed, Target: target}.Run()
				if reach {
					r.BadPath(rule, shortFunc(fn)+"/"+et+"/mismatch-always-refused", instrPos(lastInstr(ed.From)), "after finding "+cmpField+" different from the requested value the open can still succeed or write files (the mismatch is adopted instead of refused): the header changes, the other component or a later open with the original settings is then refused, and positions are decoded with a limit they were not written under", path)
				} else {
					r.Ok(rule, shortFunc(fn)+"/"+et+"/mismatch-always-refused", instrPos(lastInstr(ed.From)), "a mismatch always ends in the refusal")
				}
			}
		}
	}
	r.Min(rule, 9)
}

func ruleTranslateOrder(r *Report) {
	const rule = "translate-order"
	fn := r.need(rule, "S", "translateIndex")
	if fn == nil {
		return
	}
	moves := callSites(fn, "index.MoveFiles")
	if len(moves) != 2 {
		r.Bad(rule, "translateIndex/MoveFiles", fn.Pos(), fmt.Sprintf("expected two MoveFiles calls (displace old, install new), found %d", len(moves)))
		return
	}
	var displace, install ssa.CallInstruction
	for _, m := range moves {
		// the displacing move takes the index path translateIndex was given (possibly handed on to a helper)
		if derivesUp(m.Common().Args[0], func(v ssa.Value) bool { p, isP := v.(*ssa.Parameter); return isP && p.Parent() == fn }, 0) {
			displace = m
		} else {
			install = m
		}
	}
	if displace == nil || install == nil {
		r.Bad(rule, "translateIndex/MoveFiles", fn.Pos(), "cannot tell the displacing from the installing MoveFiles")
		return
	}
	// closes (non-deferred) of the two indexes
	var closes []*ssa.Call
	for _, c := range callSites(fn, "(*index.Index).Close") {
		if cc := asCall(c); cc != nil {
			closes = append(closes, cc)
		}
	}
	if len(closes) < 2 {
		r.Bad(rule, "translateIndex/closes", fn.Pos(), "the old and the new index are not both closed (non-deferred) before the files are moved")
	}
	for _, cc := range closes {
		ok, path := successGuard(fn, displace, cc)
		if ok {
			r.Ok(rule, "translateIndex/displace-after-close", displace.Pos(), "the old files are displaced only after this index was closed (flushed) successfully")
		} else {
			r.BadPath(rule, "translateIndex/displace-after-close", displace.Pos(), "the old index files can be moved away although closing (flushing) an index failed or did not happen: the new index may be incomplete when it replaces the old one", path)
		}
	}
	ok, path := precededBy(fn, install, map[ssa.Instruction]bool{displace: true}, nil)
	r.Check(ok, rule, "translateIndex/displace-before-install", install.Pos(), "old files are displaced before the new ones are installed", "the new files can be installed without the old ones having been displaced"+pathString(r.E, path))
	if okS, p := successGuard(fn, install, asCall(displace)); !okS {
		r.BadPath(rule, "translateIndex/install-after-displace-success", install.Pos(), "the new files are installed although displacing the old ones failed", p)
	} else {
		r.Ok(rule, "translateIndex/install-after-displace-success", install.Pos(), "install only after the displacement succeeded")
	}
	// the saved copy of the old index is removed only after the new one is installed
	for _, rm := range callSites(fn, "os.RemoveAll") {
		if _, isDefer := rm.(*ssa.Defer); isDefer {
			continue
		}
		if !sameValue(rm.Common().Args[0], displace.Common().Args[1]) {
			continue
		}
		ok, path := successGuard(fn, rm, asCall(install))
		if ok {
			r.Ok(rule, "translateIndex/remove-old-after-install", rm.Pos(), "the displaced old index is deleted only after the new one was installed successfully")
		} else {
			r.BadPath(rule, "translateIndex/remove-old-after-install", rm.Pos(), "the displaced old index can be deleted before the new index is installed: an interruption leaves a store that opens with fewer (no) keys", path)
		}
	}
	// the new index is built under the requested bit size, the old one opened with 0 (as stored)
	opens := callSites(fn, "index.Open")
	bitsOK := false
	for _, o := range opens {
		if _, isP := o.Common().Args[3].(*ssa.Parameter); isP {
			bitsOK = true
		}
	}
	r.Check(bitsOK && len(opens) == 2, rule, "translateIndex/new-index-uses-requested-bits", fn.Pos(), "the new index is opened with the requested bit size", "the new index is not opened with the requested bit size parameter")
	// the new index is built in a fresh, empty directory
	for _, o := range opens {
		if _, isP := o.Common().Args[3].(*ssa.Parameter); !isP {
			continue
		}
		fresh := derives(o.Common().Args[1], flowOpts{ThroughAllCalls: true}, isCallTo("os.MkdirTemp"))
		r.Check(fresh, rule, "translateIndex/new-index-in-fresh-dir", o.Pos(), "the new index is built in a directory created by os.MkdirTemp (fresh, empty)",
			"the new index is not built in a fresh os.MkdirTemp directory: a complete or partial new index left by an interrupted translation is adopted and merged into on the retry — updated keys return old values and removed keys reappear")
	}
	// both opens pass the requested index file size, so that a file-size
	// mismatch is still refused when the bit size differs too
	for _, o := range opens {
		_, isP := o.Common().Args[4].(*ssa.Parameter)
		r.Check(isP, rule, "translateIndex/opens-with-requested-file-size", o.Pos(), "opened with the requested index file size (a mismatch is refused by index.Open)",
			"an index is opened inside translateIndex without the requested file-size limit (0 = 'whatever is stored'): reopening with a different bit size AND a different file size is then not refused with ErrIndexWrongFileSize but silently rebuilt under the new limit")
	}
	r.Min(rule, 8)
}

func ruleTranslateAll(r *Report) {
	const rule = "translate-all"
	fn := r.need(rule, "S", "translateIndex")
	if fn == nil {
		return
	}
	var next *ssa.Call
	for _, c := range callSites(fn, "(*index.Iterator).Next") {
		next = asCall(c)
	}
	puts := callSites(fn, "(*index.Index).Put")
	if next == nil || len(puts) == 0 {
		r.Bad(rule, "translateIndex/copy-loop", fn.Pos(), "the copy loop (iterator Next / new index Put) was not found")
		return
	}
	// "a record was returned": err == nil and done == false
	doneVals := map[ssa.Value]bool{}
	for _, v := range extractOf(next, 1) {
		doneVals[v] = true
	}
	notDone := condEdges(fn, func(cond ssa.Value) (bool, bool) {
		if doneVals[cond] {
			return false, true
		}
		return false, false
	})
	_, failure := classifyReturns(fn)
	fset := map[ssa.Instruction]bool{}
	for _, f := range failure {
		fset[f] = true
	}
	for _, nd := range notDone {
		nd := nd
		reach, path := Search{Fn: fn, FromEdge: &nd, Target: isInstr(next), Avoid: anyOf(instrSet(puts))}.Run()
		if reach {
			r.BadPath(rule, "translateIndex/every-record-copied", next.Pos(), "a record returned by the old index's iterator can be skipped (the loop continues without putting it into the new index): the re-bucketed store has fewer keys", path)
		} else {
			r.Ok(rule, "translateIndex/every-record-copied", next.Pos(), "every record returned by the iterator reaches newIndex.Put (or an error return) before the next one is fetched")
		}
	}
	if len(notDone) == 0 {
		r.Bad(rule, "translateIndex/every-record-copied", next.Pos(), "the loop does not branch on the iterator's done result")
	}
	recs := extractOf(next, 0)
	isRecBlock := func(v ssa.Value) bool {
		return derives(v, flowOpts{}, func(x ssa.Value) bool {
			for _, rv := range recs {
				if x == rv {
					return true
				}
			}
			return false
		}) && (strings.HasSuffix(shortType(v.Type()), "types.Block"))
	}
	for _, p := range puts {
		a := p.Common().Args
		keyOK := derives(a[1], flowOpts{}, func(v ssa.Value) bool {
			c, ok := v.(*ssa.Call)
			if !ok || cname(c) != "(primary.PrimaryStorage).GetIndexKey" {
				return false
			}
			return isRecBlock(c.Call.Args[0])
		})
		r.Check(keyOK, rule, "translateIndex/key-from-primary", p.Pos(), "the full index key is read from the primary at the record's location", "the key put into the new index is not read from the primary at the record's own location")
		_, isBin := a[2].(*ssa.BinOp)
		r.Check(isRecBlock(a[2]) && !isBin, rule, "translateIndex/location-unchanged", p.Pos(), "the location is copied unchanged", "the location put into the new index is not the old record's location unchanged")
		// the new index, not the old
		r.Check(!sameValue(a[0], iteratorIndex(fn)), rule, "translateIndex/put-into-new-index", p.Pos(), "records are put into the new index", "records are put back into the index being iterated")
	}
	// the loop ends only on done or error: nothing after the loop runs unless done
	r.Min(rule, 4)
}

// iteratorIndex: the index value whose NewIterator is used.
func iteratorIndex(fn *ssa.Function) ssa.Value {
	for _, c := range callSites(fn, "(*index.Index).NewIterator") {
		return c.Common().Args[0]
	}
	return nil
}

// ruleStripWholeBytes: the bucket prefix stripped from a key covers only bytes
// that the bucket bits cover completely.
func ruleStripWholeBytes(r *Report) {
	const rule = "strip-whole-bytes"
	fn := r.need(rule, "I", "stripBucketPrefix")
	if fn == nil {
		return
	}
	n := 0
	eachInstr(fn, func(in ssa.Instruction) {
		sl, ok := in.(*ssa.Slice)
		if !ok || sl.Low == nil {
			return
		}
		if _, isP := sl.X.(*ssa.Parameter); !isP {
			return
		}
		n++
		v := stripIntConv(sl.Low)
		ok2 := false
		if bo, isB := v.(*ssa.BinOp); isB {
			_, xIsParam := stripIntConv(bo.X).(*ssa.Parameter)
			k, isC := intConst(stripIntConv(bo.Y))
			if xIsParam && isC && ((bo.Op == token.QUO && k == 8) || (bo.Op == token.SHR && k == 3)) {
				ok2 = true
			}
		}
		r.Check(ok2, rule, "stripBucketPrefix/whole-bytes", sl.Pos(), "strips bits/8 bytes: only bytes fully covered by the bucket bits",
			"the number of key bytes stripped is not bits/8 (whole bytes only): for bit sizes that are not a multiple of 8 the partially covered byte is dropped, so keys of one bucket that differ only in that byte's high bits collapse to the same in-bucket key — the second one is silently lost when re-bucketing or on later Puts")
	})
	if n == 0 {
		r.Undecided(rule, "stripBucketPrefix: no slicing of the key found")
	}
	r.Min(rule, 1)
}

func init() {
	register("C09", func(r *Report) {
		ruleStripWholeBytes(r)
		ruleTranslateTrigger(r)
		ruleRejectBeforeMutate(r)
		ruleTranslateOrder(r)
		ruleTranslateAll(r)
		ruleScanFromFirstFile(r)
		ruleIterateAll(r)
		// the re-bucketed index is written and read with the ordinary index code
		r.support([]string{"layout", "pos-codec", "splice", "config-wiring", "rescan-applies-all", "deleted-check", "tail-recovery", "meta-atomic", "header-persist", "pool-flush-complete", "movefiles-order", "error-wrap", "index-open-limit", "open-length", "pos-width", "header-preserved", "cancel-not-completion", "completion", "limit-component", "iter-errors", "errors-not-dropped", "fncb-summary", "flush-error-returned", "close-reports-errors", "record-readers", "scan-ends-at-eof", "open-defaults"})
	},
		"Decides structural necessary conditions of 're-bucketing keeps contents; mismatching file sizes are refused', not equality of contents for all (old,new) pairs: translateIndex starts only on the errors.As(ErrIndexWrongBitSize) edge of index.Open's error and the index is reopened after it; between reading the header and refusing with ErrIndexWrongBitSize/ErrIndexWrongFileSize/ErrPrimaryWrongFileSize no call that may (transitively) modify files is made, and the refusal sits on the header-value != requested edge; in translateIndex the old files are displaced only after both indexes closed successfully, the new ones installed after that, the displaced copy deleted only after a successful install; every record the old iterator returns reaches newIndex.Put with the key read from the primary at the record's location and the location unchanged. Not covered: the crash clause (the two MoveFiles are not atomic — observation O-3), contents equality.",
		"file-effect summaries are computed over the module only (a table of os/bufio primitives); everything else outside the module is assumed not to modify store files")
}
