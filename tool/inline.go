package main

import (
	"bytes"
	"fmt"
	"go/ast"
	"go/parser"
	"go/printer"
	"go/token"
	"go/types"
	"os"
	"sort"
	"strings"

	"golang.org/x/tools/go/packages"
	"golang.org/x/tools/go/ssa"
)

// Helper normalisation (fallback only). When a check fails, the program is
// analysed a second time in an equivalent form in which calls to *private
// helpers* are inlined at source level; the check passes if it passes on
// either form. Inlining preserves behaviour, so a rule that holds for the
// inlined program holds for the original; a property-breaking change fails on
// both. This makes the intraprocedural rules insensitive to "extract function"
// refactorings without touching the analysis of code that passes as written.
//
// A private helper is an unexported, named, non-generic, non-variadic,
// non-recursive function or method that no rule table names (not an anchor),
// that is only ever called (never deferred, spawned or used as a value), only
// from its own package, and whose body has no defer, recover, goto, label or
// named result. A call is inlined only where it is a whole statement, the only
// right-hand side of an assignment, the only operand of a return, or the
// (possibly negated) condition or init of an if.

type inlineSite struct {
	helper     *types.Func
	file       string
	start, end int // byte offsets of the statement to replace
	text       string
	name       string
	imports    map[string]string // name -> path to add to the file
}

type helperInfo struct {
	obj  *types.Func
	decl *ast.FuncDecl
	pkg  *packages.Package
	file *ast.File
}

func fileOffset(fset *token.FileSet, p token.Pos) int { return fset.Position(p).Offset }

// normaliseHelpers returns a source overlay with private-helper calls inlined
// and the list of inlinings performed (nil when there is nothing to inline).
func normaliseHelpers(e *Engine, base map[string][]byte) (map[string][]byte, []string) {
	helpers := map[*types.Func]*helperInfo{}
	// FuncDecl index
	decls := map[*types.Func]*helperInfo{}
	for _, p := range e.Pkgs {
		for _, f := range p.Syntax {
			for _, d := range f.Decls {
				fd, ok := d.(*ast.FuncDecl)
				if !ok || fd.Body == nil {
					continue
				}
				if obj, ok := p.TypesInfo.Defs[fd.Name].(*types.Func); ok {
					decls[obj] = &helperInfo{obj: obj, decl: fd, pkg: p, file: f}
				}
			}
		}
	}
	for _, fn := range e.ModFuncs {
		obj, ok := fn.Object().(*types.Func)
		if !ok || fn.Parent() != nil || obj.Exported() || anchorFuncs[fn] || usedAsValue[fn] || fn.Synthetic != "" {
			continue
		}
		hi := decls[obj]
		if hi == nil || len(staticCallers[fn]) == 0 {
			continue
		}
		sig := obj.Type().(*types.Signature)
		if sig.Variadic() || sig.TypeParams().Len() > 0 || sig.RecvTypeParams().Len() > 0 {
			continue
		}
		okCallers := true
		for _, c := range staticCallers[fn] {
			if pkgOfFunc(c.Parent()) != pkgOfFunc(fn) || c.Parent() == fn {
				okCallers = false
			}
		}
		if !okCallers || !inlinableBody(hi.decl) {
			continue
		}
		helpers[obj] = hi
	}
	if len(helpers) == 0 {
		return nil, nil
	}
	var sites []inlineSite
	for _, p := range e.Pkgs {
		for _, f := range p.Syntax {
			fname := e.Fset.Position(f.Pos()).Filename
			src, err := readSource(fname, base)
			if err != nil {
				continue
			}
			sites = append(sites, findInlineSites(e.Fset, p, f, fname, src, helpers, base)...)
		}
	}
	if len(sites) == 0 {
		return nil, nil
	}
	// a helper all of whose calls are inlined in this pass is deleted (it would be dead code that the
	// module-wide inventories still look at)
	perHelper := map[*types.Func]int{}
	for _, s := range sites {
		perHelper[s.helper]++
	}
	type span struct{ start, end int }
	deleted := map[string][]span{}
	for _, fn := range e.ModFuncs {
		obj, ok := fn.Object().(*types.Func)
		if !ok || helpers[obj] == nil || perHelper[obj] == 0 || perHelper[obj] != len(staticCallers[fn]) {
			continue
		}
		hi := helpers[obj]
		fname := e.Fset.Position(hi.file.Pos()).Filename
		start := hi.decl.Pos()
		if hi.decl.Doc != nil {
			start = hi.decl.Doc.Pos()
		}
		deleted[fname] = append(deleted[fname], span{fileOffset(e.Fset, start), fileOffset(e.Fset, hi.decl.End())})
	}
	// apply per file, innermost-first, skipping overlapping statements
	byFile := map[string][]inlineSite{}
	for _, s := range sites {
		inDeleted := false
		for _, d := range deleted[s.file] {
			if s.start >= d.start && s.end <= d.end {
				inDeleted = true
			}
		}
		if !inDeleted {
			byFile[s.file] = append(byFile[s.file], s)
		}
	}
	for fname, ds := range deleted {
		for _, d := range ds {
			byFile[fname] = append(byFile[fname], inlineSite{file: fname, start: d.start, end: d.end, text: "", name: ""})
		}
	}
	out := map[string][]byte{}
	for k, v := range base {
		out[k] = v
	}
	var done []string
	for fname, ss := range byFile {
		src, _ := readSource(fname, base)
		sort.Slice(ss, func(i, j int) bool { return (ss[i].end - ss[i].start) < (ss[j].end - ss[j].start) })
		var chosen []inlineSite
		for _, s := range ss {
			overlap := false
			for _, c := range chosen {
				if s.start < c.end && c.start < s.end {
					overlap = true
				}
			}
			if !overlap {
				chosen = append(chosen, s)
			}
		}
		sort.Slice(chosen, func(i, j int) bool { return chosen[i].start > chosen[j].start })
		text := string(src)
		imports := map[string]string{}
		for _, s := range chosen {
			text = text[:s.start] + s.text + text[s.end:]
			for n, p := range s.imports {
				imports[n] = p
			}
		}
		if len(imports) > 0 {
			// extra import declarations right after the package clause
			i := strings.Index(text, "\npackage ")
			if strings.HasPrefix(text, "package ") {
				i = 0
			} else if i >= 0 {
				i++
			}
			if i >= 0 {
				nl := strings.IndexByte(text[i:], '\n')
				var sb strings.Builder
				for n, p := range imports {
					fmt.Fprintf(&sb, "import %s %q\n", n, p)
				}
				text = text[:i+nl+1] + sb.String() + text[i+nl+1:]
			}
		}
		if _, err := parser.ParseFile(token.NewFileSet(), fname, text, 0); err != nil {
			continue // give up on this file
		}
		out[fname] = []byte(text)
		for _, s := range chosen {
			if s.name != "" {
				done = append(done, s.name)
			}
		}
	}
	sort.Strings(done)
	return out, done
}

func readSource(fname string, base map[string][]byte) ([]byte, error) {
	if b, ok := base[fname]; ok {
		return b, nil
	}
	return os.ReadFile(fname)
}

func inlinableBody(fd *ast.FuncDecl) bool {
	ok := true
	topDefer := map[ast.Node]bool{}
	for _, s := range fd.Body.List {
		if d, isD := s.(*ast.DeferStmt); isD {
			topDefer[d] = true
		}
	}
	ast.Inspect(fd.Body, func(n ast.Node) bool {
		switch x := n.(type) {
		case *ast.DeferStmt:
			// a defer at the top level of the body becomes an explicit call before every later return
			// (panics are outside what the rules reason about); nested defers are not handled
			if !topDefer[x] {
				ok = false
			}
		case *ast.LabeledStmt:
			ok = false
		case *ast.BranchStmt:
			if x.Tok == token.GOTO || x.Label != nil {
				ok = false
			}
		case *ast.CallExpr:
			if id, isID := x.Fun.(*ast.Ident); isID && id.Name == "recover" {
				ok = false
			}
		}
		return ok
	})
	return ok
}

// helperCall: the call expression is a call of a helper; returns its info.
func helperCall(info *types.Info, helpers map[*types.Func]*helperInfo, call *ast.CallExpr) *helperInfo {
	var id *ast.Ident
	switch f := call.Fun.(type) {
	case *ast.Ident:
		id = f
	case *ast.SelectorExpr:
		id = f.Sel
	default:
		return nil
	}
	obj, ok := info.Uses[id].(*types.Func)
	if !ok {
		return nil
	}
	return helpers[obj]
}

func findInlineSites(fset *token.FileSet, p *packages.Package, f *ast.File, fname string, src []byte, helpers map[*types.Func]*helperInfo, base map[string][]byte) []inlineSite {
	var out []inlineSite
	info := p.TypesInfo
	// imports of this file: path -> local name
	fileImports := map[string]string{}
	for _, im := range f.Imports {
		path := strings.Trim(im.Path.Value, "\"")
		name := ""
		if im.Name != nil {
			name = im.Name.Name
		} else if pk := importedPkgName(info, im); pk != "" {
			name = pk
		}
		fileImports[path] = name
	}
	text := func(a, b token.Pos) string { return string(src[fileOffset(fset, a):fileOffset(fset, b)]) }
	seq := 0
	consider := func(stmt ast.Stmt, call *ast.CallExpr, mode string, ifs *ast.IfStmt) {
		hi := helperCall(info, helpers, call)
		if hi == nil {
			return
		}
		// do not inline a helper into itself or across packages
		if hi.pkg != p {
			return
		}
		seq++
		id := fmt.Sprintf("%d_%d", fileOffset(fset, call.Pos()), seq)
		direct := mode == "return" && !hasTopDefer(hi.decl) && !hasNamedResults(hi.decl)
		gen, imports, ok := genInline(fset, p, f, fileImports, hi, call, id, src, base, direct)
		if !ok {
			return
		}
		sig := hi.obj.Type().(*types.Signature)
		var rnames []string
		for i := 0; i < sig.Results().Len(); i++ {
			rnames = append(rnames, fmt.Sprintf("__r%s_%d", id, i))
		}
		rlist := strings.Join(rnames, ", ")
		var newText string
		switch mode {
		case "expr":
			newText = "{\n" + gen + "\n}"
		case "return":
			if direct {
				// the caller returns exactly what the helper returns: the helper's returns become the caller's
				newText = "{\n" + gen + "\n}"
			} else {
				newText = gen + "\n" + text(stmt.Pos(), call.Pos()) + rlist + text(call.End(), stmt.End())
			}
		case "assign":
			// the statement with the call replaced by the result variables
			newText = gen + "\n" + text(stmt.Pos(), call.Pos()) + rlist + text(call.End(), stmt.End())
		case "if-init":
			init := ifs.Init
			newText = "{\n" + gen + "\n" + text(init.Pos(), call.Pos()) + rlist + text(call.End(), init.End()) + "\nif " + text(ifs.Cond.Pos(), ifs.End()) + "\n}"
		case "if-cond":
			if len(rnames) != 1 {
				return
			}
			newText = "{\n" + gen + "\nif " + text(ifs.Cond.Pos(), call.Pos()) + rlist + text(call.End(), ifs.End()) + "\n}"
		}
		s := inlineSite{helper: hi.obj, file: fname, start: fileOffset(fset, stmt.Pos()), end: fileOffset(fset, stmt.End()), text: newText,
			name: hi.obj.Name() + " into " + enclosingFuncName(f, call.Pos()), imports: imports}
		out = append(out, s)
	}
	soleCall := func(e ast.Expr) *ast.CallExpr {
		c, _ := ast.Unparen(e).(*ast.CallExpr)
		return c
	}
	ast.Inspect(f, func(n ast.Node) bool {
		switch s := n.(type) {
		case *ast.ExprStmt:
			if c := soleCall(s.X); c != nil {
				consider(s, c, "expr", nil)
			}
		case *ast.AssignStmt:
			if len(s.Rhs) == 1 {
				if c := soleCall(s.Rhs[0]); c != nil {
					consider(s, c, "assign", nil)
				}
			}
		case *ast.ReturnStmt:
			if len(s.Results) == 1 {
				if c := soleCall(s.Results[0]); c != nil {
					consider(s, c, "return", nil)
				}
			}
		case *ast.IfStmt:
			if s.Init != nil {
				if as, ok := s.Init.(*ast.AssignStmt); ok && len(as.Rhs) == 1 {
					if c := soleCall(as.Rhs[0]); c != nil {
						consider(s, c, "if-init", s)
					}
				}
			} else {
				cond := ast.Unparen(s.Cond)
				if u, ok := cond.(*ast.UnaryExpr); ok && u.Op == token.NOT {
					cond = ast.Unparen(u.X)
				}
				if c, ok := cond.(*ast.CallExpr); ok {
					consider(s, c, "if-cond", s)
				}
			}
		}
		return true
	})
	// an if-init/if-cond site must not sit in an else-if position (it cannot be wrapped in a block there);
	// assign/return sites that are the init of an if/for/switch are not whole statements of a block: drop them.
	valid := map[int]bool{}
	ast.Inspect(f, func(n ast.Node) bool {
		var list []ast.Stmt
		switch b := n.(type) {
		case *ast.BlockStmt:
			list = b.List
		case *ast.CaseClause:
			list = b.Body
		case *ast.CommClause:
			list = b.Body
		}
		for _, st := range list {
			valid[fileOffset(fset, st.Pos())] = true
		}
		return true
	})
	var kept []inlineSite
	for _, s := range out {
		if valid[s.start] {
			kept = append(kept, s)
		}
	}
	return kept
}

func importedPkgName(info *types.Info, im *ast.ImportSpec) string {
	if obj, ok := info.Implicits[im].(*types.PkgName); ok {
		return obj.Name()
	}
	return ""
}

func enclosingFuncName(f *ast.File, pos token.Pos) string {
	for _, d := range f.Decls {
		if fd, ok := d.(*ast.FuncDecl); ok && fd.Pos() <= pos && pos < fd.End() {
			return fd.Name.Name
		}
	}
	return "?"
}

// genInline produces the statements that evaluate the call: result variable
// declarations followed by a block that binds the parameters and runs the body.
func genInline(fset *token.FileSet, p *packages.Package, callerFile *ast.File, fileImports map[string]string, hi *helperInfo, call *ast.CallExpr,
	id string, src []byte, base map[string][]byte, direct bool) (string, map[string]string, bool) {
	info := p.TypesInfo
	sig := hi.obj.Type().(*types.Signature)
	addImports := map[string]string{}
	bad := false
	qual := func(pk *types.Package) string {
		if pk == p.Types {
			return ""
		}
		if n, ok := fileImports[pk.Path()]; ok && n != "" && n != "_" && n != "." {
			if localShadows(info, callerFile, call.Pos(), n) {
				// a local of the caller has the package's name (`var primary primary.PrimaryStorage`):
				// refer to the package through a fresh alias in the generated declarations
				alias := "__pkg_" + n
				addImports[alias] = pk.Path()
				return alias
			}
			return n
		}
		// add an import under the package's own name, unless that name means something else here
		n := pk.Name()
		if callerScopeHas(info, callerFile, call.Pos(), n) {
			bad = true
			return n
		}
		addImports[n] = pk.Path()
		return n
	}
	// the helper body's references to package-level objects and imports must mean the same at the call site
	helperSrc, err := readSource(fset.Position(hi.file.Pos()).Filename, base)
	if err != nil {
		return "", nil, false
	}
	scope := info.Scopes[callerFile]
	_ = scope
	ast.Inspect(hi.decl.Body, func(n ast.Node) bool {
		idn, ok := n.(*ast.Ident)
		if !ok {
			return true
		}
		obj := hi.pkg.TypesInfo.Uses[idn]
		if obj == nil {
			return true
		}
		switch o := obj.(type) {
		case *types.PkgName:
			path := o.Imported().Path()
			if n, ok := fileImports[path]; !ok || n != idn.Name {
				if callerScopeHas(info, callerFile, call.Pos(), idn.Name) {
					bad = true
				} else {
					addImports[idn.Name] = path
				}
			} else if localShadows(info, callerFile, call.Pos(), idn.Name) {
				bad = true
			}
		default:
			if obj.Parent() == hi.pkg.Types.Scope() || obj.Parent() == types.Universe {
				// package-level or universe object: a local of the caller must not shadow it
				if localShadows(info, callerFile, call.Pos(), idn.Name) {
					bad = true
				}
			}
		}
		return true
	})
	if bad {
		return "", nil, false
	}
	var sb strings.Builder
	// type names of the caller's own package used in declarations must not be shadowed by locals
	var namesOK func(t types.Type, depth int) bool
	namesOK = func(t types.Type, depth int) bool {
		if depth > 6 {
			return true
		}
		switch x := t.(type) {
		case *types.Named:
			if x.Obj().Pkg() == p.Types && localShadows(info, callerFile, call.Pos(), x.Obj().Name()) {
				return false
			}
			if x.Obj().Pkg() == nil && localShadows(info, callerFile, call.Pos(), x.Obj().Name()) {
				return false
			}
		case *types.Basic:
			if localShadows(info, callerFile, call.Pos(), x.Name()) {
				return false
			}
		case *types.Pointer:
			return namesOK(x.Elem(), depth+1)
		case *types.Slice:
			return namesOK(x.Elem(), depth+1)
		case *types.Array:
			return namesOK(x.Elem(), depth+1)
		case *types.Map:
			return namesOK(x.Key(), depth+1) && namesOK(x.Elem(), depth+1)
		case *types.Chan:
			return namesOK(x.Elem(), depth+1)
		case *types.Signature:
			for i := 0; i < x.Params().Len(); i++ {
				if !namesOK(x.Params().At(i).Type(), depth+1) {
					return false
				}
			}
			for i := 0; i < x.Results().Len(); i++ {
				if !namesOK(x.Results().At(i).Type(), depth+1) {
					return false
				}
			}
		}
		return true
	}
	for i := 0; i < sig.Results().Len(); i++ {
		if !namesOK(sig.Results().At(i).Type(), 0) {
			return "", nil, false
		}
	}
	for i := 0; i < sig.Params().Len(); i++ {
		if !namesOK(sig.Params().At(i).Type(), 0) {
			return "", nil, false
		}
	}
	if sig.Recv() != nil && !namesOK(sig.Recv().Type(), 0) {
		return "", nil, false
	}
	tstr := func(t types.Type) string { return types.TypeString(t, qual) }
	for i := 0; i < sig.Results().Len() && !direct; i++ {
		fmt.Fprintf(&sb, "var __r%s_%d %s\n", id, i, tstr(sig.Results().At(i).Type()))
	}
	srcText := func(a, b token.Pos) string { return string(src[fileOffset(fset, a):fileOffset(fset, b)]) }
	// receiver and arguments, evaluated once, in order
	type bind struct{ name, tmp string }
	var binds []bind
	if sig.Recv() != nil {
		sel, ok := call.Fun.(*ast.SelectorExpr)
		if !ok {
			return "", nil, false
		}
		recvT := sig.Recv().Type()
		recvExpr := srcText(sel.X.Pos(), sel.X.End())
		// implicit address-of / dereference
		xt := info.TypeOf(sel.X)
		if xt == nil {
			return "", nil, false
		}
		_, wantPtr := recvT.(*types.Pointer)
		_, havePtr := xt.Underlying().(*types.Pointer)
		if _, isNamedPtr := xt.(*types.Pointer); isNamedPtr {
			havePtr = true
		}
		switch {
		case wantPtr && !havePtr:
			recvExpr = "&(" + recvExpr + ")"
		case !wantPtr && havePtr:
			recvExpr = "*(" + recvExpr + ")"
		}
		fmt.Fprintf(&sb, "var __p%s_recv %s = %s\n", id, tstr(recvT), recvExpr)
		binds = append(binds, bind{sig.Recv().Name(), fmt.Sprintf("__p%s_recv", id)})
	}
	if len(call.Args) != sig.Params().Len() {
		return "", nil, false // f(g()) multi-value forwarding
	}
	beta := map[string]string{} // parameter name -> statement text that replaces `param()`
	for i, a := range call.Args {
		if txt, ok := betaArg(fset, p, hi, call, i, a, srcText); ok {
			beta[sig.Params().At(i).Name()] = txt
			continue
		}
		fmt.Fprintf(&sb, "var __p%s_%d %s = %s\n", id, i, tstr(sig.Params().At(i).Type()), srcText(a.Pos(), a.End()))
		binds = append(binds, bind{sig.Params().At(i).Name(), fmt.Sprintf("__p%s_%d", id, i)})
	}
	if bad {
		return "", nil, false
	}
	sb.WriteString("{\n")
	for _, b := range binds {
		if b.name == "" || b.name == "_" {
			fmt.Fprintf(&sb, "_ = %s\n", b.tmp)
			continue
		}
		fmt.Fprintf(&sb, "%s := %s\n_ = %s\n", b.name, b.tmp, b.name)
	}
	// named results are ordinary variables of the body
	var resNames []string
	for i := 0; i < sig.Results().Len(); i++ {
		n := sig.Results().At(i).Name()
		resNames = append(resNames, n)
		if n != "" && n != "_" {
			fmt.Fprintf(&sb, "var %s %s\n_ = %s\n", n, tstr(sig.Results().At(i).Type()), n)
		}
	}
	// body with returns rewritten
	bodyText, hasRet, ok := rewriteReturns(fset, hi, helperSrc, id, sig.Results().Len(), direct, resNames, beta)
	if !ok {
		return "", nil, false
	}
	for name, txt := range beta {
		bodyText = strings.ReplaceAll(bodyText, "__BETA_"+id+"_"+name+"()", txt)
	}
	if direct {
		fmt.Fprintf(&sb, "%s\n", bodyText)
	} else if hasRet {
		// a labeled switch whose only clause is default: `break __L` leaves it, nothing loops
		fmt.Fprintf(&sb, "__L%s:\nswitch {\ndefault:\n%s\n}\n", id, bodyText)
	} else {
		fmt.Fprintf(&sb, "{\n%s\n}\n", bodyText)
	}
	sb.WriteString("}")
	return sb.String(), addImports, true
}

// callerScopeHas: the name resolves to anything at pos in the caller.
func callerScopeHas(info *types.Info, f *ast.File, pos token.Pos, name string) bool {
	sc := innermostScope(info, f, pos)
	if sc == nil {
		return true
	}
	_, obj := sc.LookupParent(name, pos)
	return obj != nil
}

// localShadows: at pos the name resolves to a local (function-level) object.
func localShadows(info *types.Info, f *ast.File, pos token.Pos, name string) bool {
	sc := innermostScope(info, f, pos)
	if sc == nil {
		return true
	}
	s, obj := sc.LookupParent(name, pos)
	if obj == nil {
		return false
	}
	// found in the file scope, the package scope or the universe: not a local
	if s == info.Scopes[f] || s == types.Universe {
		return false
	}
	if pk := obj.Pkg(); pk != nil && s == pk.Scope() {
		return false
	}
	return true
}

func innermostScope(info *types.Info, f *ast.File, pos token.Pos) *types.Scope {
	sc := info.Scopes[f]
	if sc == nil {
		return nil
	}
	return sc.Innermost(pos)
}

// rewriteReturns prints the helper's body (without the outer braces) with every
// return of the helper itself replaced by an assignment to the result
// variables and a break out of the wrapper loop.
func rewriteReturns(fset *token.FileSet, hi *helperInfo, helperSrc []byte, id string, nres int, direct bool, resNames []string, beta map[string]string) (string, bool, bool) {
	// re-parse the helper's file so that the original syntax tree stays untouched
	fs2 := token.NewFileSet()
	f2, err := parser.ParseFile(fs2, "helper.go", helperSrc, 0)
	if err != nil {
		return "", false, false
	}
	var fd *ast.FuncDecl
	wantOff := fileOffset(fset, hi.decl.Pos())
	for _, d := range f2.Decls {
		if x, ok := d.(*ast.FuncDecl); ok && fs2.Position(x.Pos()).Offset == wantOff {
			fd = x
		}
	}
	if fd == nil || fd.Body == nil {
		return "", false, false
	}
	hasRet := false
	var rewrite func(list []ast.Stmt) []ast.Stmt
	var rewriteStmt func(s ast.Stmt) ast.Stmt
	// deferred calls registered so far (top-level defers, in body order)
	var active []*ast.CallExpr
	runDeferred := func() []ast.Stmt {
		var out []ast.Stmt
		for i := len(active) - 1; i >= 0; i-- {
			out = append(out, &ast.ExprStmt{X: active[i]})
		}
		return out
	}
	mkBreak := func(ret *ast.ReturnStmt) ast.Stmt {
		hasRet = true
		brk := &ast.BranchStmt{Tok: token.BREAK, Label: ast.NewIdent("__L" + id)}
		var list []ast.Stmt
		if len(ret.Results) == 0 && nres > 0 {
			// bare return of named results
			for _, n := range resNames {
				if n == "" || n == "_" {
					return &ast.EmptyStmt{}
				}
				ret.Results = append(ret.Results, ast.NewIdent(n))
			}
		}
		if len(ret.Results) > 0 {
			var lhs []ast.Expr
			for i := 0; i < nres; i++ {
				lhs = append(lhs, ast.NewIdent(fmt.Sprintf("__r%s_%d", id, i)))
			}
			list = append(list, &ast.AssignStmt{Lhs: lhs, Tok: token.ASSIGN, Rhs: ret.Results})
		}
		list = append(list, runDeferred()...)
		list = append(list, brk)
		if len(list) == 1 {
			return brk
		}
		return &ast.BlockStmt{List: list}
	}
	rewriteStmt = func(s ast.Stmt) ast.Stmt {
		switch x := s.(type) {
		case *ast.ReturnStmt:
			return mkBreak(x)
		case *ast.ExprStmt:
			// a call of a function-typed parameter that is bound to a literal at this call site (betaArg)
			if c, ok := x.X.(*ast.CallExpr); ok && len(c.Args) == 0 {
				if idn, ok := c.Fun.(*ast.Ident); ok {
					if _, isBeta := beta[idn.Name]; isBeta {
						return &ast.ExprStmt{X: &ast.CallExpr{Fun: ast.NewIdent("__BETA_" + id + "_" + idn.Name)}}
					}
				}
			}
		case *ast.BlockStmt:
			x.List = rewrite(x.List)
		case *ast.IfStmt:
			x.Body.List = rewrite(x.Body.List)
			if x.Else != nil {
				x.Else = rewriteStmt(x.Else)
			}
		case *ast.ForStmt:
			x.Body.List = rewrite(x.Body.List)
		case *ast.RangeStmt:
			x.Body.List = rewrite(x.Body.List)
		case *ast.SwitchStmt:
			x.Body.List = rewrite(x.Body.List)
		case *ast.TypeSwitchStmt:
			x.Body.List = rewrite(x.Body.List)
		case *ast.SelectStmt:
			x.Body.List = rewrite(x.Body.List)
		case *ast.CaseClause:
			x.Body = rewrite(x.Body)
		case *ast.CommClause:
			x.Body = rewrite(x.Body)
		}
		return s
	}
	rewrite = func(list []ast.Stmt) []ast.Stmt {
		for i, s := range list {
			list[i] = rewriteStmt(s)
		}
		return list
	}
	if direct && len(beta) > 0 {
		fd.Body.List = rewriteDirectBeta(fd.Body.List, id, beta)
	}
	if !direct {
		var top []ast.Stmt
		for _, s := range fd.Body.List {
			if d, isD := s.(*ast.DeferStmt); isD {
				active = append(active, d.Call)
				continue
			}
			top = append(top, rewriteStmt(s))
		}
		// falling off the end of a function without results runs the deferred calls too
		if nres == 0 {
			top = append(top, runDeferred()...)
		}
		fd.Body.List = top
	}
	// a trailing `break __L` at the very end is harmless; print the statements
	var buf bytes.Buffer
	for _, s := range fd.Body.List {
		if err := printer.Fprint(&buf, fs2, s); err != nil {
			return "", false, false
		}
		buf.WriteString("\n")
	}
	return buf.String(), hasRet, true
}

var _ = ssa.Instruction(nil)

func hasTopDefer(fd *ast.FuncDecl) bool {
	for _, s := range fd.Body.List {
		if _, ok := s.(*ast.DeferStmt); ok {
			return true
		}
	}
	return false
}

func hasNamedResults(fd *ast.FuncDecl) bool {
	if fd.Type.Results == nil {
		return false
	}
	for _, f := range fd.Type.Results.List {
		if len(f.Names) > 0 {
			return true
		}
	}
	return false
}

// rewriteDirectBeta replaces `param()` statements in a body whose returns stay as they are.
func rewriteDirectBeta(list []ast.Stmt, id string, beta map[string]string) []ast.Stmt {
	for i, st := range list {
		ast.Inspect(st, func(n ast.Node) bool {
			es, ok := n.(*ast.ExprStmt)
			if !ok {
				return true
			}
			if c, ok := es.X.(*ast.CallExpr); ok && len(c.Args) == 0 {
				if idn, ok := c.Fun.(*ast.Ident); ok {
					if _, isBeta := beta[idn.Name]; isBeta {
						es.X = &ast.CallExpr{Fun: ast.NewIdent("__BETA_" + id + "_" + idn.Name)}
					}
				}
			}
			return true
		})
		list[i] = st
	}
	return list
}

// betaArg: argument i of the helper call is a niladic function literal (or a
// method value / function name) bound to a parameter of type func() that the
// helper only ever calls as a statement. Then `param()` can be replaced by the
// literal's body (or by a direct call) instead of going through a function
// value — the form a lock wrapper taking a closure (`withLock(func(){…})`) has
// after inlining is then exactly the code the closure was extracted from.
// Conditions: the literal has no return, defer, recover or labels of its own;
// no name the literal refers to is declared anew inside the helper, except a
// receiver/parameter that is bound to that very variable and never assigned.
func betaArg(fset *token.FileSet, p *packages.Package, hi *helperInfo, call *ast.CallExpr, i int, arg ast.Expr, srcText func(a, b token.Pos) string) (string, bool) {
	info := p.TypesInfo
	hinfo := hi.pkg.TypesInfo
	sig := hi.obj.Type().(*types.Signature)
	par := sig.Params().At(i)
	ps, ok := par.Type().Underlying().(*types.Signature)
	if !ok || ps.Params().Len() != 0 || ps.Results().Len() != 0 || par.Name() == "" || par.Name() == "_" {
		return "", false
	}
	// the parameter is only called, as a whole statement, and its name is declared once in the helper
	callOnly := true
	okStmt := map[*ast.Ident]bool{}
	ast.Inspect(hi.decl.Body, func(n ast.Node) bool {
		if es, ok := n.(*ast.ExprStmt); ok {
			if c, ok := es.X.(*ast.CallExpr); ok && len(c.Args) == 0 {
				if idn, ok := c.Fun.(*ast.Ident); ok {
					okStmt[idn] = true
				}
			}
		}
		return true
	})
	helperDecl := map[string]types.Object{}
	if sig.Recv() != nil && sig.Recv().Name() != "" {
		helperDecl[sig.Recv().Name()] = sig.Recv()
	}
	for k := 0; k < sig.Params().Len(); k++ {
		helperDecl[sig.Params().At(k).Name()] = sig.Params().At(k)
	}
	for k := 0; k < sig.Results().Len(); k++ {
		if n := sig.Results().At(k).Name(); n != "" {
			helperDecl[n] = sig.Results().At(k)
		}
	}
	assigned := map[types.Object]bool{}
	ast.Inspect(hi.decl.Body, func(n ast.Node) bool {
		switch x := n.(type) {
		case *ast.Ident:
			if obj := hinfo.Defs[x]; obj != nil {
				if x.Name == par.Name() {
					callOnly = false // redeclared
				}
				helperDecl[x.Name] = obj
			}
			if hinfo.Uses[x] == types.Object(par) && !okStmt[x] {
				callOnly = false
			}
		case *ast.AssignStmt:
			for _, l := range x.Lhs {
				if idn, ok := l.(*ast.Ident); ok {
					if o := hinfo.Uses[idn]; o != nil {
						assigned[o] = true
					}
				}
			}
		case *ast.IncDecStmt:
			if idn, ok := x.X.(*ast.Ident); ok {
				if o := hinfo.Uses[idn]; o != nil {
					assigned[o] = true
				}
			}
		case *ast.UnaryExpr:
			if idn, ok := x.X.(*ast.Ident); ok && x.Op == token.AND {
				if o := hinfo.Uses[idn]; o != nil {
					assigned[o] = true
				}
			}
		}
		return true
	})
	if !callOnly {
		return "", false
	}
	// does a name used by the argument collide with a declaration of the helper?
	actualOf := func(obj types.Object) ast.Expr {
		if sig.Recv() != nil && obj == types.Object(sig.Recv()) {
			if sel, ok := call.Fun.(*ast.SelectorExpr); ok {
				return sel.X
			}
		}
		for k := 0; k < sig.Params().Len(); k++ {
			if obj == types.Object(sig.Params().At(k)) && k < len(call.Args) {
				return call.Args[k]
			}
		}
		return nil
	}
	nameOK := func(idn *ast.Ident) bool {
		used := info.Uses[idn]
		if used == nil {
			return true
		}
		hd, clash := helperDecl[idn.Name]
		if !clash {
			return true
		}
		if a := actualOf(hd); a != nil && !assigned[hd] {
			if aid, ok := ast.Unparen(a).(*ast.Ident); ok && info.Uses[aid] == used {
				// the helper's name denotes the very same variable — unless its type differs (implicit & or *)
				return types.Identical(hd.Type(), used.Type())
			}
		}
		return false
	}
	switch a := ast.Unparen(arg).(type) {
	case *ast.FuncLit:
		if a.Type.Params != nil && len(a.Type.Params.List) > 0 || a.Type.Results != nil && len(a.Type.Results.List) > 0 {
			return "", false
		}
		ok := true
		var visit func(n ast.Node, nested bool)
		visit = func(n ast.Node, nested bool) {
			ast.Inspect(n, func(m ast.Node) bool {
				if !ok {
					return false
				}
				switch x := m.(type) {
				case *ast.FuncLit:
					if m != ast.Node(a) {
						visit(x.Body, true)
						return false
					}
				case *ast.ReturnStmt, *ast.DeferStmt, *ast.LabeledStmt:
					if !nested {
						ok = false
					}
				case *ast.BranchStmt:
					if !nested && (x.Label != nil || x.Tok == token.GOTO) {
						ok = false
					}
				case *ast.CallExpr:
					if idn, isID := x.Fun.(*ast.Ident); isID && idn.Name == "recover" {
						ok = false
					}
				case *ast.Ident:
					// free names only: objects declared outside the literal
					if obj := info.Uses[x]; obj != nil && !(obj.Pos() >= a.Pos() && obj.Pos() < a.End()) {
						if !nameOK(x) {
							ok = false
						}
					}
				}
				return true
			})
		}
		visit(a.Body, false)
		if !ok {
			return "", false
		}
		return "{\n" + srcText(a.Body.Lbrace+1, a.Body.Rbrace) + "\n}", true
	case *ast.SelectorExpr:
		x, isID := ast.Unparen(a.X).(*ast.Ident)
		if !isID || !nameOK(x) {
			return "", false
		}
		if sel := info.Selections[a]; sel != nil && sel.Kind() == types.MethodVal {
			if _, isVar := info.Uses[x].(*types.Var); isVar {
				return srcText(a.Pos(), a.End()) + "()", true
			}
		}
	case *ast.Ident:
		if fn, ok := info.Uses[a].(*types.Func); ok && fn.Pkg() == p.Types && fn.Parent() == p.Types.Scope() {
			if _, clash := helperDecl[a.Name]; !clash {
				return a.Name + "()", true
			}
		}
	}
	return "", false
}
