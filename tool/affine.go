package main

import (
	"fmt"
	"go/token"
	"go/types"
	"sort"
	"strings"

	"golang.org/x/tools/go/ssa"
)

// ---------------------------------------------------------------------------
// A3: affine forms over SSA integer values. const + Σ coef·atom, where atoms
// are len(param), parameters, field loads and opaque values. Used to compare
// sibling computations (predictor vs writer, writer layout vs reader layout).
// This is value numbering over a linear domain: no paths, no solver.

type Lin struct {
	C int64
	T map[string]int64
}

func linConst(c int64) Lin { return Lin{C: c, T: map[string]int64{}} }
func linAtom(a string) Lin { return Lin{T: map[string]int64{a: 1}} }

func (l Lin) add(o Lin, sign int64) Lin {
	out := Lin{C: l.C + sign*o.C, T: map[string]int64{}}
	for k, v := range l.T {
		out.T[k] = v
	}
	for k, v := range o.T {
		out.T[k] += sign * v
		if out.T[k] == 0 {
			delete(out.T, k)
		}
	}
	return out
}

func (l Lin) scale(k int64) Lin {
	out := Lin{C: l.C * k, T: map[string]int64{}}
	if k == 0 {
		return out
	}
	for a, v := range l.T {
		out.T[a] = v * k
	}
	return out
}

func (l Lin) isConst() (int64, bool) { return l.C, len(l.T) == 0 }

func (l Lin) String() string {
	var ks []string
	for k := range l.T {
		ks = append(ks, k)
	}
	sort.Strings(ks)
	var parts []string
	for _, k := range ks {
		if l.T[k] == 1 {
			parts = append(parts, k)
		} else {
			parts = append(parts, fmt.Sprintf("%d*%s", l.T[k], k))
		}
	}
	if l.C != 0 || len(parts) == 0 {
		parts = append(parts, fmt.Sprint(l.C))
	}
	return strings.Join(parts, " + ")
}

func (l Lin) equal(o Lin) bool { return l.String() == o.String() }

// linEnv customises atom naming: Rename maps a field atom ("F:T.f") to a
// role name so siblings that use different fields for the same role compare
// equal (recPos vs length → POS).
type linEnv struct {
	Rename map[string]string
	// Canon, when set, is consulted first: it may give a value a canonical
	// atom name (e.g. every variant of "the size of this record" -> SZ).
	Canon func(ssa.Value) (string, bool)
	depth int
}

func paramIndex(p *ssa.Parameter) int {
	for i, q := range p.Parent().Params {
		if q == p {
			return i
		}
	}
	return -1
}

// rootAtom names the thing whose length is taken.
func (env linEnv) rootAtom(v ssa.Value) string {
	for i := 0; i < 10; i++ {
		switch x := v.(type) {
		case *ssa.Parameter:
			return fmt.Sprintf("p%d", paramIndex(x))
		case *ssa.Slice:
			if x.Low == nil && x.High == nil {
				v = x.X
				continue
			}
			return "v:" + x.Name()
		case *ssa.ChangeType:
			v = x.X
			continue
		case *ssa.Convert:
			v = x.X
			continue
		case *ssa.UnOp:
			if x.Op == token.MUL {
				if f := fieldOfLoad(x); f != "" {
					return env.rename("F:" + f)
				}
			}
			return "v:" + x.Name()
		case *ssa.Field:
			if f := fieldOfLoad(x); f != "" {
				return env.rename("F:" + f)
			}
			return "v:" + x.Name()
		default:
			return "v:" + v.Name()
		}
	}
	return "v:" + v.Name()
}

func (env linEnv) rename(a string) string {
	if r, ok := env.Rename[a]; ok {
		return r
	}
	return a
}

// sliceLen returns the affine length of a slice value when it is evident
// (make with constant/affine size, slice of array with constant bounds).
func (env linEnv) sliceLen(v ssa.Value) (Lin, bool) {
	switch x := v.(type) {
	case *ssa.MakeSlice:
		return env.lin(x.Len), true
	case *ssa.Slice:
		// new [N]T (makeslice); slice t[:N]
		if al, ok := x.X.(*ssa.Alloc); ok {
			if arr, ok := al.Type().Underlying().(*types.Pointer).Elem().Underlying().(*types.Array); ok {
				hi := linConst(arr.Len())
				if x.High != nil {
					hi = env.lin(x.High)
				}
				lo := linConst(0)
				if x.Low != nil {
					lo = env.lin(x.Low)
				}
				return hi.add(lo, -1), true
			}
		}
		if x.Low == nil && x.High == nil {
			return env.sliceLen(x.X)
		}
		if x.Low != nil && x.High == nil {
			base, ok := env.sliceLen(x.X)
			if ok {
				return base.add(env.lin(x.Low), -1), true
			}
			return linAtom("len("+env.rootAtom(x.X)+")").add(env.lin(x.Low), -1), true
		}
		if x.High != nil {
			lo := linConst(0)
			if x.Low != nil {
				lo = env.lin(x.Low)
			}
			return env.lin(x.High).add(lo, -1), true
		}
	case *ssa.ChangeType:
		return env.sliceLen(x.X)
	case *ssa.Convert:
		return env.sliceLen(x.X)
	}
	return Lin{}, false
}

// lin normalises an integer SSA value.
func (env linEnv) lin(v ssa.Value) Lin {
	if env.Canon != nil {
		if a, ok := env.Canon(v); ok {
			return linAtom(a)
		}
	}
	switch x := v.(type) {
	case *ssa.Const:
		if c, ok := intConst(x); ok {
			return linConst(c)
		}
	case *ssa.Convert:
		return env.lin(x.X)
	case *ssa.ChangeType:
		return env.lin(x.X)
	case *ssa.Parameter:
		return linAtom(fmt.Sprintf("p%d", paramIndex(x)))
	case *ssa.BinOp:
		switch x.Op {
		case token.ADD:
			return env.lin(x.X).add(env.lin(x.Y), 1)
		case token.SUB:
			return env.lin(x.X).add(env.lin(x.Y), -1)
		case token.MUL:
			a, b := env.lin(x.X), env.lin(x.Y)
			if c, ok := a.isConst(); ok {
				return b.scale(c)
			}
			if c, ok := b.isConst(); ok {
				return a.scale(c)
			}
			as, bs := a.String(), b.String()
			if as > bs {
				as, bs = bs, as
			}
			return linAtom("(" + as + ")*(" + bs + ")")
		case token.QUO:
			return linAtom("(" + env.lin(x.X).String() + ")/(" + env.lin(x.Y).String() + ")")
		case token.XOR, token.AND_NOT:
			// size ^ deletedBit / size &^ deletedBit under a "bit is set" guard: opaque but structural
			return linAtom("(" + env.lin(x.X).String() + ")" + x.Op.String() + "(" + env.lin(x.Y).String() + ")")
		}
	case *ssa.UnOp:
		if x.Op == token.MUL {
			if f := fieldOfLoad(x); f != "" {
				return linAtom(env.rename("F:" + f))
			}
		}
	case *ssa.Field:
		if f := fieldOfLoad(x); f != "" {
			return linAtom(env.rename("F:" + f))
		}
	case *ssa.Call:
		name := cname(x)
		switch name {
		case "builtin.len":
			if l, ok := env.sliceLen(x.Call.Args[0]); ok {
				return l
			}
			return linAtom("len(" + env.rootAtom(x.Call.Args[0]) + ")")
		}
		if f := x.Call.StaticCallee(); f != nil && f.Blocks != nil && env.depth < 2 {
			// inline single-return affine helpers (e.g. NextPos)
			rets := returnsOf(f)
			if len(rets) == 1 && len(rets[0].Results) == 1 {
				sub := linEnv{Rename: env.Rename, Canon: env.Canon, depth: env.depth + 1}
				l := sub.lin(rets[0].Results[0])
				// substitute parameters by the call's arguments
				out := linConst(l.C)
				okAll := true
				for a, k := range l.T {
					if strings.HasPrefix(a, "p") && !strings.Contains(a, ":") {
						var idx int
						if _, err := fmt.Sscanf(a, "p%d", &idx); err == nil && idx < len(x.Call.Args) {
							out = out.add(env.lin(x.Call.Args[idx]).scale(k), 1)
							continue
						}
					}
					if strings.HasPrefix(a, "len(p") {
						var idx int
						if _, err := fmt.Sscanf(a, "len(p%d)", &idx); err == nil && idx < len(x.Call.Args) {
							if sl, ok := env.sliceLen(x.Call.Args[idx]); ok {
								out = out.add(sl.scale(k), 1)
							} else {
								out = out.add(linAtom("len("+env.rootAtom(x.Call.Args[idx])+")").scale(k), 1)
							}
							continue
						}
					}
					if strings.HasPrefix(a, "F:") {
						out = out.add(linAtom(a).scale(k), 1)
						continue
					}
					okAll = false
				}
				if okAll {
					return out
				}
			}
		}
		var args []string
		for _, a := range x.Call.Args {
			if _, isInt := a.Type().Underlying().(*types.Basic); isInt {
				args = append(args, env.lin(a).String())
			} else {
				args = append(args, env.rootAtom(a))
			}
		}
		return linAtom("call:" + name + "(" + strings.Join(args, ",") + ")")
	}
	return linAtom("v:" + v.Name() + "@" + valueFunc(v))
}

func valueFunc(v ssa.Value) string {
	if in, ok := v.(ssa.Instruction); ok && in.Parent() != nil {
		return in.Parent().Name()
	}
	return ""
}

// cmpNorm normalises a comparison to (op, lhs, rhs) with op in {<, <=, ==, !=}
// by swapping operands of > and >=.
func cmpNorm(env linEnv, b *ssa.BinOp) (string, Lin, Lin, bool) {
	x, y := env.lin(b.X), env.lin(b.Y)
	switch b.Op {
	case token.GEQ:
		return "<=", y, x, true
	case token.GTR:
		return "<", y, x, true
	case token.LEQ:
		return "<=", x, y, true
	case token.LSS:
		return "<", x, y, true
	case token.EQL:
		return "==", x, y, true
	case token.NEQ:
		return "!=", x, y, true
	}
	return "", x, y, false
}

// guardingIf returns the innermost If whose branch (idx) dominates block b: the
// closest dominator d of b ending in an If such that b is only reachable
// through one of its successors.
func guardingIf(b *ssa.BasicBlock) (*ssa.If, int) {
	for d := b.Idom(); d != nil; d = d.Idom() {
		ifi, ok := lastInstr(d).(*ssa.If)
		if !ok {
			continue
		}
		for i, s := range d.Succs {
			if len(s.Preds) == 1 && (s == b || s.Dominates(b)) {
				return ifi, i
			}
		}
	}
	return nil, 0
}
