package main

import (
	"fmt"
	"go/token"
	"strings"

	"golang.org/x/tools/go/ssa"
)

// R-RELOC-FRESH: relocation may re-point a key only if the index still names
// the record being moved.
func ruleRelocFresh(r *Report) {
	const rule = "reloc-fresh"
	fn := r.need(rule, "M", "(*primaryGC).reapRecords")
	if fn == nil {
		return
	}
	sites := callSites(fn, "field:primaryGC.updateIndex")
	if len(sites) == 0 {
		r.Bad(rule, "(*primaryGC).reapRecords/updateIndex", fn.Pos(), "relocation never re-points the index (no call through primaryGC.updateIndex)")
		return
	}
	for _, s := range sites {
		callees := r.E.Callees(s)
		if len(callees) == 0 {
			r.Undecided(rule, "callee of primaryGC.updateIndex not resolved by the call graph")
			continue
		}
		for _, c := range callees {
			// look through the bound-method wrapper
			targets := []*ssa.Function{c}
			if c.Synthetic != "" {
				targets = nil
				for _, in := range allCalls(c) {
					if f := in.Common().StaticCallee(); f != nil && f.Blocks != nil {
						targets = append(targets, f)
					}
				}
			}
			for _, t := range targets {
				r.fn(t)
				puts := callSites(t, "(index.RecordList).PutKeys")
				if len(puts) == 0 {
					r.Undecided(rule, shortFunc(t)+": no PutKeys call found in the function bound to updateIndex")
					continue
				}
				// a comparison between the location the index currently holds
				// (the found record's Block) and something passed in by the caller
				cas := condEdges(t, func(cond ssa.Value) (bool, bool) {
					bo, ok := cond.(*ssa.BinOp)
					if !ok || (bo.Op != token.EQL && bo.Op != token.NEQ) {
						return false, false
					}
					isCur := func(v ssa.Value) bool {
						return derives(v, flowOpts{}, func(x ssa.Value) bool {
							f := fieldOfLoad(x)
							return f == "KeyPositionPair.Block" || f == "Record.KeyPositionPair" || (f == "Block.Offset" && derives(x, flowOpts{}, isCallTo("(index.RecordList).GetRecord")))
						}) && derives(v, flowOpts{}, isCallTo("(index.RecordList).GetRecord"))
					}
					isExpected := func(v ssa.Value) bool {
						return derives(v, flowOpts{}, func(x ssa.Value) bool {
							p, ok := x.(*ssa.Parameter)
							return ok && p.Parent() == t
						}) && !isCur(v)
					}
					if !(isCur(bo.X) && isExpected(bo.Y)) && !(isCur(bo.Y) && isExpected(bo.X)) {
						return false, false
					}
					if bo.Op == token.EQL {
						return true, false
					}
					return false, true
				})
				for _, p := range puts {
					ok, _ := guarded(t, p, mkEdgeSet(cas), nil)
					key := "(*primaryGC).reapRecords/updateIndex"
					if ok && len(cas) > 0 {
						r.Ok(rule, key, s.Pos(), "the re-point in "+shortFunc(t)+" is conditioned on the index still holding the location being moved (compare-and-swap shape)")
					} else {
						r.Bad(rule, key, s.Pos(), "relocation re-points the index unconditionally ("+shortFunc(t)+" replaces whatever location the key currently has): a Put(K,v2) that lands between the freelist pass and the relocation of K's old record is overwritten — Get(K) returns v1 after an acknowledged v2")
					}
				}
			}
		}
	}
	r.Min(rule, 1)
}

// boundUpdateIndex resolves the functions bound to primaryGC.updateIndex at
// the relocation call sites (through the call graph and bound-method wrappers).
func boundUpdateIndex(r *Report, rule string) (sites []ssa.CallInstruction, targets []*ssa.Function) {
	fn := r.need(rule, "M", "(*primaryGC).reapRecords")
	if fn == nil {
		return nil, nil
	}
	sites = callSites(fn, "field:primaryGC.updateIndex")
	seen := map[*ssa.Function]bool{}
	for _, s := range sites {
		callees := r.E.Callees(s)
		if len(callees) == 0 {
			r.Undecided(rule, "callee of primaryGC.updateIndex not resolved by the call graph")
			continue
		}
		for _, c := range callees {
			ts := []*ssa.Function{c}
			if c.Synthetic != "" {
				ts = nil
				for _, in := range allCalls(c) {
					if f := in.Common().StaticCallee(); f != nil && f.Blocks != nil {
						ts = append(ts, f)
					}
				}
			}
			for _, t := range ts {
				if !seen[t] {
					seen[t] = true
					targets = append(targets, t)
				}
			}
		}
	}
	return sites, targets
}

// R-RELOC-BINDING: the function the store binds to the collector's
// updateIndex callback reports success only when it has re-pointed the key:
// every nil-error return lies behind a store into the index's write pool.
// (Index.Put has the same signature but silently does nothing for a key that
// is already present; the collector would then free the old copy while the
// index still names it.)
func ruleRelocBinding(r *Report) {
	const rule = "reloc-binding"
	sites, targets := boundUpdateIndex(r, rule)
	if len(sites) == 0 {
		if r.E.Func("M", "(*primaryGC).reapRecords") != nil {
			r.Bad(rule, "(*primaryGC).reapRecords/updateIndex", token.NoPos, "relocation never re-points the index (no call through primaryGC.updateIndex)")
		}
		return
	}
	for _, t := range targets {
		r.fn(t)
		stores := map[ssa.Instruction]bool{}
		for _, f := range famFuncs(t) {
			eachInstr(f, func(in ssa.Instruction) {
				if mu, ok := in.(*ssa.MapUpdate); ok && fieldOfLoad(mu.Map) == "Index.nextPool" {
					stores[in] = true
				}
			})
		}
		succ, _ := classifyReturns(t)
		if len(succ) == 0 {
			r.Bad(rule, "updateIndex="+shortFunc(t)+"/success-means-repointed", t.Pos(), "the function bound to updateIndex has no success return")
			continue
		}
		for _, ret := range succ {
			ok, path := precededBy(t, ret, stores, nil)
			if ok && len(stores) > 0 {
				r.Ok(rule, "updateIndex="+shortFunc(t)+"/success-means-repointed", ret.Pos(), "success is reported only after the bucket's new record list was stored in the write pool")
			} else {
				r.BadPath(rule, "updateIndex="+shortFunc(t)+"/success-means-repointed", ret.Pos(), "the function bound to the collector's updateIndex callback can report success without having stored anything (e.g. Index.Put is a silent no-op for a key that is already present): the collector then frees the old copy while the index still names it — after the next cycle the key reads absent or as an error", path)
			}
		}
	}
	r.Min(rule, 1)
}

func init() {
	register("C06", func(r *Report) {
		la, rt := runLockAnalysis(r, "race")
		reportRaces(r, la, rt, "race", nil, nil)
		r.Min("race", 25)
		reportLockOrder(r, la, "lock-order")
		r.Min("lock-order", 5)
		ruleGCMarkGuard(r)
		ruleGCNotCurrent(r)
		ruleRelocFresh(r)
		ruleRelocBinding(r)
		ruleToGC(r)
		ruleGCFlushFirst(r)
		ruleRetain(r)
		// a collector that is wrong sequentially also disturbs concurrent callers;
		// files the collector removes/truncates may be lent out by the file cache
		r.support(grpGC, grpCache, grpPools, []string{"atomic-rmw", "published-bytes-immutable", "commit-order", "flush-callers", "splice", "match-last", "pos-codec", "go-handshake"})
	},
		"Decides structural necessary conditions of 'concurrent GC never disturbs callers', not the behaviour over all interleavings: no unprotected conflicting access pair between the public calls, the flusher and both collectors (lockset analysis incl. the GC roots); lock order acyclic; index GC marks only on the busy()==false edge, busy under bucketLk; GC only touches files whose number is dominated by a != current test against a snapshot taken under flushLock (and, for the free-file scan, taken before the bucket scan); the freelist hand-over runs in one exclusive flushLock section; relocation hands stable buffers to the primary; relocation may re-point a key only if the index still names the moved record (compare-and-swap shape) — violated on the current tree and reported as known finding KF-2. Not covered: the reader-holds-position window (Index.Get dereferences a bucket position after releasing the lock), timing.")
}

// ---------------------------------------------------------------------------
// C07 helpers

// R-FIRSTFILE-GUARD: FirstFile advances only past a file shown empty.
func ruleFirstFileGuard(r *Report) {
	const rule = "firstfile-guard"
	type gcfn struct {
		alias, name string
		reap        string // call whose true result shows the file empty ("" = busySet lookup)
	}
	for _, g := range []gcfn{{"I", "(*Index).gc", "(*index.Index).reapIndexRecords"}, {"I", "(*Index).truncateFreeFiles", ""}, {"M", "(*primaryGC).gc", "(*mhprimary.primaryGC).reapRecords"}} {
		fn := r.need(rule, g.alias, g.name)
		if fn == nil {
			continue
		}
		eqEdges, eqOthers := firstFileEqEdges(fn)
		n := 0
		for _, st := range fieldStores(fn, "Header.FirstFile") {
			l := linEnv{}.lin(st.Val)
			if !(l.T["F:Header.FirstFile"] == 1 && l.C == 1) {
				r.Bad(rule, shortFunc(fn)+"/FirstFile-step", instrPos(st), "header.FirstFile is changed by something other than +1: "+l.String())
				continue
			}
			n++
			var fileNums []ssa.Value
			var empty []Edge
			if g.reap != "" {
				for _, c := range callSites(fn, g.reap) {
					rc := asCall(c)
					if rc == nil {
						continue
					}
					fileNums = append(fileNums, rc.Call.Args[idxOfFileArg(rc)])
					empty = append(empty, trueEdgesOf(fn, resultValues(rc, 0))...)
				}
			} else {
				eachInstr(fn, func(in ssa.Instruction) {
					lk, ok := in.(*ssa.Lookup)
					if !ok || !lk.CommaOk {
						return
					}
					if _, isMap := lk.X.(*ssa.MakeMap); !isMap {
						if _, isPhi := lk.X.(*ssa.Phi); !isPhi {
							return
						}
					}
					fileNums = append(fileNums, lk.Index)
					set := map[ssa.Value]bool{}
					for _, v := range extractOf(lk, 1) {
						set[v] = true
					}
					empty = append(empty, condEdges(fn, func(cond ssa.Value) (bool, bool) {
						if set[cond] {
							return false, true
						}
						return false, false
					})...)
				})
			}
			okE, pathE := guarded(fn, st, mkEdgeSet(empty), nil)
			if okE && len(empty) > 0 {
				r.Ok(rule, shortFunc(fn)+"/FirstFile++/file-shown-empty", instrPos(st), "FirstFile advances only on the edge where this file was shown empty/unreferenced")
			} else {
				r.BadPath(rule, shortFunc(fn)+"/FirstFile++/file-shown-empty", instrPos(st), "header.FirstFile can advance without the file having been shown empty (reap result true / no bucket refers into it): the header would exceed the oldest file still referenced and recovery would skip live records", pathE)
			}
			// same file number in the emptiness evidence and in the FirstFile == fileNum test
			match := false
			for _, o := range eqOthers {
				for _, f := range fileNums {
					if sameValue(stripIntConv(o), stripIntConv(f)) {
						match = true
					}
				}
			}
			okQ, pathQ := guarded(fn, st, mkEdgeSet(eqEdges), nil)
			if okQ && match {
				r.Ok(rule, shortFunc(fn)+"/FirstFile++/is-that-file", instrPos(st), "and only when header.FirstFile equals the number of that very file")
			} else {
				r.BadPath(rule, shortFunc(fn)+"/FirstFile++/is-that-file", instrPos(st), "header.FirstFile advances although the file shown empty is not (known to be) the header's first file: FirstFile would skip a file that still holds live records, and a file in the middle of the sequence is unlinked", pathQ)
			}
		}
		if n == 0 {
			r.Bad(rule, shortFunc(fn)+"/FirstFile++", fn.Pos(), "this GC function never advances header.FirstFile")
		}
	}
	r.Min(rule, 6)
}

// R-MERGE-FRAMING: a merged free span grows by exactly the bytes the scanner
// advances over, so the log stays correctly framed for the next scan.
func ruleMergeFraming(r *Report) {
	const rule = "merge-framing"
	for _, t := range [][2]string{{"I", "(*Index).reapIndexRecords"}, {"M", "(*primaryGC).reapRecords"}} {
		fn := r.need(rule, t[0], t[1])
		if fn == nil {
			continue
		}
		sws := findSizeWords(fn)
		if len(sws) == 0 {
			r.Undecided(rule, shortFunc(fn)+": no size word")
			continue
		}
		sw := sws[0]
		// the scan cursor: position argument of the ReadAt that filled the size buffer
		var cursor *ssa.Phi
		for _, ra := range callSites(fn, "(*os.File).ReadAt") {
			if rootBuffer(ra.Common().Args[1]) == sw.buf && instrDominates(ra, sw.call) {
				cursor, _ = stripIntConv(ra.Common().Args[2]).(*ssa.Phi)
			}
		}
		if cursor == nil {
			r.Undecided(rule, shortFunc(fn)+": scan cursor is not a loop variable")
			continue
		}
		canon := func(v ssa.Value) (string, bool) {
			if v == ssa.Value(cursor) {
				return "POS", true
			}
			if isSizeOfRecord(v, sw, map[ssa.Value]bool{}) {
				if _, isConst := v.(*ssa.Const); !isConst {
					return "SZ", true
				}
			}
			return "", false
		}
		env := linEnv{Canon: canon}
		// advances of the cursor
		var advances []Lin
		for i, e := range cursor.Edges {
			pred := cursor.Block().Preds[i]
			if !cursor.Block().Dominates(pred) {
				continue // loop entry
			}
			l := env.lin(e)
			if l.T["POS"] != 1 {
				r.Bad(rule, shortFunc(fn)+"/cursor-advance", instrPos(lastInstr(pred)), "the scan cursor is not advanced relative to its previous value: "+l.String())
				continue
			}
			advances = append(advances, l.add(linAtom("POS"), -1))
		}
		if len(advances) == 0 {
			r.Undecided(rule, shortFunc(fn)+": no cursor advance found")
			continue
		}
		adv := advances[0]
		for _, a := range advances[1:] {
			if !a.equal(adv) {
				r.Bad(rule, shortFunc(fn)+"/cursor-advance", fn.Pos(), fmt.Sprintf("the scan cursor advances by different amounts on different paths: [%s] vs [%s]", adv, a))
			}
		}
		want := linConst(4).add(linAtom("SZ"), 1)
		r.Check(adv.equal(want), rule, shortFunc(fn)+"/cursor-advance", fn.Pos(), "the scanner advances by size prefix + record size ["+adv.String()+"]", "the scanner does not advance by 4 + record size: ["+adv.String()+"]")
		// the merged-span size variable: what is OR-ed with the deleted bit and written back
		var merged []ssa.Value
		for _, pu := range callSites(fn, "(encoding/binary.littleEndian).PutUint32") {
			if bo, ok := stripIntConv(pu.Common().Args[2]).(*ssa.BinOp); ok && bo.Op == token.OR {
				if k, isC := intConst(stripIntConv(bo.Y)); isC && k == deletedBitValue {
					merged = append(merged, stripIntConv(bo.X))
				} else if k, isC := intConst(stripIntConv(bo.X)); isC && k == deletedBitValue {
					merged = append(merged, stripIntConv(bo.Y))
				}
			}
		}
		// every ADD in the backward phi/ADD slice of the merged size that adds to a phi of that slice
		seen := map[ssa.Value]bool{}
		var adds []*ssa.BinOp
		var walk func(v ssa.Value)
		walk = func(v ssa.Value) {
			v = stripIntConv(v)
			if seen[v] {
				return
			}
			seen[v] = true
			switch x := v.(type) {
			case *ssa.Phi:
				for _, e := range x.Edges {
					walk(e)
				}
			case *ssa.BinOp:
				if x.Op == token.ADD {
					if _, isPhi := stripIntConv(x.X).(*ssa.Phi); isPhi {
						adds = append(adds, x)
						walk(x.X)
					}
				}
			}
		}
		for _, m := range merged {
			walk(m)
		}
		// adjacency evidence: the free span's start (what is truncated at / written at) is greater than
		// the position of the last live record — a strict comparison between two positions, not a test
		// against a constant
		var spanStarts []ssa.Value
		for _, c := range callSites(fn, "(*os.File).Truncate", "os.Truncate", "(*os.File).WriteAt") {
			a := c.Common().Args
			spanStarts = append(spanStarts, stripIntConv(a[len(a)-1]))
		}
		isSpanStart := func(v ssa.Value) bool {
			v = stripIntConv(v)
			for _, sv := range spanStarts {
				if sameValue(v, sv) {
					return true
				}
			}
			return false
		}
		adjacent := condEdges(fn, func(cond ssa.Value) (bool, bool) {
			bo, ok := cond.(*ssa.BinOp)
			if !ok {
				return false, false
			}
			_, xc := stripIntConv(bo.X).(*ssa.Const)
			_, yc := stripIntConv(bo.Y).(*ssa.Const)
			if xc || yc {
				return false, false
			}
			switch {
			case bo.Op == token.GTR && isSpanStart(bo.X), bo.Op == token.LSS && isSpanStart(bo.Y):
				return true, false
			case bo.Op == token.LEQ && isSpanStart(bo.X), bo.Op == token.GEQ && isSpanStart(bo.Y):
				return false, true
			}
			return false, false
		})
		n := 0
		for _, a := range adds {
			phi := stripIntConv(a.X).(*ssa.Phi)
			if phi == cursor || !seen[phi] {
				continue
			}
			inc := env.lin(a.Y)
			n++
			if ok, path := guarded(fn, a, mkEdgeSet(adjacent), nil); ok && len(adjacent) > 0 {
				r.Ok(rule, shortFunc(fn)+"/merge-only-adjacent", a.Pos(), "a free record is merged into the previous span only when that span starts after the last live record")
			} else {
				r.BadPath(rule, shortFunc(fn)+"/merge-only-adjacent", a.Pos(), "a free record can be merged into an earlier free span without evidence that no live record lies between them (span start > last live position): the merged size word then covers a live record, which the next scan skips, treats as free and truncates or unlinks", path)
			}
			if inc.equal(adv) {
				r.Ok(rule, shortFunc(fn)+"/merge-grows-by-advance", a.Pos(), "a merged free span grows by exactly what the scanner advances over ["+inc.String()+"]")
			} else {
				r.Bad(rule, shortFunc(fn)+"/merge-grows-by-advance", a.Pos(), fmt.Sprintf("a merged free span grows by [%s] but the scanner advances by [%s] over the merged record: the span's size word no longer frames the log, the next scan (GC or recovery) misparses what follows, truncates live record lists and advances FirstFile past referenced files", inc, adv))
			}
		}
		if n == 0 {
			r.Bad(rule, shortFunc(fn)+"/merge-grows-by-advance", fn.Pos(), "no merge of adjacent free records found: the rule cannot be evaluated")
		}
	}
	r.Min(rule, 8)
}

// isSizeOfRecord: v is the size word sw, possibly converted, with the deleted
// bit cleared, or a phi of such values.
func isSizeOfRecord(v ssa.Value, sw *sizeWord, seen map[ssa.Value]bool) bool {
	v = stripIntConv(v)
	if seen[v] {
		return true
	}
	seen[v] = true
	switch x := v.(type) {
	case *ssa.Call:
		return x == sw.call
	case *ssa.Phi:
		if len(x.Edges) == 0 {
			return false
		}
		for _, e := range x.Edges {
			if !isSizeOfRecord(e, sw, seen) {
				return false
			}
		}
		return true
	case *ssa.BinOp:
		if x.Op == token.XOR || x.Op == token.AND_NOT {
			if k, ok := intConst(stripIntConv(x.Y)); ok && k == deletedBitValue {
				return isSizeOfRecord(x.X, sw, seen)
			}
		}
	}
	return false
}

// R-RESCAN-APPLIES-ALL: the recovery scan applies every non-deleted record.
func ruleRescanAppliesAll(r *Report) {
	const rule = "rescan-applies-all"
	fn := r.need(rule, "I", "scanIndexFile")
	if fn == nil {
		return
	}
	sws := findSizeWords(fn)
	puts := instrSet(callSites(fn, "(index.Buckets).Put"))
	if len(sws) == 0 || len(puts) == 0 {
		r.Bad(rule, "scanIndexFile/shape", fn.Pos(), "size word or bucket update not found in the rescan")
		return
	}
	sw := sws[0]
	var sizeRead ssa.Instruction
	for _, ra := range callSites(fn, "(*os.File).ReadAt") {
		if rootBuffer(ra.Common().Args[1]) == sw.buf && instrDominates(ra, sw.call) {
			sizeRead = ra
		}
	}
	if sizeRead == nil {
		r.Undecided(rule, "scanIndexFile: size-word read not found")
		return
	}
	for ed := range sw.live {
		ed := ed
		reach, path := Search{Fn: fn, FromEdge: &ed, Target: isInstr(sizeRead), Avoid: anyOf(puts)}.Run()
		if reach {
			r.BadPath(rule, "scanIndexFile/every-live-record-applied", sizeRead.Pos(), "the rescan can move on to the next record without applying a non-deleted record to the bucket table (e.g. skipping small/empty record lists): replay then differs from the live table — an empty list written by the last Remove in a bucket is the tombstone, skipping it resurrects the removed key", path)
		} else {
			r.Ok(rule, "scanIndexFile/every-live-record-applied", sizeRead.Pos(), "every non-deleted record reaches buckets.Put (or an error/stop) before the next record is read")
		}
	}
	// the position applied is checked by snapshot/posconv; the bucket applied is the record's own prefix
	for p := range puts {
		a := p.(ssa.CallInstruction).Common().Args
		r.Check(derives(a[1], flowOpts{}, isCallTo("(encoding/binary.littleEndian).Uint32")), rule, "scanIndexFile/bucket-from-record", p.Pos(), "the bucket updated is the prefix stored in the record", "the bucket updated by the rescan is not decoded from the record")
	}
	r.Min(rule, 2)
}

// R-FC-REMOVED-WRITES: the table of handles still lent out is only shrunk by
// their own last release.
func ruleFCRemovedWrites(r *Report) {
	const rule = "fc-removed-writes"
	n := 0
	var fcFuncs []*ssa.Function
	for _, fn := range moduleFuncs(r.E) {
		root := fn
		for root.Parent() != nil {
			root = root.Parent()
		}
		if root.Pkg != nil && root.Pkg.Pkg.Path() == pkgAlias["FC"] {
			fcFuncs = append(fcFuncs, fn)
		}
	}
	for _, fn := range fcFuncs {
		for _, st := range fieldStores(fn, "FileCache.removed") {
			if isLocalAlloc(st.Addr.(*ssa.FieldAddr).X) {
				continue
			}
			n++
			if isNilConst(st.Val) {
				// only when the map was found empty
				emp := condEdges(fn, func(cond ssa.Value) (bool, bool) {
					bo, ok := cond.(*ssa.BinOp)
					if !ok || (bo.Op != token.EQL && bo.Op != token.NEQ) {
						return false, false
					}
					isLen := func(v ssa.Value) bool {
						c, ok := v.(*ssa.Call)
						return ok && cname(c) == "builtin.len" && fieldOfLoad(c.Call.Args[0]) == "FileCache.removed"
					}
					if !(isLen(bo.X) && isZeroConst(bo.Y)) && !(isLen(bo.Y) && isZeroConst(bo.X)) {
						return false, false
					}
					if bo.Op == token.EQL {
						return true, false
					}
					return false, true
				})
				ok, path := guarded(fn, st, mkEdgeSet(emp), nil)
				if ok && len(emp) > 0 {
					r.Ok(rule, shortFunc(fn)+"/removed=nil", instrPos(st), "the removed table is dropped only when it was found empty")
				} else {
					r.BadPath(rule, shortFunc(fn)+"/removed=nil", instrPos(st), "FileCache.removed is discarded while it may still hold handles that are lent out: their next Close no longer finds them, falls through to the unmanaged branch and closes the descriptor under the other borrowers", path)
				}
				continue
			}
			if _, isMake := st.Val.(*ssa.MakeMap); isMake {
				nl := nilEdges(fn, func(v ssa.Value) bool { return fieldOfLoad(v) == "FileCache.removed" }, false)
				ok, path := guarded(fn, st, mkEdgeSet(nl), nil)
				if ok && len(nl) > 0 {
					r.Ok(rule, shortFunc(fn)+"/removed=make", instrPos(st), "a new removed table is created only when there was none")
				} else {
					r.BadPath(rule, shortFunc(fn)+"/removed=make", instrPos(st), "FileCache.removed is replaced by a new map although it may hold lent-out handles", path)
				}
				continue
			}
			r.Bad(rule, shortFunc(fn)+"/removed-store", instrPos(st), "unrecognised assignment to FileCache.removed")
		}
		// delete(c.removed, f) only for the last holder
		for _, d := range callSites(fn, "builtin.delete") {
			if fieldOfLoad(d.Common().Args[0]) != "FileCache.removed" {
				continue
			}
			n++
			var rem *ssa.Lookup
			for _, lk := range lookupsOn(fn, "removed") {
				if lk.Index == d.Common().Args[1] {
					rem = lk
				}
			}
			ok := false
			var path []*ssa.BasicBlock
			if rem != nil {
				refsVals := map[ssa.Value]bool{}
				for _, v := range extractOf(rem, 0) {
					refsVals[v] = true
				}
				one := cmpConstEdges(fn, func(v ssa.Value) bool { return refsVals[v] }, 1, true)
				ok, path = guarded(fn, d, mkEdgeSet(one), nil)
				ok = ok && len(one) > 0
			}
			if ok {
				r.Ok(rule, shortFunc(fn)+"/delete-removed", d.Pos(), "a handle leaves the removed table only when its remaining count is 1")
			} else {
				r.BadPath(rule, shortFunc(fn)+"/delete-removed", d.Pos(), "a handle is deleted from FileCache.removed without its remaining count having been found to be 1", path)
			}
		}
	}
	if n < 3 {
		r.Bad(rule, "inventory", token.NoPos, fmt.Sprintf("found %d writes to FileCache.removed, expected at least 3", n))
	}
	r.Min(rule, 3)
}

// componentClearsCache: a component's Close clears the file cache it was given.
func ruleComponentClearsCache(r *Report, rule string) {
	for _, c := range []struct{ alias, typ, field string }{{"I", "Index", "Index.fileCache"}, {"M", "MultihashPrimary", "MultihashPrimary.fileCache"}} {
		top := r.need(rule, c.alias, "(*"+c.typ+").Close")
		if top == nil {
			continue
		}
		ok := false
		var pos token.Pos = top.Pos()
		for _, f := range withAnons(top) {
			clears := func(in ssa.Instruction) bool {
				ci, isCall := in.(ssa.CallInstruction)
				return isCall && cname(ci) == "(*filecache.FileCache).Clear" && receiverField(ci) == c.field
			}
			has := false
			eachInstr(f, func(in ssa.Instruction) {
				if clears(in) {
					has = true
					pos = in.Pos()
				}
			})
			if !has {
				continue
			}
			// on every path that closes the component's data file the cache is cleared too
			okAll := true
			nClose := 0
			for _, cl := range callSites(f, "(*os.File).Close") {
				if receiverField(cl) != c.typ+".file" {
					continue
				}
				nClose++
				clearSet := map[ssa.Instruction]bool{}
				eachInstr(f, func(in ssa.Instruction) {
					if clears(in) {
						clearSet[in] = true
					}
				})
				before, _ := precededBy(f, cl, clearSet, nil)
				after, _ := followedBy(f, cl, nil, clears, nil)
				if !before && !after {
					okAll = false
				}
			}
			if okAll && nClose > 0 {
				ok = true
			}
		}
		r.Check(ok, rule, c.typ+".Close/clears-file-cache", pos, "the component's Close clears the file cache it reads through, on every path",
			"the component's Close does not clear its file cache on every path: descriptors of (possibly deleted) data files stay open after Close — e.g. the private caches of a translated index leak on every translating reopen")
	}
}

// boundSnapshotBeforeScan: in truncateFreeFiles the bound of the loop is read
// before the bucket table is scanned.
func ruleBoundBeforeScan(r *Report, rule string) {
	fn := r.need(rule, "I", "(*Index).truncateFreeFiles")
	if fn == nil {
		return
	}
	var scans []ssa.Instruction
	for _, c := range callSites(fn, "builtin.copy") {
		if fieldOfLoad(rootBuffer(c.Common().Args[1])) == "Index.buckets" {
			scans = append(scans, c)
		}
	}
	eachInstr(fn, func(in ssa.Instruction) {
		if rg, ok := in.(*ssa.Range); ok && fieldOfLoad(rg.X) == "Index.buckets" {
			scans = append(scans, rg)
		}
	})
	if len(scans) == 0 {
		r.Bad(rule, "truncateFreeFiles/bucket-scan", fn.Pos(), "the free-file scan does not read the bucket table")
		return
	}
	for _, ld := range fieldLoads(fn, "Index.fileNum") {
		bad := false
		for _, s := range scans {
			if after, _ := (Search{Fn: fn, From: s, Target: isInstr(ld)}).Run(); after {
				bad = true
			}
		}
		if bad {
			r.Bad(rule, "truncateFreeFiles/bound-before-bucket-scan", ld.Pos(), "the current file number is (re-)read after the bucket table was scanned: a file filled by a flush during the scan is below the bound but its buckets were scanned before they pointed into it, so a live index file looks unreferenced and is truncated or removed")
		} else {
			r.Ok(rule, "truncateFreeFiles/bound-before-bucket-scan", ld.Pos(), "the bound of the truncation loop is snapshotted before the bucket scan (a stale scan only over-approximates references)")
		}
	}
}

func init() {
	register("C07", func(r *Report) {
		ruleFreeAfterIndex(r)
		ruleFirstFileGuard(r)
		ruleHeaderBeforeRemove(r, "header-before-remove")
		ruleDeletedCheck(r)
		ruleMergeFraming(r)
		ruleSpanPair(r)
		ruleRescanAppliesAll(r)
		tmp := newReport(r.E, r.Property)
		ruleSnapshot(tmp)
		for _, o := range tmp.Obls {
			if strings.Contains(o.Key, "/posconv/") {
				o.Rule = "posconv"
				o.Key = "posconv" + strings.TrimPrefix(o.Key, "snapshot/posconv")
				r.Obls = append(r.Obls, o)
			}
		}
		r.Min("posconv", 4)
		rulePredictSubset(r, "layout-primary", []string{"/O4-", "/O5-", "/O1-", "/O3-"})
		ruleLayout(r)
		ruleSplice(r)
		rulePosCodec(r)
		r.support(grpOrder, grpFormat, grpPools, []string{"reloc-keys", "bad-index-removal", "pool-flush-complete", "scan-complete-before-truncate", "primary-mark", "gc-mark-guard", "gc-not-current", "retain", "reloc-binding", "bucket-after-write", "tail-recovery",
			"meta-atomic", "rollover-siblings", "rollover-switch", "strip-whole-bytes", "index-names-new-location", "freelist-consume", "togc", "upgrade-order", "chunk-accounting", "remap-offset", "remap-completion", "chunk-accounting"})
	},
		"Decides structural necessary conditions of the fsck invariant, not the invariant over reachable disk states: no location is put on the freelist unless the index stopped naming it on that path; FirstFile advances only past a file shown empty and only when it is the header's first file, and the file is unlinked only after the header write; all scanners/readers honour the deleted bit; a merged free span grows by exactly the bytes the scanner advances over (log stays framed); the rescan applies every non-deleted record; writer, rescan and GC agree on the bucket position convention; writer and reader tables of the index entry, index log record, freelist entry and primary record agree (affine). Not covered: sortedness/prefix-freeness of entries, that entries point at records carrying the right key, division-based absolute-position arithmetic.")
}
