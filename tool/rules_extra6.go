package main

import (
	"fmt"
	"go/constant"
	"go/token"
	"go/types"
	"strings"

	"golang.org/x/tools/go/ssa"
)

// Rules added after the fourth round of independently seeded changes.

// R-POS-WIDTH: the position codec computes in 64 bits. Absolute positions are
// file number × size limit + offset; with 1 GiB files the product exceeds 32
// bits from the fifth file on, so a multiplication (or addition) carried out in
// uint32 and widened afterwards wraps and aliases files 0–3.
func rulePosWidth(r *Report) {
	const rule = "pos-width"
	for _, c := range [][2]string{{"I", "localPosToBucketPos"}, {"I", "localizeBucketPos"}, {"I", "bucketPosToFileNum"},
		{"M", "absolutePrimaryPos"}, {"M", "localizePrimaryPos"}, {"M", "primaryPosToFileNum"}} {
		fn := r.E.Func(c[0], c[1])
		if fn == nil || fn.Blocks == nil {
			continue // folded into a sibling (pos-codec reports a missing codec)
		}
		r.fn(fn)
		n := 0
		eachInstr(fn, func(in ssa.Instruction) {
			bo, ok := in.(*ssa.BinOp)
			if !ok {
				return
			}
			switch bo.Op {
			case token.MUL, token.ADD, token.SUB, token.QUO:
			default:
				return
			}
			n++
			b, _ := bo.Type().Underlying().(*types.Basic)
			wide := b != nil && (b.Kind() == types.Uint64 || b.Kind() == types.Int64)
			r.Check(wide, rule, c[1]+"/"+bo.Op.String(), bo.Pos(), "position arithmetic is carried out in 64 bits",
				"this "+bo.Op.String()+" of the position codec is computed in "+bo.Type().String()+" and widened afterwards: file number × limit wraps in 32 bits from the fifth 1 GiB file on, so positions alias files 0–3 (entries name another key's record or a removed file)")
		})
		if n == 0 {
			r.Ok(rule, c[1]+"/no-arithmetic", fn.Pos(), "delegates to a sibling codec function")
		}
	}
	r.Min(rule, 6)
}

// R-LOCATION-AFTER-ROLLOVER: the location a flush records for what it writes
// is built from the file number and the length read AFTER the roll-over block
// (which changes both); a value captured before it names the old file/offset.
func ruleLocationAfterRollover(r *Report) {
	const rule = "location-after-rollover"
	type spec struct {
		alias, fn, enc string
		fields         []string
	}
	for _, s := range []spec{
		{"I", "(*Index).flushBucket", "index.localPosToBucketPos", []string{"Index.fileNum", "Index.length"}},
		{"M", "(*MultihashPrimary).flushBlock", "mhprimary.absolutePrimaryPos", []string{"MultihashPrimary.fileNum", "MultihashPrimary.length"}},
	} {
		fn := r.need(rule, s.alias, s.fn)
		if fn == nil {
			continue
		}
		encs := callSites(fn, s.enc)
		if len(encs) == 0 && s.alias == "M" {
			// the primary records its locations when Put predicts them (rule predict)
			continue
		}
		// the roll-over switch: the store that installs the new file number
		switches := instrSet(fieldStores(fn, s.fields[0]))
		if len(switches) == 0 {
			r.Bad(rule, shortFunc(fn)+"/rollover", fn.Pos(), "no store to "+s.fields[0]+": the roll-over block was not found in this function")
			continue
		}
		for _, f := range s.fields {
			// loads of the field that feed the recorded location or the position written to
			var loads []*ssa.UnOp
			for _, ld := range fieldLoads(fn, f) {
				feeds := false
				for _, e := range encs {
					for _, a := range e.Common().Args {
						if derives(a, flowOpts{Arith: true}, func(x ssa.Value) bool { return x == ssa.Value(ld) }) {
							feeds = true
						}
					}
				}
				// or a returned Block offset built without the encoder
				for _, ret := range returnsOf(fn) {
					for _, rv := range ret.Results {
						if derives(rv, flowOpts{Arith: true}, func(x ssa.Value) bool { return x == ssa.Value(ld) }) {
							feeds = true
						}
					}
				}
				if feeds {
					loads = append(loads, ld)
				}
			}
			if len(loads) == 0 {
				if len(encs) > 0 {
					r.Bad(rule, shortFunc(fn)+"/"+f, fn.Pos(), "the recorded location does not use "+f)
				}
				continue
			}
			for _, ld := range loads {
				// a roll-over store to the field that can still happen after this load makes it stale —
				// except the advance of the length by what was just written (a store whose value derives from this load)
				stale := false
				var path []*ssa.BasicBlock
				for st := range switches {
					if ssa.Instruction(ld) == st {
						continue
					}
					// the load that computes the NEXT file number feeds the switch itself, not the location
					if sst, ok := st.(*ssa.Store); ok && derives(sst.Val, flowOpts{Arith: true}, func(x ssa.Value) bool { return x == ssa.Value(ld) }) {
						continue
					}
					if reach, p := (Search{Fn: fn, From: ld, Target: isInstr(st)}).Run(); reach {
						stale, path = true, p
					}
				}
				if stale {
					r.BadPath(rule, shortFunc(fn)+"/"+f, ld.Pos(), "the value of "+f+" used for the recorded location is read before the roll-over block can change it: the first record written into a new file is recorded at the old file's number/length — once the pools no longer mask it, its keys read as errors, as another bucket's entries, or are lost", path)
				} else {
					r.Ok(rule, shortFunc(fn)+"/"+f, ld.Pos(), "read after the roll-over block")
				}
			}
		}
	}
	r.Min(rule, 2)
}

// R-OPEN-LENGTH: the append position a component resumes at after Open is the
// size of the file it opened (Stat), not the handle's seek offset (which is 0
// for a freshly opened O_APPEND file) or anything else.
func ruleOpenLength(r *Report) {
	const rule = "open-length"
	for _, s := range [][3]string{{"I", "Open", "Index.length"}, {"M", "Open", "MultihashPrimary.length"}, {"Cd", "Open", "CIDPrimary.length"}} {
		fn := r.need(rule, s[0], s[1])
		if fn == nil {
			continue
		}
		n := 0
		for _, st := range fieldStores(fn, s[2]) {
			if k, isC := intConst(st.Val); isC && k == 0 {
				continue
			}
			n++
			ok := derives(st.Val, flowOpts{Arith: true}, func(x ssa.Value) bool {
				c, isCall := x.(*ssa.Call)
				if isCall && cname(c) == "(*os.File).Seek" && len(c.Call.Args) == 3 {
					off, c1 := intConst(c.Call.Args[1])
					wh, c2 := intConst(c.Call.Args[2])
					return c1 && c2 && off == 0 && wh == 2 // io.SeekEnd
				}
				if ex, isEx := x.(*ssa.Extract); isEx {
					_ = ex
				}
				if !isCall || !strings.HasSuffix(cname(c), "FileInfo).Size") {
					return false
				}
				return derives(c.Call.Value, flowOpts{}, isCallTo("(*os.File).Stat", "os.Stat")) || (len(c.Call.Args) > 0 && derives(c.Call.Args[0], flowOpts{}, isCallTo("(*os.File).Stat", "os.Stat")))
			})
			r.Check(ok, rule, shortFunc(fn)+"/"+s[2], instrPos(st), "the resume position is the size of the opened file (Stat().Size() or Seek(0, io.SeekEnd))",
				"the append position "+s[2]+" is not initialised from the opened file's size (Stat().Size()): for an O_APPEND handle the seek offset is 0 until the first write, so after a reopen new records are recorded at positions that point into old data — blocks written after a reopen are lost on the next open")
		}
		if n == 0 {
			r.Bad(rule, shortFunc(fn)+"/"+s[2], fn.Pos(), "Open never initialises "+s[2])
		}
	}
	r.Min(rule, 2)
}

// R-INDEX-OPEN-LIMIT: inside index.Open one value is "the" file-size limit of
// this index: the one checked against the header and stored in the Index. The
// recovery scan and the snapshot load must decode positions with that same
// value (not with the upgrade default or the raw parameter).
func ruleIndexOpenLimit(r *Report) {
	const rule = "index-open-limit"
	fn := r.need(rule, "I", "Open")
	if fn == nil {
		return
	}
	var v ssa.Value
	for _, st := range fieldStores(fn, "Index.maxFileSize") {
		v = st.Val
	}
	if v == nil {
		r.Bad(rule, "Open/limit", fn.Pos(), "Open does not set Index.maxFileSize")
		return
	}
	n := 0
	for _, name := range []string{"index.scanIndex", "index.loadBucketState"} {
		for _, c := range callSites(fn, name) {
			args := c.Common().Args
			a := args[len(args)-1]
			n++
			r.Check(sameValue(a, v), rule, "Open/"+name, c.Pos(), "decodes positions with the limit stored in the Index and checked against the header",
				"the file-size limit passed to "+name+" is not the value that is checked against the header and stored in Index.maxFileSize ("+describeValue(a)+"): bucket positions are encoded with one limit during recovery and decoded with another afterwards — after a crash (rescan) most keys read as errors")
		}
	}
	// the header comparison uses it too
	cmpOK := false
	eachInstr(fn, func(in ssa.Instruction) {
		bo, ok := in.(*ssa.BinOp)
		if !ok || (bo.Op != token.NEQ && bo.Op != token.EQL) {
			return
		}
		if (fieldOfLoad(stripConv(bo.X)) == "Header.MaxFileSize" && sameValue(bo.Y, v)) || (fieldOfLoad(stripConv(bo.Y)) == "Header.MaxFileSize" && sameValue(bo.X, v)) {
			cmpOK = true
		}
	})
	r.Check(cmpOK, rule, "Open/checked-against-header", fn.Pos(), "the limit stored in the Index is the one compared with the header", "the limit stored in Index.maxFileSize is not the value compared with header.MaxFileSize")
	if n < 2 {
		r.Bad(rule, "Open/inventory", fn.Pos(), "scanIndex/loadBucketState call not found in Open")
	}
	r.Min(rule, 3)
}

// R-BAD-INDEX-REMOVAL: the store deletes an index entry on its own initiative
// only when the primary read or the key decoding FAILED. A stored key that is
// merely different from the requested one is another key with the same prefix:
// its entry must survive.
func ruleBadIndexRemoval(r *Report) {
	const rule = "bad-index-removal"
	fn := r.need(rule, "S", "(*Store).getPrimaryKeyData")
	if fn == nil {
		return
	}
	var fails []Edge
	for _, c := range callSites(fn, "(primary.PrimaryStorage).Get", "(primary.PrimaryStorage).IndexKey", "(primary.PrimaryStorage).GetIndexKey") {
		if cc := asCall(c); cc != nil {
			fails = append(fails, failureEdges(cc)...)
		}
	}
	n := 0
	for _, rm := range callSites(fn, "(*index.Index).Remove") {
		n++
		ok, path := guarded(fn, rm, mkEdgeSet(fails), nil)
		if ok && len(fails) > 0 {
			r.Ok(rule, "getPrimaryKeyData/index.Remove", rm.Pos(), "the entry is removed only after the primary read or key decoding failed")
		} else {
			r.BadPath(rule, "getPrimaryKeyData/index.Remove", rm.Pos(), "the index entry can be removed without the primary read or key decoding having failed (e.g. because the stored key differs from the requested one): a lookup, Remove or Put of an absent key that shares bucket and stored prefix with a present key deletes that key's entry", path)
		}
	}
	if n == 0 {
		r.Ok(rule, "getPrimaryKeyData/index.Remove", fn.Pos(), "no self-initiated removal")
	}
	// the mismatch outcome exists and returns no key
	r.Min(rule, 1)
}

// R-RELOC-KEYS: relocation stores the moved record under the record's own key
// and re-points the index under the index key derived from it.
func ruleRelocKeys(r *Report) {
	const rule = "reloc-keys"
	fn := r.need(rule, "M", "(*primaryGC).reapRecords")
	if fn == nil {
		return
	}
	isIndexKey := isCallTo("(*mhprimary.MultihashPrimary).IndexKey", "(primary.PrimaryStorage).IndexKey")
	n := 0
	for _, c := range callSites(fn, "field:primaryGC.updateIndex") {
		n++
		a := c.Common().Args[0]
		r.Check(derives(a, flowOpts{}, isIndexKey), rule, "reapRecords/updateIndex-key", c.Pos(), "the index is re-pointed under IndexKey(record key)",
			"the key passed to updateIndex is not the index key derived from the record's key (IndexKey): the update fails to find the entry, the collector then frees both the copy and the old location while the live entry still names the old one — a cycle later the record is deleted")
	}
	for _, c := range callSites(fn, "(*mhprimary.MultihashPrimary).Put", "(primary.PrimaryStorage).Put") {
		n++
		a := c.Common().Args
		key := a[len(a)-2]
		r.Check(!derives(key, flowOpts{}, isIndexKey), rule, "reapRecords/primary.Put-key", c.Pos(), "the copy is stored under the record's own key",
			"the relocated copy is stored under the index key (bare digest) instead of the record's key: the next read cannot decode the stored key, the store deletes the index entry and the live key is lost")
	}
	if n < 2 {
		r.Bad(rule, "reapRecords/inventory", fn.Pos(), "relocation calls not found")
	}
	r.Min(rule, 2)
}

// R-ABSENT-JUSTIFIED: a lookup reports "absent" (found=false, no error) only
// where the index has no entry for the key or the stored key was shown to be a
// different one — never on the strength of sizes or other side conditions.
func ruleAbsentJustified(r *Report) {
	const rule = "absent-justified"
	for _, m := range []string{"Get", "Has", "GetSize"} {
		fn := r.need(rule, "S", "(*Store)."+m)
		if fn == nil {
			continue
		}
		var ev []Edge
		// index miss: the found result of index.Get is false
		for _, c := range callSites(fn, "(*index.Index).Get") {
			if cc := asCall(c); cc != nil {
				for _, fv := range extractOf(cc, 1) {
					ev = append(ev, boolEdges(fn, fv, false)...)
				}
			}
		}
		// key mismatch / unusable entry: getPrimaryKeyData returned no key
		for _, c := range callSites(fn, "(*store.Store).getPrimaryKeyData") {
			if cc := asCall(c); cc != nil {
				ks := extractOf(cc, 0)
				ev = append(ev, nilEdges(fn, func(v ssa.Value) bool {
					for _, k := range ks {
						if v == k {
							return true
						}
					}
					return false
				}, false)...)
			}
		}
		var allFail []Edge
		for _, c := range allCalls(fn) {
			if cc := asCall(c); cc != nil {
				allFail = append(allFail, failureEdges(cc)...)
			}
		}
		// bytes.Compare(a, b) != 0, and boolean helpers that only wrap bytes.Equal
		for _, c := range allCalls(fn) {
			cc := asCall(c)
			if cc == nil {
				continue
			}
			if cname(cc) == "bytes.Compare" {
				ev = append(ev, condEdges(fn, func(cond ssa.Value) (bool, bool) {
					bo, ok := cond.(*ssa.BinOp)
					if !ok || !((bo.X == ssa.Value(cc) && isZeroConst(bo.Y)) || (bo.Y == ssa.Value(cc) && isZeroConst(bo.X))) {
						return false, false
					}
					switch bo.Op {
					case token.NEQ:
						return true, false
					case token.EQL:
						return false, true
					}
					return false, false
				})...)
			}
			if h := cc.Call.StaticCallee(); h != nil && h.Blocks != nil && r.E.InModule(h) {
				if _, _, ok := wrapsBytesEqual(h); ok {
					ev = append(ev, boolEdges(fn, cc, false)...)
				}
			}
		}
		for _, c := range callSites(fn, "bytes.Equal") {
			if cc := asCall(c); cc != nil {
				ev = append(ev, boolEdges(fn, cc, false)...)
				// a flag that merges the comparison with `false` set on error paths only (result
				// variable of an inlined helper that returns (false, err)): flag false = mismatch or error
				ev = append(ev, condEdges(fn, func(cond ssa.Value) (bool, bool) {
					phi, ok := cond.(*ssa.Phi)
					if !ok {
						return false, false
					}
					sawEq, okAll := false, true
					seen := map[*ssa.Phi]bool{}
					var flat func(p *ssa.Phi)
					flat = func(p *ssa.Phi) {
						if seen[p] {
							return
						}
						seen[p] = true
						for i, ed := range p.Edges {
							if q, isQ := ed.(*ssa.Phi); isQ {
								flat(q)
								continue
							}
							if ed == ssa.Value(cc) {
								sawEq = true
								continue
							}
							b, isC := boolConst(ed)
							if !isC || b {
								okAll = false
								continue
							}
							// const false: zero value at declaration (entry block) is overwritten on every
							// path through the inlined body; any other must come from an error path
							pred := p.Block().Preds[i]
							if g, _ := guarded(fn, lastInstr(pred), mkEdgeSet(allFail), nil); !g && pred != fn.Blocks[0] {
								// the declaration's zero value flows in from the block that declares it
								if reach, _ := (Search{Fn: fn, Target: isInstr(lastInstr(pred)), Avoid: isInstr(cc), AvoidEdges: mkEdgeSet(allFail)}).Run(); reach {
									okAll = false
								}
							}
						}
					}
					flat(phi)
					if sawEq && okAll {
						return false, true
					}
					return false, false
				})...)
			}
		}
		foundIdx := -1
		res := fn.Signature.Results()
		for i := 0; i < res.Len(); i++ {
			if b, ok := res.At(i).Type().Underlying().(*types.Basic); ok && b.Kind() == types.Bool {
				foundIdx = i
			}
		}
		if foundIdx < 0 {
			// Has returns (bool, error)
			r.Undecided(rule, shortFunc(fn)+": no boolean result")
			continue
		}
		errIdx := errResultIndex(fn)
		n := 0
		for _, ret := range returnsOf(fn) {
			fv, isC := boolConst(retVal(ret, foundIdx))
			if !isC {
				// found computed: it must be the full-key comparison itself
				if derives(retVal(ret, foundIdx), flowOpts{}, func(x ssa.Value) bool {
					if isCallTo("bytes.Equal")(x) {
						return true
					}
					if c, ok := x.(*ssa.Call); ok {
						if h := c.Call.StaticCallee(); h != nil && h.Blocks != nil && r.E.InModule(h) {
							_, _, w := wrapsBytesEqual(h)
							return w
						}
					}
					return false
				}) {
					n++
					r.Ok(rule, shortFunc(fn)+"/absent", ret.Pos(), "found is the result of the full-key comparison")
				}
				continue
			}
			if fv {
				continue
			}
			if errIdx >= 0 && !isNilConst(retVal(ret, errIdx)) {
				continue
			}
			n++
			ok, path := guarded(fn, ret, mkEdgeSet(ev), nil)
			if ok && len(ev) > 0 {
				r.Ok(rule, shortFunc(fn)+"/absent", ret.Pos(), "absent is reported only on an index miss or a key mismatch")
			} else {
				r.BadPath(rule, shortFunc(fn)+"/absent", ret.Pos(), "this lookup can report the key absent without the index having missed and without the stored key having been shown different (e.g. from a size comparison): a present key — for instance one with an empty value — reads as not found while Get/Has find it", path)
			}
		}
		if n == 0 {
			r.Bad(rule, shortFunc(fn)+"/absent", fn.Pos(), "no absent outcome found")
		}
	}
	r.Min(rule, 3)
}

// openFileCallsOf collects the os.OpenFile calls a file value comes from,
// looking into same-module helpers that return the file they opened.
func openFileCallsOf(e *Engine, v ssa.Value, depth int, seen map[ssa.Value]bool) []*ssa.Call {
	if depth > 4 || seen[v] {
		return nil
	}
	seen[v] = true
	switch x := v.(type) {
	case *ssa.Extract:
		return openFileCallsOf(e, x.Tuple, depth, seen)
	case *ssa.Phi:
		var out []*ssa.Call
		for _, ed := range x.Edges {
			out = append(out, openFileCallsOf(e, ed, depth, seen)...)
		}
		return out
	case *ssa.Call:
		if cname(x) == "os.OpenFile" {
			return []*ssa.Call{x}
		}
		if g := x.Call.StaticCallee(); g != nil && g.Blocks != nil && e.InModule(g) {
			var out []*ssa.Call
			for _, ret := range returnsOf(g) {
				if len(ret.Results) > 0 {
					out = append(out, openFileCallsOf(e, retVal(ret, 0), depth+1, seen)...)
				}
			}
			return out
		}
	case *ssa.UnOp:
		// captured or local variable cell
		if al, ok := x.X.(*ssa.Alloc); ok && al.Referrers() != nil {
			var out []*ssa.Call
			for _, ref := range *al.Referrers() {
				if st, ok := ref.(*ssa.Store); ok && st.Addr == ssa.Value(al) {
					out = append(out, openFileCallsOf(e, st.Val, depth, seen)...)
				}
			}
			return out
		}
	}
	return nil
}

const osOAppend = 0x400

// R-APPEND-FLAGS: a component's data file — the file it keeps appending
// records to across restarts — is opened with O_APPEND. Without it the first
// write after a restart goes to offset 0 and overwrites what earlier sessions
// wrote.
func ruleAppendFlags(r *Report) {
	const rule = "append-flags"
	fields := []string{"Index.file", "MultihashPrimary.file", "CIDPrimary.file", "FreeList.file"}
	n := 0
	for _, fn := range moduleFuncs(r.E) {
		for _, f := range fields {
			for _, st := range fieldStoresRaw(fn, f) {
				if isNilConst(st.Val) {
					continue
				}
				for _, oc := range openFileCallsOf(r.E, st.Val, 0, map[ssa.Value]bool{}) {
					flags, isC := intConst(oc.Call.Args[1])
					if !isC {
						continue
					}
					n++
					r.Check(flags&osOAppend != 0, rule, shortFunc(fn)+"/"+f, oc.Pos(), "the data file is opened with O_APPEND",
						"the file that becomes "+f+" is opened without O_APPEND: within one session nothing changes, but after a restart the first flush writes at offset 0 and overwrites the records (freelist entries, index records, blocks) earlier sessions left there")
				}
			}
		}
	}
	if n < 6 {
		r.Bad(rule, "inventory", token.NoPos, fmt.Sprintf("found %d opens of component data files, expected at least 6", n))
	}
	r.Min(rule, 6)
}

// fieldStoresRaw: stores to a field in fn only (no private-helper scope).
func fieldStoresRaw(fn *ssa.Function, name string) []*ssa.Store {
	var out []*ssa.Store
	eachInstr(fn, func(in ssa.Instruction) {
		st, ok := in.(*ssa.Store)
		if !ok {
			return
		}
		fa, ok := st.Addr.(*ssa.FieldAddr)
		if !ok {
			return
		}
		if fieldName(fa.X.Type(), fa.Field) == name {
			out = append(out, st)
		}
	})
	return out
}

// R-ERROR-WRAP: every fmt.Errorf in the module that is given an error wraps it
// with %w. Callers recognise the typed errors (ErrIndexWrongFileSize,
// ErrKeyExists, ...) with errors.Is/As; %v or %s keeps the text but loses the
// identity.
func ruleErrorWrap(r *Report) {
	const rule = "error-wrap"
	// Only where identity matters: the functions through which a typed error of package types
	// (ErrIndexWrongBitSize, ErrIndexWrongFileSize, ErrPrimaryWrongFileSize, ErrKeyExists ...) can
	// travel to an API caller — the functions that create one, and their callers, transitively.
	carriers := map[*ssa.Function]bool{}
	for _, fn := range moduleFuncs(r.E) {
		eachInstr(fn, func(in ssa.Instruction) {
			switch x := in.(type) {
			case *ssa.MakeInterface:
				if nt := namedOf(x.X.Type()); nt != nil && nt.Obj().Pkg() != nil && strings.HasSuffix(nt.Obj().Pkg().Path(), "/store/types") && strings.HasPrefix(nt.Obj().Name(), "Err") {
					carriers[fn] = true
				}
			case *ssa.UnOp:
				if g, ok := x.X.(*ssa.Global); ok && g.Pkg != nil && strings.HasSuffix(g.Pkg.Pkg.Path(), "/store/types") && strings.HasPrefix(g.Name(), "Err") {
					carriers[fn] = true
				}
			}
		})
	}
	for changed := true; changed; {
		changed = false
		for _, fn := range moduleFuncs(r.E) {
			if carriers[fn] {
				continue
			}
			for _, c := range allCalls(fn) {
				for _, callee := range r.E.Callees(c) {
					if carriers[callee] && errResultIndex(callee) >= 0 && errResultIndex(fn) >= 0 {
						carriers[fn] = true
						changed = true
					}
				}
			}
		}
	}
	n := 0
	for _, fn := range moduleFuncs(r.E) {
		if !carriers[fn] {
			continue
		}
		for _, c := range callSites(fn, "fmt.Errorf") {
			args := c.Common().Args
			if len(args) < 2 {
				continue
			}
			fc, ok := args[0].(*ssa.Const)
			if !ok || fc.Value == nil || fc.Value.Kind() != constant.String {
				continue
			}
			format := constant.StringVal(fc.Value)
			// variadic arguments: a slice literal built from an array alloc
			errArgs := 0
			if sl, ok := args[1].(*ssa.Slice); ok {
				if al, ok := sl.X.(*ssa.Alloc); ok && al.Referrers() != nil {
					for _, ref := range *al.Referrers() {
						ia, ok := ref.(*ssa.IndexAddr)
						if !ok || ia.Referrers() == nil {
							continue
						}
						for _, r2 := range *ia.Referrers() {
							if st, ok := r2.(*ssa.Store); ok {
								switch x := st.Val.(type) {
								case *ssa.MakeInterface:
									if isErrorType(x.X.Type()) || types.Implements(x.X.Type(), errorIface) {
										errArgs++
									}
								case *ssa.ChangeInterface:
									if isErrorType(x.X.Type()) {
										errArgs++
									}
								default:
									if isErrorType(st.Val.Type()) {
										errArgs++
									}
								}
							}
						}
					}
				}
			}
			if errArgs == 0 {
				continue
			}
			n++
			r.Check(strings.Count(format, "%w") >= errArgs, rule, shortFunc(fn)+"/fmt.Errorf", c.Pos(), "the error is wrapped with %w",
				fmt.Sprintf("fmt.Errorf(%q) formats an error without %%w: the caller can no longer recognise the typed error with errors.Is/As (e.g. the specific index mismatch error of a refused reopen, key-exists, not-found)", format))
		}
	}
	if n < 5 {
		r.Bad(rule, "inventory", token.NoPos, fmt.Sprintf("found %d error-wrapping fmt.Errorf calls on the paths of typed errors, expected at least 5", n))
	}
	r.Min(rule, 5)
}

// R-MOVEFILES-ORDER: MoveFiles moves the numbered index files first; the
// header and the saved bucket state follow. An interrupted move must never
// leave index files behind without the metadata needed to refuse or redo it.
func ruleMoveFilesOrder(r *Report) {
	const rule = "movefiles-order"
	fn := r.need(rule, "I", "MoveFiles")
	if fn == nil {
		return
	}
	kind := func(c ssa.CallInstruction) string {
		src := c.Common().Args[0]
		switch {
		case derives(src, flowOpts{}, isCallTo("index.savedBucketsName")):
			return "buckets"
		case derives(src, flowOpts{}, isCallTo("index.headerName")):
			return "header"
		}
		return "file"
	}
	rn := callSites(fn, "os.Rename")
	var files, meta []ssa.CallInstruction
	for _, c := range rn {
		if kind(c) == "file" {
			files = append(files, c)
		} else {
			meta = append(meta, c)
		}
	}
	if len(files) == 0 || len(meta) < 2 {
		r.Bad(rule, "MoveFiles/renames", fn.Pos(), fmt.Sprintf("expected renames of index files, header and bucket state; found %d file and %d metadata renames", len(files), len(meta)))
		return
	}
	for _, m := range meta {
		bad := false
		var path []*ssa.BasicBlock
		for _, f := range files {
			if reach, p := (Search{Fn: fn, From: m, Target: isInstr(f)}).Run(); reach {
				bad, path = true, p
			}
		}
		if bad {
			r.BadPath(rule, "MoveFiles/"+kind(m)+"-after-files", m.Pos(), "the "+kind(m)+" is moved before all numbered index files have been moved: an interruption in between leaves index files at the old location without it — the retry rescans from a missing first file, opens the old index as empty and swaps an empty index in (every key gone)", path)
		} else {
			r.Ok(rule, "MoveFiles/"+kind(m)+"-after-files", m.Pos(), "moved after the numbered index files")
		}
	}
	r.Min(rule, 2)
}

var errorIface = types.Universe.Lookup("error").Type().Underlying().(*types.Interface)

// R-LOCK-PATHS: path-sensitive lock balance. The must-hold dataflow (A1) proves
// what is definitely held; it cannot see a lock that is left held on SOME path
// (an unlock missing in one branch of a select or if). This analysis tracks,
// per basic block, the set of possible (held, deferred-unlock) configurations
// and reports a return reached with a lock acquired in the function still held
// and not covered by a deferred unlock, and an acquisition of a lock that is
// already held on that path (self-deadlock).
type lockCfg struct {
	held, deferred string // sorted, comma-separated ids
}

func cfgSet(s string) map[string]bool {
	m := map[string]bool{}
	for _, x := range strings.Split(s, ",") {
		if x != "" {
			m[x] = true
		}
	}
	return m
}

func cfgStr(m map[string]bool) string {
	var xs []string
	for k := range m {
		xs = append(xs, k)
	}
	sortStrings(xs)
	return strings.Join(xs, ",")
}

func sortStrings(xs []string) {
	for i := 1; i < len(xs); i++ {
		for j := i; j > 0 && xs[j] < xs[j-1]; j-- {
			xs[j], xs[j-1] = xs[j-1], xs[j]
		}
	}
}

func ruleLockPaths(r *Report) {
	const rule = "lock-paths"
	n := 0
	for _, fn := range moduleFuncs(r.E) {
		hasLock := false
		for _, c := range allCalls(fn) {
			if _, _, ok := lockOp(c); ok {
				hasLock = true
			}
		}
		if !hasLock || len(fn.Blocks) == 0 {
			continue
		}
		n++
		in := map[*ssa.BasicBlock]map[lockCfg]bool{fn.Blocks[0]: {lockCfg{}: true}}
		work := []*ssa.BasicBlock{fn.Blocks[0]}
		type problem struct {
			pos  token.Pos
			what string
		}
		probs := map[string]problem{}
		budget := 20000
		for len(work) > 0 && budget > 0 {
			budget--
			b := work[0]
			work = work[1:]
			cur := map[lockCfg]bool{}
			for c := range in[b] {
				cur[c] = true
			}
			for _, instr := range b.Instrs {
				if _, isRet := instr.(*ssa.Return); isRet {
					if fn.Recover != nil && b == fn.Recover {
						continue
					}
					for c := range cur {
						h, d := cfgSet(c.held), cfgSet(c.deferred)
						for id := range h {
							if !d[id] {
								probs["ret/"+id] = problem{instr.Pos(), "lock " + id + " is still held at a return on some path (an unlock is missing in one branch): the next acquisition — by this goroutine or any other — blocks forever"}
							}
						}
					}
					continue
				}
				ci, ok := instr.(ssa.CallInstruction)
				if !ok {
					continue
				}
				op, id, ok := lockOp(ci)
				if !ok {
					continue
				}
				if _, isGo := instr.(*ssa.Go); isGo {
					continue
				}
				next := map[lockCfg]bool{}
				for c := range cur {
					h, d := cfgSet(c.held), cfgSet(c.deferred)
					if _, isDefer := instr.(*ssa.Defer); isDefer {
						if op == "Unlock" || op == "RUnlock" {
							d[id] = true
						}
					} else {
						switch op {
						case "Lock":
							if h[id] {
								probs["re/"+id] = problem{instr.Pos(), "lock " + id + " is acquired on a path on which it is already held (self-deadlock)"}
							}
							h[id] = true
						case "RLock":
							h[id] = true
						case "Unlock", "RUnlock":
							delete(h, id)
						}
					}
					next[lockCfg{cfgStr(h), cfgStr(d)}] = true
				}
				cur = next
			}
			for _, s := range b.Succs {
				changed := false
				if in[s] == nil {
					in[s] = map[lockCfg]bool{}
				}
				for c := range cur {
					if !in[s][c] {
						in[s][c] = true
						changed = true
					}
				}
				if changed {
					work = append(work, s)
				}
			}
		}
		if budget <= 0 {
			r.Undecided(rule, shortFunc(fn)+": configuration budget exhausted")
			continue
		}
		if len(probs) == 0 {
			r.Ok(rule, shortFunc(fn), fn.Pos(), "on every path each lock acquired here is released (or covered by a deferred unlock) before returning, and never re-acquired while held")
		}
		for k, p := range probs {
			r.Bad(rule, shortFunc(fn)+"/"+k, p.pos, p.what)
		}
	}
	r.Min(rule, 40)
}

// R-FC-UNKNOWN-CLOSED: a handle FileCache.Close does not know — not in the
// removed map, not the file of the cached entry of that name — was opened while
// the cache was disabled (or is a stale duplicate): Close closes it. Every
// return of Close that is not behind the removed-map hit or the cached-entry
// identity test passes file.Close().
func ruleFCUnknownClosed(r *Report) {
	const rule = "fc-unknown-closed"
	fn := r.need(rule, "FC", "(*FileCache).Close")
	if fn == nil {
		return
	}
	var known []Edge
	known = append(known, condEdges(fn, func(cond ssa.Value) (bool, bool) {
		ex, ok := cond.(*ssa.Extract)
		if !ok || ex.Index != 1 {
			return false, false
		}
		if lk, ok := ex.Tuple.(*ssa.Lookup); ok && lk.CommaOk {
			switch fieldOfLoad(lk.X) {
			case "FileCache.removed", "FileCache.cache":
				return true, false
			}
		}
		return false, false
	})...)
	closes := map[ssa.Instruction]bool{}
	for _, c := range callSites(fn, "(*os.File).Close") {
		if len(fn.Params) > 1 && c.Common().Args[0] == ssa.Value(fn.Params[1]) {
			closes[c] = true
		}
	}
	if len(closes) == 0 {
		r.Bad(rule, "FileCache.Close/unknown-handle", fn.Pos(), "FileCache.Close never closes the file it is given")
		return
	}
	// returns reachable without passing a map hit: must have closed the file.
	// The cached-entry branch is entered through the cache map hit; its identity
	// test failing falls through to the unknown-handle path as well.
	var removedHit []Edge
	for _, e := range known {
		removedHit = append(removedHit, e)
	}
	n := 0
	for _, ret := range returnsOf(fn) {
		reach, path := Search{Fn: fn, Target: isInstr(ret), Avoid: anyOf(closes), AvoidEdges: mkEdgeSet(removedHit)}.Run()
		n++
		if reach {
			r.BadPath(rule, "FileCache.Close/unknown-handle", ret.Pos(), "FileCache.Close can return without closing a handle that is neither in the removed map nor the cached entry's file (e.g. it reports ErrClosed instead): a handle opened while the cache was disabled and released after it was enabled is never closed — the descriptor leaks and the matching Close fails", path)
		} else {
			r.Ok(rule, "FileCache.Close/unknown-handle", ret.Pos(), "reached only after closing the file or through a removed/cached hit")
		}
	}
	r.Min(rule, 2)
	_ = n
}

// R-FC-DROP-ALL: where the cache forgets its structures (cache = nil / ll =
// nil in Clear and SetCacheSize(0)), every entry was first passed to
// removeElement by a loop over the cache map — removeElement is what closes an
// idle file or moves a lent one to the removed map.
func ruleFCDropAll(r *Report) {
	const rule = "fc-drop-all"
	n := 0
	for _, fn := range moduleFuncs(r.E) {
		for _, st := range fieldStoresRaw(fn, "FileCache.cache") {
			if !isNilConst(st.Val) || isLocalAlloc(st.Addr.(*ssa.FieldAddr).X) {
				continue
			}
			n++
			// a range over the cache map whose every iteration passes removeElement
			var nexts []ssa.Instruction
			eachInstr(fn, func(in ssa.Instruction) {
				if nx, ok := in.(*ssa.Next); ok {
					if rg, ok := nx.Iter.(*ssa.Range); ok && fieldOfLoad(rg.X) == "FileCache.cache" {
						nexts = append(nexts, in)
					}
				}
			})
			ok := false
			for _, nx := range nexts {
				skip, _ := Search{Fn: fn, From: nx, Target: isInstr(nx), Avoid: isCallNamed("(*filecache.FileCache).removeElement")}.Run()
				before, _ := precededBy(fn, st, map[ssa.Instruction]bool{nx: true}, nil)
				if !skip && before {
					ok = true
				}
			}
			r.Check(ok, rule, shortFunc(fn)+"/cache=nil", instrPos(st), "every entry of the cache map is passed to removeElement before the map is dropped",
				"the cache structures are dropped without every entry having been passed to removeElement by a loop over the cache map (e.g. a walk over the list that removes as it goes stops after the first element): idle descriptors are never closed and lent handles lose their reference counts")
		}
	}
	r.Min(rule, 2)
	_ = n
}

// R-REMAP-COMPLETION: every successful return of remapIndex is preceded by a
// writeHeader (the header's PrimaryFileSize is what marks the remap as done —
// also when there was nothing to remap; otherwise the next Open, after the
// primary has grown to several files, remaps offsets that are already right).
// The working copy of an index file is made with copyFile (a hard link would
// make the in-place rewrite hit the original), and the freelist application of
// the primary upgrade consults the hand-over file (ToGC) before any successful
// return. The remapper's size table covers every primary file up to and
// including the current one.
func ruleRemapCompletion(r *Report) {
	const rule = "remap-completion"
	if fn := r.need(rule, "I", "remapIndex"); fn != nil {
		succ, _ := classifyReturns(fn)
		writes := instrSet(callSites(fn, "index.writeHeader"))
		n := 0
		for _, ret := range succ {
			if errIdx := errResultIndex(fn); errIdx >= 0 {
				// `return x, writeHeader(...)` returns the write's own result
				if c, ok := retVal(ret, errIdx).(*ssa.Call); ok && writes[c] {
					n++
					r.Ok(rule, "remapIndex/success-writes-header", ret.Pos(), "returns the result of writeHeader")
					continue
				}
			}
			n++
			ok, path := precededBy(fn, ret, writes, nil)
			if ok && len(writes) > 0 {
				r.Ok(rule, "remapIndex/success-writes-header", ret.Pos(), "the completion header is written on every path to this successful return")
			} else {
				r.BadPath(rule, "remapIndex/success-writes-header", ret.Pos(), "remapIndex can succeed without writing the header that records the primary file size: the conversion is never marked complete — once the primary has grown to several files the next Open remaps already-correct offsets (most keys lost)", path)
			}
		}
		if n == 0 {
			r.Bad(rule, "remapIndex/success-writes-header", fn.Pos(), "no successful return found")
		}
		// working copy by copyFile; no hard links anywhere in the module
		copies := instrSet(callSites(fn, "index.copyFile"))
		for _, oc := range callSites(fn, "os.OpenFile") {
			ok, _ := precededBy(fn, oc, copies, nil)
			r.Check(ok && len(copies) > 0, rule, "remapIndex/working-copy", oc.Pos(), "the file rewritten in place is a copy made by copyFile", "the working file is not produced by copyFile on every path: rewriting it would modify the original in place and a crash mid-file followed by a resume remaps finished buckets twice")
		}
	}
	links := 0
	for _, fn := range moduleFuncs(r.E) {
		for _, c := range callSites(fn, "os.Link", "os.Symlink") {
			links++
			r.Bad(rule, shortFunc(fn)+"/"+cname(c), c.Pos(), "a link is created where the code relies on an independent copy (copy-on-write protection of index files)")
		}
	}
	if links == 0 {
		r.Ok(rule, "no-links", token.NoPos, "no os.Link/os.Symlink in the module")
	}
	if fn := r.need(rule, "M", "applyFreeList"); fn != nil {
		succ, _ := classifyReturns(fn)
		togc := instrSet(callSites(fn, "(*freelist.FreeList).ToGC"))
		for _, ret := range succ {
			ok, path := precededBy(fn, ret, togc, nil)
			if ok && len(togc) > 0 {
				r.Ok(rule, "applyFreeList/hand-over-consulted", ret.Pos(), "ToGC is called before this successful return")
			} else {
				r.BadPath(rule, "applyFreeList/hand-over-consulted", ret.Pos(), "applyFreeList can succeed without having asked the freelist for its hand-over file (ToGC): a .gc file left by a crash between hand-over and removal is ignored, its legacy offsets survive the upgrade and the first GC cycle applies them to the new multi-file layout — live records of the same size are deleted", path)
			}
		}
	}
	if fn := r.need(rule, "M", "(*MultihashPrimary).NewIndexRemapper"); fn != nil {
		found := false
		for _, b := range fn.Blocks {
			ifi, ok := lastInstr(b).(*ssa.If)
			if !ok {
				continue
			}
			cond, neg := stripNot(ifi.Cond)
			bo, ok := cond.(*ssa.BinOp)
			if !ok {
				continue
			}
			isCur := func(v ssa.Value) bool { return fieldOfLoad(stripIntConv(v)) == "MultihashPrimary.fileNum" }
			isVar := func(v ssa.Value) bool { _, ok := stripIntConv(v).(*ssa.Phi); return ok }
			var op token.Token
			switch {
			case isVar(bo.X) && isCur(bo.Y):
				op = bo.Op
			case isCur(bo.X) && isVar(bo.Y):
				switch bo.Op {
				case token.LSS:
					op = token.GTR
				case token.LEQ:
					op = token.GEQ
				case token.GTR:
					op = token.LSS
				case token.GEQ:
					op = token.LEQ
				default:
					op = bo.Op
				}
			default:
				continue
			}
			found = true
			// the loop continues (body = the successor that reaches os.Stat) while fileNum <= current
			bodyIdx := 0
			if neg {
				bodyIdx = 1
			}
			stat := callSites(fn, "os.Stat")
			inBody := false
			for _, s := range stat {
				if g, _ := guarded(fn, s, edgeSet{Edge{b, bodyIdx}: true}, nil); g {
					inBody = true
				}
			}
			incl := (inBody && op == token.LEQ) || (!inBody && op == token.GTR)
			r.Check(incl, rule, "NewIndexRemapper/covers-current-file", instrPos(ifi), "the size table covers every primary file up to and including the current one",
				fmt.Sprintf("the loop over the primary files runs while [fileNum %s current] (body on true: %v): the last primary file's size is left out of the remapper, entries pointing into it are treated as out of range and dropped from the index", op, inBody))
		}
		if !found {
			r.Bad(rule, "NewIndexRemapper/covers-current-file", fn.Pos(), "no comparison of the loop variable with MultihashPrimary.fileNum found")
		}
	}
	r.Min(rule, 5)
}

// R-HEADER-PRESERVED: a header that already exists is rewritten from what was
// read (or handed in), with the one field the writer means to change; only the
// code that creates a store's first header (Open on a missing header, the
// legacy upgrades) may build one with newHeader. Rebuilding an existing header
// drops what the writer does not know about (e.g. the primary file size that
// marks the offset remap as done).
func ruleHeaderPreserved(r *Report) {
	const rule = "header-preserved"
	mayCreate := map[string]bool{"index.Open": true, "mhprimary.Open": true, "index.upgradeIndex": true, "mhprimary.upgradePrimary": true}
	n := 0
	for _, fn := range moduleFuncs(r.E) {
		for _, w := range callSites(fn, "index.writeHeader", "mhprimary.writeHeader") {
			n++
			h := w.Common().Args[1]
			fromNew := derives(h, flowOpts{}, isCallTo("index.newHeader", "mhprimary.newHeader"))
			fromRead := derives(h, flowOpts{}, func(v ssa.Value) bool {
				if isCallTo("index.readHeader", "mhprimary.readHeader")(v) {
					return true
				}
				_, isP := v.(*ssa.Parameter)
				return isP
			})
			key := shortFunc(fn) + "/writeHeader"
			switch {
			case fromNew && !onlyCalledFrom(fn, func(f *ssa.Function) bool { return mayCreate[shortFunc(f)] }):
				r.Bad(rule, key, w.Pos(), "an existing header is replaced by a freshly built one (newHeader): every field the writer does not set is reset — e.g. PrimaryFileSize becomes 0, so the next Open runs the legacy offset remap over already-correct offsets and most keys are lost")
			case fromNew || fromRead:
				r.Ok(rule, key, w.Pos(), "writes the header that was read (or handed in), or creates the store's first header")
			default:
				r.Bad(rule, key, w.Pos(), "the header written here derives neither from readHeader, a parameter, nor (where a store is created) newHeader")
			}
		}
	}
	if n < 8 {
		r.Bad(rule, "inventory", token.NoPos, fmt.Sprintf("found %d writeHeader call sites, expected at least 8", n))
	}
	r.Min(rule, 8)
}
