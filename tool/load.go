package main

import (
	_ "embed"
	"encoding/json"
	"fmt"
	"go/token"
	"go/types"
	"os"
	"path/filepath"
	"sort"
	"strings"

	"golang.org/x/tools/go/callgraph"
	"golang.org/x/tools/go/callgraph/cha"
	"golang.org/x/tools/go/callgraph/vta"
	"golang.org/x/tools/go/packages"
	"golang.org/x/tools/go/ssa"
	"golang.org/x/tools/go/ssa/ssautil"
)

const modPath = "github.com/ipld/go-storethehash"

// Short names for the module's packages, used in rule tables.
var pkgAlias = map[string]string{
	"R":  modPath,
	"S":  modPath + "/store",
	"I":  modPath + "/store/index",
	"M":  modPath + "/store/primary/multihash",
	"Cd": modPath + "/store/primary/cid",
	"F":  modPath + "/store/freelist",
	"FC": modPath + "/store/filecache",
	"T":  modPath + "/store/types",
	"P":  modPath + "/store/primary",
	"IM": modPath + "/store/primary/inmemory",
}

// Engine holds the loaded, type-checked program in SSA form.
// canonNames maps functions that were found by role (their declared name is
// not the one the rule tables use, e.g. after a rename) to the canonical name.
var canonNames = map[*ssa.Function]string{}

type Engine struct {
	anchorLog map[string]bool
	override  map[string]*ssa.Function
	RepoDir   string
	GoArch    string
	Fset      *token.FileSet
	Pkgs      []*packages.Package // module packages only
	Prog      *ssa.Program
	SSAPkg    map[string]*ssa.Package // by import path
	ModFuncs  []*ssa.Function         // every function with a body whose package is in the module
	cgVTA     *callgraph.Graph
	cgCHA     *callgraph.Graph
	UseCHA    bool // thorough tier: resolve dynamic calls with CHA instead of VTA
	allFuncs  map[*ssa.Function]bool
	siteMemo  map[ssa.CallInstruction][]*ssa.Function
}

func toolEnv(goarch string) []string {
	var env []string
	for _, kv := range os.Environ() {
		k := kv
		if i := strings.IndexByte(kv, '='); i >= 0 {
			k = kv[:i]
		}
		switch k {
		case "GOFLAGS", "GOPROXY", "GOTOOLCHAIN", "GOWORK", "PATH", "GOARCH", "GOSUMDB", "GONOSUMDB", "GONOSUMCHECK", "GOFLAGS_EXTRA":
			continue
		}
		env = append(env, kv)
	}
	goBin := "/opt/veriftools/go1.26.8/bin"
	env = append(env,
		"PATH="+goBin+":"+os.Getenv("PATH"),
		"GOTOOLCHAIN=local",
		"GOFLAGS=-mod=mod",
		"GOPROXY=off",
		"GOWORK=off",
	)
	if goarch != "" {
		env = append(env, "GOARCH="+goarch)
	}
	return env
}

// Load type-checks every package of the module under repoDir and builds SSA.
func Load(repoDir, goarch string, overlay map[string][]byte) (*Engine, error) {
	cfg := &packages.Config{
		Mode:    packages.LoadAllSyntax | packages.NeedModule,
		Dir:     repoDir,
		Env:     toolEnv(goarch),
		Tests:   false,
		Overlay: overlay,
	}
	pkgs, err := packages.Load(cfg, "./...")
	if err != nil {
		return nil, fmt.Errorf("packages.Load: %w", err)
	}
	if len(pkgs) == 0 {
		return nil, fmt.Errorf("no packages loaded from %s", repoDir)
	}
	var errs []string
	packages.Visit(pkgs, nil, func(p *packages.Package) {
		for _, e := range p.Errors {
			errs = append(errs, e.Error())
		}
	})
	if len(errs) > 0 {
		if len(errs) > 8 {
			errs = errs[:8]
		}
		return nil, fmt.Errorf("type/load errors: %s", strings.Join(errs, "; "))
	}
	e := &Engine{RepoDir: repoDir, GoArch: goarch, SSAPkg: map[string]*ssa.Package{}, siteMemo: map[ssa.CallInstruction][]*ssa.Function{}}
	for _, p := range pkgs {
		if p.PkgPath == modPath || strings.HasPrefix(p.PkgPath, modPath+"/") {
			e.Pkgs = append(e.Pkgs, p)
		}
	}
	if len(e.Pkgs) == 0 {
		return nil, fmt.Errorf("no package of module %s found under %s", modPath, repoDir)
	}
	sort.Slice(e.Pkgs, func(i, j int) bool { return e.Pkgs[i].PkgPath < e.Pkgs[j].PkgPath })
	e.Fset = pkgs[0].Fset
	prog, _ := ssautil.AllPackages(pkgs, ssa.InstantiateGenerics)
	prog.Build()
	e.Prog = prog
	for _, p := range e.Pkgs {
		sp := prog.Package(p.Types)
		if sp == nil {
			return nil, fmt.Errorf("no SSA package for %s", p.PkgPath)
		}
		e.SSAPkg[p.PkgPath] = sp
	}
	e.allFuncs = ssautil.AllFunctions(prog)
	for fn := range e.allFuncs {
		if fn.Blocks == nil {
			continue
		}
		if e.InModule(fn) {
			e.ModFuncs = append(e.ModFuncs, fn)
		}
	}
	staticCallers = map[*ssa.Function][]*ssa.Call{}
	usedAsValue = map[*ssa.Function]bool{}
	for _, fn := range e.ModFuncs {
		for _, b := range fn.Blocks {
			for _, in := range b.Instrs {
				var callee *ssa.Function
				if c, ok := in.(*ssa.Call); ok {
					if f := c.Call.StaticCallee(); f != nil && f.Blocks != nil {
						staticCallers[f] = append(staticCallers[f], c)
						callee = f
					}
				}
				for _, op := range in.Operands(nil) {
					if f, ok := (*op).(*ssa.Function); ok && f != callee {
						usedAsValue[f] = true
					}
				}
			}
		}
	}
	e.anchorLog = map[string]bool{}
	e.override = map[string]*ssa.Function{}
	e.resolveFields()
	e.resolveRoles()
	sort.Slice(e.ModFuncs, func(i, j int) bool {
		a, b := e.ModFuncs[i], e.ModFuncs[j]
		if a.Pos() != b.Pos() {
			return a.Pos() < b.Pos()
		}
		return a.String() < b.String()
	})
	return e, nil
}

// InModule reports whether fn (or, for anonymous functions and wrappers, the
// function it belongs to) is declared in the module under analysis.
func (e *Engine) InModule(fn *ssa.Function) bool {
	for f := fn; f != nil; f = f.Parent() {
		if f.Pkg != nil {
			_, ok := e.SSAPkg[f.Pkg.Pkg.Path()]
			return ok
		}
		if o := f.Origin(); o != nil && o != f {
			return e.InModule(o)
		}
	}
	// Synthetic wrappers ($bound, $thunk) have no Pkg; use the object.
	if obj := fn.Object(); obj != nil && obj.Pkg() != nil {
		_, ok := e.SSAPkg[obj.Pkg().Path()]
		return ok
	}
	return false
}

// BuildConstraintFiles lists module source files that carry build
// constraints (a //go:build line or a GOOS/GOARCH file suffix), so coverage
// of build configurations can be reported.
func (e *Engine) ConstrainedFiles() []string {
	var out []string
	_ = filepath.Walk(e.RepoDir, func(path string, info os.FileInfo, err error) error {
		if err != nil || info.IsDir() || !strings.HasSuffix(path, ".go") || strings.HasSuffix(path, "_test.go") {
			return nil
		}
		data, err := os.ReadFile(path)
		if err != nil {
			return nil
		}
		head := string(data)
		if i := strings.Index(head, "\npackage "); i >= 0 {
			head = head[:i]
		}
		if strings.Contains(head, "//go:build") || strings.Contains(head, "// +build") {
			out = append(out, path)
			return nil
		}
		base := strings.TrimSuffix(filepath.Base(path), ".go")
		parts := strings.Split(base, "_")
		if len(parts) > 1 {
			last := parts[len(parts)-1]
			switch last {
			case "linux", "windows", "darwin", "freebsd", "amd64", "386", "arm", "arm64", "unix", "js", "wasm":
				out = append(out, path)
			}
		}
		return nil
	})
	return out
}

func (e *Engine) CG() *callgraph.Graph {
	if e.UseCHA {
		if e.cgCHA == nil {
			e.cgCHA = cha.CallGraph(e.Prog)
		}
		return e.cgCHA
	}
	if e.cgVTA == nil {
		if e.cgCHA == nil {
			e.cgCHA = cha.CallGraph(e.Prog)
		}
		e.cgVTA = vta.CallGraph(e.allFuncs, e.cgCHA)
	}
	return e.cgVTA
}

// Callees returns the functions a call site may invoke (static callee, or the
// call graph's resolution for dynamic calls).
func (e *Engine) Callees(site ssa.CallInstruction) []*ssa.Function {
	if fs, ok := e.siteMemo[site]; ok {
		return fs
	}
	var out []*ssa.Function
	if f := site.Common().StaticCallee(); f != nil {
		out = []*ssa.Function{f}
	} else if _, isBuiltin := site.Common().Value.(*ssa.Builtin); !isBuiltin {
		n := e.CG().Nodes[site.Parent()]
		if n != nil {
			seen := map[*ssa.Function]bool{}
			for _, edge := range n.Out {
				if edge.Site == site && !seen[edge.Callee.Func] {
					seen[edge.Callee.Func] = true
					out = append(out, edge.Callee.Func)
				}
			}
		}
		sort.Slice(out, func(i, j int) bool { return out[i].String() < out[j].String() })
	}
	e.siteMemo[site] = out
	return out
}

func (e *Engine) resetMemo() { e.siteMemo = map[ssa.CallInstruction][]*ssa.Function{} }

// Pos renders a position relative to the repository root.
func (e *Engine) Pos(p token.Pos) string {
	if !p.IsValid() {
		return "-"
	}
	pp := e.Fset.Position(p)
	rel, err := filepath.Rel(e.RepoDir, pp.Filename)
	if err != nil {
		rel = pp.Filename
	}
	return fmt.Sprintf("%s:%d", rel, pp.Line)
}

// Func resolves "Alias.name" or "Alias.(*T).name" / "Alias.(T).name" to an SSA
// function; nil if it does not exist.
func (e *Engine) Func(alias, name string) *ssa.Function {
	if e.anchorLog != nil {
		e.anchorLog[alias+"|"+name] = true
	}
	if f, ok := e.override[alias+"|"+name]; ok {
		return f
	}
	return e.funcByName(alias, name)
}

func (e *Engine) funcByName(alias, name string) *ssa.Function {
	path, ok := pkgAlias[alias]
	if !ok {
		path = alias
	}
	sp := e.SSAPkg[path]
	if sp == nil {
		return nil
	}
	if strings.HasPrefix(name, "(") {
		// method: (*T).m or (T).m
		end := strings.Index(name, ").")
		if end < 0 {
			return nil
		}
		recv := name[1:end]
		mname := name[end+2:]
		ptr := strings.HasPrefix(recv, "*")
		recv = strings.TrimPrefix(recv, "*")
		tobj := sp.Pkg.Scope().Lookup(recv)
		if tobj == nil {
			return nil
		}
		var t types.Type = tobj.Type()
		if ptr {
			t = types.NewPointer(t)
		}
		sel := e.Prog.MethodSets.MethodSet(t).Lookup(sp.Pkg, mname)
		if sel == nil {
			return nil
		}
		return e.Prog.MethodValue(sel)
	}
	return sp.Func(name)
}

// Anon returns the i-th anonymous function declared inside fn (source order).
func Anon(fn *ssa.Function, i int) *ssa.Function {
	if fn == nil || i >= len(fn.AnonFuncs) {
		return nil
	}
	return fn.AnonFuncs[i]
}

// NamedType resolves "Alias.T" to the named type.
func (e *Engine) NamedType(alias, name string) *types.Named {
	path, ok := pkgAlias[alias]
	if !ok {
		path = alias
	}
	sp := e.SSAPkg[path]
	if sp == nil {
		return nil
	}
	o := sp.Pkg.Scope().Lookup(name)
	if o == nil {
		// renamed type resolved by structure
		for k, v := range canonTypes {
			if v == name && strings.HasPrefix(k, path+".") {
				o = sp.Pkg.Scope().Lookup(k[len(path)+1:])
			}
		}
		if o == nil {
			return nil
		}
	}
	n, _ := o.Type().(*types.Named)
	return n
}

// shortName gives a compact, stable name for a function: pkgname.(*T).m
func shortFunc(fn *ssa.Function) string {
	if fn == nil {
		return "<nil>"
	}
	if c, ok := canonNames[fn]; ok {
		return c
	}
	if p := fn.Parent(); p != nil {
		if c, ok := canonNames[p]; ok {
			// anonymous function of a role-resolved function
			return c + strings.TrimPrefix(fn.String(), p.String())
		}
	}
	return rawShortFunc(fn)
}

func rawShortFunc(fn *ssa.Function) string {
	s := fn.String()
	s = strings.ReplaceAll(s, modPath+"/store/primary/multihash", "mhprimary")
	s = strings.ReplaceAll(s, modPath+"/store/primary/cid", "cidprimary")
	s = strings.ReplaceAll(s, modPath+"/store/primary/inmemory", "inmemory")
	s = strings.ReplaceAll(s, modPath+"/store/primary", "primary")
	s = strings.ReplaceAll(s, modPath+"/store/index", "index")
	s = strings.ReplaceAll(s, modPath+"/store/freelist", "freelist")
	s = strings.ReplaceAll(s, modPath+"/store/filecache", "filecache")
	s = strings.ReplaceAll(s, modPath+"/store/types", "types")
	s = strings.ReplaceAll(s, modPath+"/store/testutil", "testutil")
	s = strings.ReplaceAll(s, modPath+"/store", "store")
	s = strings.ReplaceAll(s, modPath, "storethehash")
	return s
}

func readOverlay(path string) (map[string][]byte, error) {
	if path == "" {
		return nil, nil
	}
	data, err := os.ReadFile(path)
	if err != nil {
		return nil, err
	}
	var m map[string]string
	if err := json.Unmarshal(data, &m); err != nil {
		return nil, err
	}
	out := map[string][]byte{}
	for k, v := range m {
		out[k] = []byte(v)
	}
	return out, nil
}

// ---------------------------------------------------------------------------
// role-based anchor resolution: when a function the rule tables name is not
// found under that name (renamed), it is looked up by its recorded fingerprint
// (package, signature, set of callees) — see roles.json, written by
// `sthlint -dump-roles` from a tree on which all anchors resolve by name.

type roleFP struct {
	Alias   string   `json:"alias"`
	Name    string   `json:"name"`
	Sig     string   `json:"sig"`
	Callees []string `json:"callees"`
}

//go:embed roles.json
var rolesJSON []byte

func fingerprint(fn *ssa.Function) (string, []string) {
	sig := types.TypeString(fn.Signature, typeQualifier)
	if recv := fn.Signature.Recv(); recv != nil {
		sig = "(" + types.TypeString(recv.Type(), typeQualifier) + ")" + sig
	}
	set := map[string]bool{}
	for _, f := range withAnonsAll(fn) {
		for _, b := range f.Blocks {
			for _, in := range b.Instrs {
				if ci, ok := in.(ssa.CallInstruction); ok {
					c := ci.Common()
					if c.IsInvoke() {
						set["invoke:"+c.Method.Name()] = true
					} else if sc := c.StaticCallee(); sc != nil {
						// canonical name when the callee itself was found by role
						set[shortFunc(sc)] = true
					} else if b, ok := c.Value.(*ssa.Builtin); ok {
						set["builtin."+b.Name()] = true
					}
				}
				if fa, ok := in.(*ssa.FieldAddr); ok {
					set["field:"+fieldName(fa.X.Type(), fa.Field)] = true
				}
			}
		}
	}
	var out []string
	for k := range set {
		out = append(out, k)
	}
	sort.Strings(out)
	return sig, out
}

func withAnonsAll(fn *ssa.Function) []*ssa.Function {
	out := []*ssa.Function{fn}
	for _, a := range fn.AnonFuncs {
		out = append(out, withAnonsAll(a)...)
	}
	return out
}

func (e *Engine) resolveRoles() {
	var roles []roleFP
	if len(rolesJSON) == 0 || json.Unmarshal(rolesJSON, &roles) != nil {
		return
	}
	taken := map[*ssa.Function]bool{}
	for _, r := range roles {
		if f := e.funcByName(r.Alias, r.Name); f != nil {
			taken[f] = true
		}
	}
	for pass := 0; pass < 4; pass++ {
		progress := false
		for _, r := range roles {
			if e.funcByName(r.Alias, r.Name) != nil {
				continue
			}
			if _, done := e.override[r.Alias+"|"+r.Name]; done {
				continue
			}
			if e.resolveRole(r, taken) {
				progress = true
			}
		}
		if !progress {
			break
		}
	}
	anchorFuncs = map[*ssa.Function]bool{}
	scopeCache = map[*ssa.Function][]*ssa.Function{}
	for _, r := range roles {
		if f := e.Func(r.Alias, r.Name); f != nil {
			anchorFuncs[f] = true
		}
	}
}

func (e *Engine) resolveRole(r roleFP, taken map[*ssa.Function]bool) bool {
	{
		path := pkgAlias[r.Alias]
		want := map[string]bool{}
		for _, c := range r.Callees {
			want[c] = true
		}
		var best, second float64
		var bestFn *ssa.Function
		for _, fn := range e.ModFuncs {
			if fn.Parent() != nil || fn.Pkg == nil || fn.Pkg.Pkg.Path() != path || taken[fn] || fn.Synthetic != "" {
				continue
			}
			sig, callees := fingerprint(fn)
			if sig != r.Sig {
				continue
			}
			inter, union := 0, len(want)
			for _, c := range callees {
				if want[c] {
					inter++
				} else {
					union++
				}
			}
			score := 1.0
			if union > 0 {
				score = float64(inter) / float64(union)
			}
			if score > best {
				second = best
				best, bestFn = score, fn
			} else if score > second {
				second = score
			}
		}
		if bestFn != nil && best >= 0.5 && best-second >= 0.1 {
			e.override[r.Alias+"|"+r.Name] = bestFn
			taken[bestFn] = true
			canon := r.Name
			q := typeQualifier(bestFn.Pkg.Pkg)
			if strings.HasPrefix(canon, "(*") {
				canon = "(*" + q + "." + canon[2:]
			} else if strings.HasPrefix(canon, "(") {
				canon = "(" + q + "." + canon[1:]
			} else {
				canon = q + "." + canon
			}
			canonNames[bestFn] = canon
			return true
		}
	}
	return false
}

// dumpRoles writes the fingerprints of all anchors requested so far.
func (e *Engine) dumpRoles(path string) error {
	var roles []roleFP
	var keys []string
	for k := range e.anchorLog {
		keys = append(keys, k)
	}
	sort.Strings(keys)
	for _, k := range keys {
		parts := strings.SplitN(k, "|", 2)
		f := e.funcByName(parts[0], parts[1])
		if f == nil || f.Blocks == nil {
			continue
		}
		sig, callees := fingerprint(f)
		roles = append(roles, roleFP{parts[0], parts[1], sig, callees})
	}
	data, _ := json.MarshalIndent(roles, "", " ")
	fdata, _ := json.MarshalIndent(e.structFields(), "", " ")
	if err := os.WriteFile(filepath.Join(filepath.Dir(path), "fields.json"), fdata, 0o644); err != nil {
		return err
	}
	return os.WriteFile(path, data, 0o644)
}

type fieldFP struct {
	Type   string `json:"type"` // pkgpath.TypeName
	Name   string `json:"name"`
	Index  int    `json:"index"`
	FType  string `json:"ftype"`
	NField int    `json:"nfield"`
}

//go:embed fields.json
var fieldsJSON []byte

func (e *Engine) structFields() []fieldFP {
	var out []fieldFP
	for _, p := range e.Pkgs {
		sc := p.Types.Scope()
		for _, name := range sc.Names() {
			tn, ok := sc.Lookup(name).(*types.TypeName)
			if !ok {
				continue
			}
			st, ok := tn.Type().Underlying().(*types.Struct)
			if !ok {
				continue
			}
			for i := 0; i < st.NumFields(); i++ {
				out = append(out, fieldFP{p.PkgPath + "." + name, st.Field(i).Name(), i, types.TypeString(st.Field(i).Type(), typeQualifier), st.NumFields()})
			}
		}
	}
	return out
}

// resolveFields: a field the tables know that no longer exists under its name
// is identified with the field at the same position (or the only other
// unmatched field of the same type) of the same struct.
func (e *Engine) resolveFields() {
	var old []fieldFP
	if len(fieldsJSON) == 0 || json.Unmarshal(fieldsJSON, &old) != nil {
		return
	}
	cur := map[string][]fieldFP{}
	for _, f := range e.structFields() {
		cur[f.Type] = append(cur[f.Type], f)
	}
	oldBy := map[string][]fieldFP{}
	for _, f := range old {
		oldBy[f.Type] = append(oldBy[f.Type], f)
	}
	// renamed struct types: an old type that no longer exists is identified
	// with the only new type of the same package with the same field types
	shape := func(fs []fieldFP) string {
		var parts []string
		for _, f := range fs {
			parts = append(parts, f.FType)
		}
		return strings.Join(parts, ";")
	}
	pkgOf := func(t string) string { return t[:strings.LastIndex(t, ".")] }
	for ot, ofs := range oldBy {
		if _, still := cur[ot]; still {
			continue
		}
		var cands []string
		for ct, cfs := range cur {
			if _, known := oldBy[ct]; known || pkgOf(ct) != pkgOf(ot) {
				continue
			}
			// field types may mention the renamed type itself: compare with the names masked
			if len(cfs) == len(ofs) && maskNames(shape(cfs), ct, ot) == maskNames(shape(ofs), ct, ot) {
				cands = append(cands, ct)
			}
		}
		if len(cands) == 1 {
			ct := cands[0]
			canonTypes[ct] = ot[strings.LastIndex(ot, ".")+1:]
			// fields of the renamed type: by position
			for i, cf := range cur[ct] {
				if i < len(ofs) && cf.Name != ofs[i].Name {
					canonFields[ct+"."+cf.Name] = ofs[i].Name
				}
			}
			cur[ot] = nil
		}
	}
	for typ, ofs := range oldBy {
		cfs := cur[typ]
		if len(cfs) == 0 {
			continue
		}
		have := map[string]bool{}
		for _, c := range cfs {
			have[c.Name] = true
		}
		known := map[string]bool{}
		for _, o := range ofs {
			known[o.Name] = true
		}
		for _, o := range ofs {
			if have[o.Name] {
				continue
			}
			// candidates: current fields whose name is new, same type
			var cands []fieldFP
			for _, c := range cfs {
				if !known[c.Name] && c.FType == o.FType {
					cands = append(cands, c)
				}
			}
			var pick *fieldFP
			for i := range cands {
				if cands[i].Index == o.Index {
					pick = &cands[i]
				}
			}
			if pick == nil && len(cands) == 1 {
				pick = &cands[0]
			}
			if pick != nil {
				canonFields[typ+"."+pick.Name] = o.Name
			}
		}
	}
}

func maskNames(s, a, b string) string {
	an := a[strings.LastIndex(a, ".")+1:]
	bn := b[strings.LastIndex(b, ".")+1:]
	s = strings.ReplaceAll(s, an, "#")
	return strings.ReplaceAll(s, bn, "#")
}

// InModulePkg reports whether p is one of the analysed module's packages.
func (e *Engine) InModulePkg(p *types.Package) bool {
	if p == nil {
		return false
	}
	_, ok := e.SSAPkg[p.Path()]
	return ok
}
