package main

import (
	"fmt"
	"go/token"
	"sort"
	"strings"

	"golang.org/x/tools/go/ssa"
)

// R-PUBLISHED-BYTES-IMMUTABLE: record lists published in the index pools (and
// served to lock-free readers after the lookup) are never modified in place;
// this is assumption (2) of the race check, checked here.
func rulePublishedBytes(r *Report) {
	const rule = "published-bytes-immutable"
	la := newLockAnalysis(r.E)
	n := 0
	for _, m := range []string{"Put", "Update", "Remove", "Get", "Flush"} {
		fn := r.need(rule, "I", "(*Index)."+m)
		if fn == nil {
			continue
		}
		// tainted: values that may alias a published record list
		isPub := func(v ssa.Value) bool {
			return derives(v, flowOpts{ThroughCalls: map[string]bool{"index.NewRecordListRaw": true, "index.NewRecordList": true}}, func(x ssa.Value) bool {
				if c, ok := x.(*ssa.Call); ok {
					switch cname(c) {
					case "(*index.Index).getRecordsFromBucket", "(*index.Index).readBucketInfo", "(*index.Index).readCached":
						return true
					}
				}
				if lk, ok := x.(*ssa.Lookup); ok {
					f := fieldOfLoad(lk.X)
					return f == "Index.nextPool" || f == "Index.curPool"
				}
				if rg, ok := x.(*ssa.Range); ok {
					f := fieldOfLoad(rg.X)
					return f == "Index.nextPool" || f == "Index.curPool"
				}
				return false
			})
		}
		bad := false
		eachInstr(fn, func(in ssa.Instruction) {
			switch x := in.(type) {
			case *ssa.Store:
				if ia, ok := x.Addr.(*ssa.IndexAddr); ok && isByteSlice(ia.X.Type()) && isPub(ia.X) {
					bad = true
					r.Bad(rule, "(*Index)."+m+"/element-store", instrPos(x), "a byte of a published record list is overwritten in place: Get searches the list after releasing bucketLk and Flush writes it without the lock, so readers see torn locations")
				}
			case ssa.CallInstruction:
				c := x.Common()
				name := cname(x)
				switch {
				case strings.HasPrefix(name, "(encoding/binary.littleEndian).PutUint"):
					if isPub(c.Args[1]) {
						bad = true
						r.Bad(rule, "(*Index)."+m+"/PutUint-in-place", x.Pos(), "an offset/size is encoded in place into a published record list instead of building a new list with PutKeys: concurrent readers (Get after releasing bucketLk, Flush) see torn or changing entries")
					}
				case name == "builtin.copy":
					if isPub(c.Args[0]) {
						bad = true
						r.Bad(rule, "(*Index)."+m+"/copy-into-published", x.Pos(), "copy() writes into a published record list")
					}
				case name == "builtin.append":
					if isByteSlice(c.Args[0].Type()) && isPub(c.Args[0]) {
						bad = true
						r.Bad(rule, "(*Index)."+m+"/append-to-published", x.Pos(), "append() to a published record list may write into its shared backing array")
					}
				default:
					for _, callee := range r.E.Callees(x) {
						if callee.Blocks == nil || !r.E.InModule(callee) {
							continue
						}
						// a helper that encodes into (a sub-slice of) its parameter — RecordList.SetBlock(pos, blk)
						for i, a := range c.Args {
							if c.IsInvoke() || i >= len(callee.Params) || !isByteSlice(a.Type()) || !isPub(a) {
								continue
							}
							par := ssa.Value(callee.Params[i])
							writes := false
							eachInstr(callee, func(y ssa.Instruction) {
								switch w := y.(type) {
								case ssa.CallInstruction:
									wn := cname(w)
									wa := w.Common().Args
									if strings.HasPrefix(wn, "(encoding/binary.littleEndian).PutUint") && len(wa) > 1 && derives(wa[1], flowOpts{}, func(v ssa.Value) bool { return v == par }) {
										writes = true
									}
									if wn == "builtin.copy" && derives(wa[0], flowOpts{}, func(v ssa.Value) bool { return v == par }) {
										writes = true
									}
								case *ssa.Store:
									if ia, ok := w.Addr.(*ssa.IndexAddr); ok && derives(ia.X, flowOpts{}, func(v ssa.Value) bool { return v == par }) {
										writes = true
									}
								}
							})
							if writes {
								bad = true
								r.Bad(rule, "(*Index)."+m+"/"+shortFunc(callee)+"-writes-arg", x.Pos(), shortFunc(callee)+" encodes into the byte slice it is given, and is given a published record list: concurrent readers (Get after releasing bucketLk, Flush) see torn or changing entries, and a list already handed to a flush changes under it")
							}
						}
						fx := la.paramContentFx(callee)
						off := 0
						if c.IsInvoke() {
							off = 1
						}
						for i, a := range c.Args {
							if i+off < len(fx) && fx[i+off]&2 != 0 && isByteSlice(a.Type()) && isPub(a) {
								bad = true
								r.Bad(rule, "(*Index)."+m+"/"+shortFunc(callee)+"-writes-arg", x.Pos(), shortFunc(callee)+" writes into the byte slice it is given, and is given a published record list")
							}
						}
					}
				}
			}
		})
		n++
		if !bad {
			r.Ok(rule, "(*Index)."+m, fn.Pos(), "no in-place write into a record list obtained from the pools (new lists are built by PutKeys)")
		}
	}
	r.Min(rule, 5)
}

// R-ROLLOVER-SWITCH: when an appender starts a new file, the old file is
// closed and the writer re-pointed only after the buffered data was flushed.
func ruleRolloverSwitch(r *Report) {
	const rule = "rollover-switch"
	for _, t := range []struct{ alias, fn, typ string }{{"I", "(*Index).flushBucket", "Index"}, {"M", "(*MultihashPrimary).flushBlock", "MultihashPrimary"}} {
		fn := r.need(rule, t.alias, t.fn)
		if fn == nil {
			continue
		}
		var flush *ssa.Call
		for _, c := range callSites(fn, "(*bufio.Writer).Flush") {
			if receiverField(c) == t.typ+".writer" {
				flush = asCall(c)
			}
		}
		if flush == nil {
			r.Bad(rule, shortFunc(fn)+"/flush", fn.Pos(), "the appender never flushes its writer before switching files")
			continue
		}
		var steps []ssa.Instruction
		for _, c := range callSites(fn, "(*os.File).Close", "(*bufio.Writer).Reset") {
			steps = append(steps, c)
		}
		for _, st := range fieldStores(fn, t.typ+".file") {
			steps = append(steps, st)
		}
		for _, st := range fieldStores(fn, t.typ+".fileNum") {
			steps = append(steps, st)
		}
		if len(steps) < 4 {
			r.Bad(rule, shortFunc(fn)+"/switch-steps", fn.Pos(), fmt.Sprintf("found %d of the expected file-switch steps (close old, reset writer, store file, store fileNum)", len(steps)))
		}
		for _, s := range steps {
			ok, path := successGuard(fn, s, flush)
			what := strings.TrimSpace(s.String())
			if ok {
				r.Ok(rule, shortFunc(fn)+"/after-flush", instrPos(s), "file switch step only after the writer was flushed successfully")
			} else {
				r.BadPath(rule, shortFunc(fn)+"/after-flush", instrPos(s), "the appender switches files ("+what+") without the buffered data having been flushed to the old file first: the tail of the old file is lost or lands in the new file, every later position is off", path)
			}
		}
		// the new file is opened before anything is switched (a failed open leaves the appender intact)
		for _, o := range callSites(fn, "os.OpenFile", "index.openFileAppend") {
			for _, s := range steps {
				if ok, _ := successGuard(fn, s, asCall(o)); !ok {
					r.Bad(rule, shortFunc(fn)+"/open-new-before-switch", instrPos(s), "a file-switch step can run although opening the new file failed")
				}
			}
			r.Ok(rule, shortFunc(fn)+"/open-new-before-switch", o.Pos(), "the new file is opened successfully before any switch step")
		}
	}
	r.Min(rule, 10)
}

// R-SPAWN-ONCE: background goroutines that can be started by a public call
// are started at most once.
func ruleSpawnOnce(r *Report, rule string) {
	if fn := r.need(rule, "S", "(*Store).Start"); fn != nil {
		fi := lockFlow(fn, LockSet{})
		var prev []*ssa.UnOp
		for _, ld := range fieldLoads(fn, "Store.running") {
			if fi.at[ld]["store.Store.stateLk"] == modeW {
				prev = append(prev, ld)
			}
		}
		set := false
		for _, st := range fieldStores(fn, "Store.running") {
			if b, isC := boolConst(st.Val); isC && b && fi.at[st]["store.Store.stateLk"] == modeW {
				set = true
			}
		}
		notRunning := condEdges(fn, func(cond ssa.Value) (bool, bool) {
			for _, p := range prev {
				if cond == ssa.Value(p) {
					return false, true
				}
			}
			return false, false
		})
		eachInstr(fn, func(in ssa.Instruction) {
			g, ok := in.(*ssa.Go)
			if !ok {
				return
			}
			ok2, path := guarded(fn, g, mkEdgeSet(notRunning), nil)
			if ok2 && set && len(notRunning) > 0 {
				r.Ok(rule, "(*Store).Start/spawn-once", g.Pos(), "the flusher is started only if `running` was false, and `running` is read and set in one stateLk section")
			} else {
				r.BadPath(rule, "(*Store).Start/spawn-once", g.Pos(), "Start can launch a second flusher goroutine (not conditioned on the previous value of `running`, read and set under stateLk): Close stops and waits for only one", path)
			}
		})
	}
	if fn := r.need(rule, "M", "(*MultihashPrimary).StartGC"); fn != nil {
		fi := lockFlow(fn, LockSet{})
		none := nilEdges(fn, func(v ssa.Value) bool { return fieldOfLoad(v) == "MultihashPrimary.gc" }, false)
		for _, c := range callSites(fn, "mhprimary.newGC") {
			ok, path := guarded(fn, c, mkEdgeSet(none), nil)
			_, locked := fi.at[c]["mhprimary.MultihashPrimary.gcMutex"]
			if ok && locked && len(none) > 0 {
				r.Ok(rule, "(*MultihashPrimary).StartGC/spawn-once", c.Pos(), "primary GC is created only when there is none, under gcMutex")
			} else {
				r.BadPath(rule, "(*MultihashPrimary).StartGC/spawn-once", c.Pos(), "StartGC can create a second primary GC (not conditioned on mp.gc == nil under gcMutex): Close stops only the last one", path)
			}
		}
	}
}

// extendedRootsInfo (thorough tier): adds the entry points that the statement
// of C16 does not list and reports unprotected pairs informationally.
func extendedRootsInfo(r *Report) {
	e := r.E
	la, rt := runLockAnalysis(r, "race")
	armed := map[string]bool{}
	for _, rc := range la.Races(rt.roots) {
		armed[raceKey(rc.Loc, rc.A, rc.B)] = true
	}
	ext := ThreadRoot{Name: "EXT", SelfConcurrent: true}
	for _, a := range [][2]string{{"S", "(*Store).NewIterator"}, {"S", "(*Iterator).Next"}, {"S", "(*Store).Start"}, {"S", "(*Store).Close"}, {"M", "(*MultihashPrimary).GC"}, {"R", "(*HashedBlockstore).HashOnRead"}} {
		if f := e.Func(a[0], a[1]); f != nil {
			ext.Funcs = append(ext.Funcs, f)
			la.Walk(ext.Name, f, LockSet{})
		}
	}
	roots := append(append([]ThreadRoot{}, rt.roots...), ext)
	var extra []string
	for _, rc := range la.Races(roots) {
		k := raceKey(rc.Loc, rc.A, rc.B)
		if !armed[k] {
			extra = append(extra, k)
		}
	}
	sort.Strings(extra)
	r.Info = append(r.Info, fmt.Sprintf("C16 informational (not armed: entry points outside the statement — iterators, Start, Close, manual GC, HashOnRead — analysed without channel happens-before): %d additional unprotected pairs", len(extra)))
	for i, k := range extra {
		if i >= 25 {
			r.Info = append(r.Info, fmt.Sprintf("  … %d more", len(extra)-i))
			break
		}
		r.Info = append(r.Info, "  info-race "+k)
	}
	_ = token.NoPos
}
