package main

import (
	"fmt"
	"go/constant"
	"go/token"
	"go/types"

	"golang.org/x/tools/go/ssa"
)

// ---------------------------------------------------------------------------
// key-match evidence (shared by C01, C05, C13)

var indexKeyCalls = map[string]bool{
	"(primary.PrimaryStorage).IndexKey":         true,
	"(*mhprimary.MultihashPrimary).IndexKey":    true,
	"(*cidprimary.CIDPrimary).IndexKey":         true,
	"(*inmemory.InMemory).IndexKey":             true,
	"(*store.Store).indexKey":                   false,
	"(primary.PrimaryStorage).GetIndexKey":      false,
	"(*mhprimary.MultihashPrimary).GetIndexKey": false,
	"(*cidprimary.CIDPrimary).GetIndexKey":      false,
	"(*inmemory.InMemory).GetIndexKey":          false,
}

var primaryReadCalls = []string{
	"(primary.PrimaryStorage).Get", "(primary.PrimaryStorage).GetIndexKey",
	"(*mhprimary.MultihashPrimary).Get", "(*mhprimary.MultihashPrimary).GetIndexKey",
	"(*cidprimary.CIDPrimary).Get", "(*cidprimary.CIDPrimary).GetIndexKey",
}

func isByteSlice(t types.Type) bool {
	s, ok := t.Underlying().(*types.Slice)
	if !ok {
		return false
	}
	b, ok := s.Elem().Underlying().(*types.Basic)
	return ok && b.Kind() == types.Uint8
}

func throughIndexKey() flowOpts {
	m := map[string]bool{}
	for k, v := range indexKeyCalls {
		if v {
			m[k] = true
		}
	}
	return flowOpts{ThroughCalls: m}
}

// keyEvidence describes where in fn a full-key comparison between the
// requested key and the key stored at the location the index returned is known
// to have succeeded.
type keyEvidence struct {
	edges  []Edge
	values map[ssa.Value]bool // boolean values that ARE the comparison result
	sites  []string
}

// reqKeyParam: -1 means "any []byte parameter of fn or IndexKey of it";
// otherwise the index of the parameter that carries the requested index key.
func findKeyEvidence(e *Engine, fn *ssa.Function, reqKeyParam int, depth int) keyEvidence {
	ev := keyEvidence{values: map[ssa.Value]bool{}}
	isReq := func(v ssa.Value) bool {
		return derives(v, throughIndexKey(), func(x ssa.Value) bool {
			p, ok := x.(*ssa.Parameter)
			if !ok || !isByteSlice(p.Type()) {
				return false
			}
			if reqKeyParam < 0 {
				return true
			}
			return reqKeyParam < len(fn.Params) && fn.Params[reqKeyParam] == p
		})
	}
	isStored := func(v ssa.Value) bool {
		return derives(v, throughIndexKey(), func(x ssa.Value) bool {
			c, ok := x.(*ssa.Call)
			if !ok || !isCallTo(primaryReadCalls...)(c) {
				return false
			}
			// the location read must be the one the index named (or the
			// helper's Block parameter)
			args := c.Call.Args
			var blk ssa.Value
			if c.Call.IsInvoke() {
				if len(args) > 0 {
					blk = args[0]
				}
			} else if len(args) > 1 {
				blk = args[1]
			}
			if blk == nil {
				return false
			}
			return derives(blk, flowOpts{}, func(y ssa.Value) bool {
				if isCallTo("(*index.Index).Get")(y) {
					return true
				}
				if p, ok := y.(*ssa.Parameter); ok && shortType(p.Type()) == "types.Block" {
					return true
				}
				return false
			})
		})
	}
	for _, ci := range allCalls(fn) {
		call, ok := ci.(*ssa.Call)
		if !ok {
			continue
		}
		name := cname(call)
		cargs := call.Call.Args
		// a boolean helper that only wraps bytes.Equal of two of its parameters
		if h := call.Call.StaticCallee(); h != nil && h.Blocks != nil && e.InModule(h) {
			if i, j, ok := wrapsBytesEqual(h); ok && i < len(cargs) && j < len(cargs) {
				name = "bytes.Equal"
				cargs = []ssa.Value{cargs[i], cargs[j]}
			}
		}
		switch name {
		case "bytes.Equal":
			a, b := cargs[0], cargs[1]
			if (isReq(a) && isStored(b)) || (isReq(b) && isStored(a)) {
				ev.edges = append(ev.edges, boolEdges(fn, call, true)...)
				ev.values[call] = true
				ev.sites = append(ev.sites, "bytes.Equal@"+e.Pos(call.Pos()))
			}
		case "bytes.Compare":
			a, b := call.Call.Args[0], call.Call.Args[1]
			if (isReq(a) && isStored(b)) || (isReq(b) && isStored(a)) {
				es := condEdges(fn, func(cond ssa.Value) (bool, bool) {
					bo, ok := cond.(*ssa.BinOp)
					if !ok {
						return false, false
					}
					if !(bo.X == ssa.Value(call) && isZeroConst(bo.Y)) && !(bo.Y == ssa.Value(call) && isZeroConst(bo.X)) {
						return false, false
					}
					switch bo.Op {
					case token.EQL:
						return true, false
					case token.NEQ:
						return false, true
					}
					return false, false
				})
				ev.edges = append(ev.edges, es...)
				ev.sites = append(ev.sites, "bytes.Compare@"+e.Pos(call.Pos()))
			}
		default:
			if depth >= 2 {
				continue
			}
			h := call.Call.StaticCallee()
			if h == nil || h.Blocks == nil || !e.InModule(h) {
				continue
			}
			res := h.Signature.Results()
			if res.Len() == 0 || !isByteSlice(res.At(0).Type()) {
				continue
			}
			// which argument carries the requested key?
			for i, a := range call.Call.Args {
				if !isByteSlice(a.Type()) || !isReq(a) {
					continue
				}
				if helperReturnsOnlyMatchedKey(e, h, i, depth+1) {
					rv := resultValues(call, 0)
					set := map[ssa.Value]bool{}
					for _, v := range rv {
						set[v] = true
					}
					ev.edges = append(ev.edges, nilEdges(fn, func(v ssa.Value) bool { return set[v] }, true)...)
					ev.sites = append(ev.sites, shortFunc(h)+"!=nil@"+e.Pos(call.Pos()))
					break
				}
			}
		}
	}
	return ev
}

// helperReturnsOnlyMatchedKey: every return of h whose result #0 is not the
// nil constant is guarded by h's own key-match evidence against parameter p.
func helperReturnsOnlyMatchedKey(e *Engine, h *ssa.Function, p int, depth int) bool {
	ev := findKeyEvidence(e, h, p, depth)
	if len(ev.edges) == 0 {
		return false
	}
	es := mkEdgeSet(ev.edges)
	n := 0
	for _, ret := range returnsOf(h) {
		if len(ret.Results) == 0 || isNilConst(retVal(ret, 0)) {
			continue
		}
		n++
		if ok, _ := guarded(h, ret, es, nil); !ok {
			return false
		}
	}
	return n > 0
}

// wrapsBytesEqual: h(…) bool returns, on every return, bytes.Equal(p_i, p_j)
// of two of its own parameters.
func wrapsBytesEqual(h *ssa.Function) (int, int, bool) {
	res := h.Signature.Results()
	if res.Len() != 1 || shortType(res.At(0).Type()) != "bool" {
		return 0, 0, false
	}
	pi, pj := -1, -1
	rets := returnsOf(h)
	if len(rets) == 0 {
		return 0, 0, false
	}
	for _, ret := range rets {
		c, ok := retVal(ret, 0).(*ssa.Call)
		if !ok || cname(c) != "bytes.Equal" {
			return 0, 0, false
		}
		a, okA := c.Call.Args[0].(*ssa.Parameter)
		b, okB := c.Call.Args[1].(*ssa.Parameter)
		if !okA || !okB {
			return 0, 0, false
		}
		i, j := paramIndex(a), paramIndex(b)
		if pi >= 0 && (pi != i || pj != j) {
			return 0, 0, false
		}
		pi, pj = i, j
	}
	return pi, pj, pi >= 0
}

func errKeyExistsConst(e *Engine) *types.Const {
	sp := e.SSAPkg[pkgAlias["T"]]
	if sp == nil {
		return nil
	}
	c, _ := sp.Pkg.Scope().Lookup("ErrKeyExists").(*types.Const)
	return c
}

// isConstErr reports whether v is (an interface holding) the named constant.
func isConstErr(v ssa.Value, c *types.Const) bool {
	if c == nil {
		return false
	}
	v = stripConv(v)
	k, ok := v.(*ssa.Const)
	if !ok || k.Value == nil {
		return false
	}
	return types.Identical(k.Type(), c.Type()) && constant.Compare(k.Value, token.EQL, c.Val())
}

func boolConst(v ssa.Value) (val bool, isConst bool) {
	c, ok := v.(*ssa.Const)
	if !ok || c.Value == nil || c.Value.Kind() != constant.Bool {
		return false, false
	}
	return constant.BoolVal(c.Value), true
}

var storeEffectCalls = []string{
	"(primary.PrimaryStorage).Put", "(*index.Index).Put", "(*index.Index).Update", "(*index.Index).Remove", "(*freelist.FreeList).Put",
}

func ruleKeyCheck(r *Report) {
	e := r.E
	const rule = "keycheck"
	type entry struct {
		name       string
		foundIndex int      // result index of the "present" boolean (-1: none)
		sites      []string // effect calls that act on an existing key
	}
	entries := []entry{
		{"Get", 1, nil},
		{"Has", 0, nil},
		{"GetSize", 1, nil},
		{"Remove", 0, []string{"(*index.Index).Remove", "(*freelist.FreeList).Put"}},
		{"Put", -1, []string{"(*index.Index).Update", "(*freelist.FreeList).Put"}},
	}
	kexists := errKeyExistsConst(e)
	if kexists == nil {
		r.Undecided(rule, "constant types.ErrKeyExists not found")
	}
	for _, en := range entries {
		fn := r.need(rule, "S", "(*Store)."+en.name)
		if fn == nil {
			continue
		}
		ev := findKeyEvidence(e, fn, -1, 0)
		if len(ev.edges) == 0 && len(ev.values) == 0 {
			r.Bad(rule, "(*Store)."+en.name+"/evidence", fn.Pos(), "no full-key comparison between the requested key and the key stored at the indexed location found in this function: the index stores only prefixes, so a hit may belong to another key")
			continue
		}
		es := mkEdgeSet(ev.edges)
		if en.foundIndex >= 0 {
			for _, ret := range returnsOf(fn) {
				v := retVal(ret, en.foundIndex)
				if b, isC := boolConst(v); isC && !b {
					continue // reports absent
				}
				key := fmt.Sprintf("(*Store).%s/return-present", en.name)
				if ev.values[v] {
					r.Ok(rule, key, ret.Pos(), "returned presence IS the full-key comparison result")
					continue
				}
				ok, path := guarded(fn, ret, es, nil)
				if ok {
					r.Ok(rule, key, ret.Pos(), "return reporting the key present is only reachable through the key-match edge ("+fmt.Sprint(ev.sites)+")")
				} else {
					r.BadPath(rule, key, ret.Pos(), "a return that reports the key present (or a presence value not derived from a key comparison) is reachable without a successful full-key comparison — another key sharing the stored prefix would be reported/returned", path)
				}
			}
		}
		for _, sname := range en.sites {
			for _, site := range callSites(fn, sname) {
				key := fmt.Sprintf("(*Store).%s/%s", en.name, sname)
				ok, path := guarded(fn, site, es, nil)
				if ok {
					r.Ok(rule, key, site.Pos(), "acts on an existing entry only after the full-key comparison succeeded")
				} else {
					r.BadPath(rule, key, site.Pos(), "this call changes/frees an existing entry but is reachable without a successful full-key comparison — it could hit another key that shares the stored prefix", path)
				}
				r.Sites++
			}
		}
		if en.name == "Put" {
			for _, ret := range returnsOf(fn) {
				if !isConstErr(retVal(ret, 0), kexists) {
					continue
				}
				ok, path := guarded(fn, ret, es, nil)
				if ok {
					r.Ok(rule, "(*Store).Put/return-ErrKeyExists", ret.Pos(), "key-exists is reported only after the full-key comparison succeeded")
				} else {
					r.BadPath(rule, "(*Store).Put/return-ErrKeyExists", ret.Pos(), "ErrKeyExists returned without a successful full-key comparison: a different key sharing the prefix would be rejected", path)
				}
			}
		}
	}
	r.Min(rule, 8)
}

// ruleSameValueGuard: in Store.Put a success return that stores nothing must
// be justified by the key match.
func ruleSameValueGuard(r *Report) {
	const rule = "samevalue-guard"
	fn := r.need(rule, "S", "(*Store).Put")
	if fn == nil {
		return
	}
	ev := findKeyEvidence(r.E, fn, -1, 0)
	es := expandFlagEdges(fn, mkEdgeSet(ev.edges), nil)
	puts := instrSet(callSites(fn, "(primary.PrimaryStorage).Put"))
	if len(puts) == 0 {
		r.Undecided(rule, "no call to PrimaryStorage.Put in Store.Put")
		return
	}
	success, _ := classifyReturns(fn)
	n := 0
	for _, ret := range success {
		if !isNilConst(retVal(ret, 0)) {
			continue
		}
		n++
		reach, path := Search{Fn: fn, Target: isInstr(ret), Avoid: anyOf(puts), AvoidEdges: es}.Run()
		if reach {
			r.BadPath(rule, "(*Store).Put/return-nil", ret.Pos(), "Put can return success without storing the value and without having matched the stored key: the 'identical value' exit is taken on another key's record (an empty value for a new key is silently dropped)", path)
		} else {
			r.Ok(rule, "(*Store).Put/return-nil", ret.Pos(), "every path to this success return either stores the value in the primary or passed the key-match edge")
		}
	}
	if n == 0 {
		r.Undecided(rule, "no success return found in Store.Put")
	}
	r.Min(rule, 2)
}

// ruleOpaqueValue: the cached-or-disk decision of a primary's Get must not
// depend on the stored value bytes (nil and empty values are values).
func ruleOpaqueValue(r *Report) {
	const rule = "opaque-value"
	impls := [][3]string{{"M", "(*MultihashPrimary).Get", "blockRecord.value"}, {"Cd", "(*CIDPrimary).Get", "blockRecord.value"}}
	for _, im := range impls {
		fn := r.need(rule, im[0], im[1])
		if fn == nil {
			continue
		}
		if r.E.NamedType(im[0], "blockRecord") == nil {
			r.Undecided(rule, im[0]+".blockRecord type not found")
			continue
		}
		bad := false
		for _, b := range fn.Blocks {
			ifi, ok := lastInstr(b).(*ssa.If)
			if !ok {
				continue
			}
			if derives(ifi.Cond, flowOpts{Arith: true, Returns: true, ThroughCalls: map[string]bool{"builtin.len": true}}, isFieldLoad(im[2])) {
				bad = true
				r.Bad(rule, shortFunc(fn)+"/branch-on-value", instrPos(ifi), "a branch in the primary's Get depends on the cached record's value bytes: a nil/empty value put and read before the flush is treated as a cache miss, read from disk (not yet written) and the key is then deleted")
			}
		}
		if !bad {
			r.Ok(rule, shortFunc(fn)+"/branch-on-value", fn.Pos(), "no branch in Get is data-dependent on "+im[2])
		}
	}
	r.Min(rule, 2)
}

// ruleImmutableNoEffect: the key-exists rejection happens before any write.
func ruleImmutableNoEffect(r *Report) {
	const rule = "immutable-noeffect"
	fn := r.need(rule, "S", "(*Store).Put")
	if fn == nil {
		return
	}
	kexists := errKeyExistsConst(r.E)
	n := 0
	for _, ret := range returnsOf(fn) {
		if !isConstErr(retVal(ret, 0), kexists) {
			continue
		}
		n++
		// guarded by s.immutable == true
		imm := condEdges(fn, func(cond ssa.Value) (bool, bool) {
			if fieldOfLoad(cond) == "Store.immutable" {
				return true, false
			}
			return false, false
		})
		ok, path := guarded(fn, ret, mkEdgeSet(imm), nil)
		if ok {
			r.Ok(rule, "(*Store).Put/ErrKeyExists/immutable", ret.Pos(), "key-exists only in immutable mode")
		} else {
			r.BadPath(rule, "(*Store).Put/ErrKeyExists/immutable", ret.Pos(), "ErrKeyExists is returned on a path that did not test Store.immutable", path)
		}
		for _, site := range callSites(fn, storeEffectCalls...) {
			reach, _ := Search{Fn: fn, From: site, Target: isInstr(ret)}.Run()
			if reach {
				r.Bad(rule, "(*Store).Put/ErrKeyExists/after-"+cname(site), site.Pos(), "a call that changes the store precedes the key-exists rejection: a rejected Put must change nothing")
			}
		}
		r.Ok(rule, "(*Store).Put/ErrKeyExists/no-prior-effect", ret.Pos(), "checked that no store/index/freelist write can precede this return")
	}
	if n == 0 {
		r.Bad(rule, "(*Store).Put/ErrKeyExists", fn.Pos(), "Store.Put never returns types.ErrKeyExists: immutable mode would accept updates")
	}
	// once the key matched, a success return needs the not-immutable edge
	ev := findKeyEvidence(r.E, fn, -1, 0)
	notImm := condEdges(fn, func(cond ssa.Value) (bool, bool) {
		if fieldOfLoad(cond) == "Store.immutable" {
			return false, true
		}
		return false, false
	})
	success, _ := classifyReturns(fn)
	succ := map[ssa.Instruction]bool{}
	for _, s := range success {
		if isNilConst(retVal(s, 0)) {
			succ[s] = true
		}
	}
	for _, ke := range ev.edges {
		ke := ke
		reach, path := Search{Fn: fn, FromEdge: &ke, Target: anyOf(succ), AvoidEdges: mkEdgeSet(notImm)}.Run()
		if reach {
			r.BadPath(rule, "(*Store).Put/existing-key-succeeds-only-if-mutable", instrPos(lastInstr(ke.From)), "after the stored key matched, Put can return success without having found Store.immutable false: in immutable mode a Put of an existing key (e.g. with an identical value) is accepted instead of failing with ErrKeyExists", path)
		} else {
			r.Ok(rule, "(*Store).Put/existing-key-succeeds-only-if-mutable", instrPos(lastInstr(ke.From)), "after the key matched every success return lies behind the not-immutable edge")
		}
	}
	r.Min(rule, 3)
}

// rulePoolOrder: the index consults the just-flushed pool only after the
// current pool missed, and reports a miss only after both.
func rulePoolOrder(r *Report) {
	const rule = "pool-order"
	fn := r.need(rule, "I", "(*Index).readCached")
	if fn == nil {
		return
	}
	var next, cur *ssa.Lookup
	eachInstr(fn, func(in ssa.Instruction) {
		lk, ok := in.(*ssa.Lookup)
		if !ok {
			return
		}
		switch fieldOfLoad(lk.X) {
		case "Index.nextPool":
			next = lk
		case "Index.curPool":
			cur = lk
		}
	})
	if next == nil || cur == nil {
		r.Bad(rule, "(*Index).readCached/both-pools", fn.Pos(), "readCached does not look up both nextPool and curPool: data being flushed (or not yet flushed) would be invisible")
		return
	}
	// cur lookup only on the miss edge of the next lookup
	okVals := extractOf(next, 1)
	set := map[ssa.Value]bool{}
	for _, v := range okVals {
		set[v] = true
	}
	miss := condEdges(fn, func(cond ssa.Value) (bool, bool) {
		if set[cond] {
			return false, true
		}
		return false, false
	})
	ok, path := guarded(fn, cur, mkEdgeSet(miss), nil)
	if ok {
		r.Ok(rule, "(*Index).readCached/next-before-cur", cur.Pos(), "curPool is consulted only when nextPool missed (newer unflushed list wins)")
	} else {
		r.BadPath(rule, "(*Index).readCached/next-before-cur", cur.Pos(), "curPool is consulted without nextPool having missed: a stale just-flushed record list can shadow a newer unflushed one", path)
	}
	for _, ret := range returnsOf(fn) {
		if b, isC := boolConst(retVal(ret, 1)); isC && !b {
			reach, path := Search{Fn: fn, Target: isInstr(ret), Avoid: func(in ssa.Instruction) bool { return in == ssa.Instruction(cur) }}.Run()
			if reach {
				r.BadPath(rule, "(*Index).readCached/miss-after-both", ret.Pos(), "a miss is reported without consulting curPool", path)
			} else {
				r.Ok(rule, "(*Index).readCached/miss-after-both", ret.Pos(), "miss reported only after both pools were consulted")
			}
		}
	}
	r.Min(rule, 2)
}

func init() {
	register("C01", func(r *Report) {
		ruleKeyCheck(r)
		ruleSameValueGuard(r)
		ruleOpaqueValue(r)
		ruleImmutableNoEffect(r)
		rulePoolOrder(r)
		rulePredict(r)
		ruleSplice(r)
		rulePosCodec(r)
		ruleIterateAll(r)
		ruleConfigWiring(r)
		ruleIndexNamesNewLocation(r)
		// an open store runs the flusher and both collectors behind every call
		r.support(grpMap, grpPools, grpGC, grpBackpressure, []string{"race"})
	},
		"Decides structural necessary conditions of map-equivalence, not the behaviour: (keycheck) every outcome of Store.Get/Has/GetSize/Remove/Put that reports or acts on an existing key is only reachable through a successful full-key comparison between the requested key and the key stored at the indexed location; (samevalue-guard) Put's no-store success exit requires the key match; (opaque-value) no primary Get branches on the cached value bytes; (immutable-noeffect) ErrKeyExists precedes every write; (pool-order) index cache lookup order; (predict) the location predicted by the primary's Put and the location written by flushBlock are computed by sibling expressions that agree (affine comparison). Not covered: prefix trimming, ordering, iteration contents, file rollover arithmetic beyond sibling agreement.",
		"a comparison by bytes.Equal/bytes.Compare between values derived from IndexKey(param) and Primary.Get/GetIndexKey(indexed location) is a full-key comparison",
		"dominance is computed on the SSA CFG; infeasible paths are not pruned except boolean-flag correlation (cmpKey)")
}
