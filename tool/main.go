// sthlint: repository-specific static checker for ipld/go-storethehash.
//
// It loads /repo's current source (type-checked, SSA form), evaluates the rule
// set of one property and writes /verif/evidence/<id>.json. Nothing in the
// repository is compiled to run or executed.
package main

import (
	"flag"
	"fmt"
	"os"
	"path/filepath"
	"runtime/debug"
	"sort"
	"strconv"
	"strings"
	"time"
)

type propSpec struct {
	run         func(r *Report)
	explanation string
	assumptions []string
}

var props = map[string]*propSpec{}

func register(id string, run func(r *Report), explanation string, assumptions ...string) {
	props[id] = &propSpec{run: run, explanation: explanation, assumptions: assumptions}
}

var trustedBase = []string{
	"go/types, go/ssa, go/packages, callgraph/{cha,vta} of golang.org/x/tools v0.50.0 with the Go 1.26.8 front end",
	"the rule tables in /verif/tool (instances confirmed by reading the source; one reason per exception)",
	"documented contracts of os.Open*/os.Create (nil file on error), os.WriteFile (truncate then write), sync.Mutex/RWMutex, bufio.Writer",
}

func main() {
	var (
		property  = flag.String("property", "", "property id (C01..C17) or 'all'")
		tier      = flag.String("tier", "", "quick|thorough (default from VERIF_TIER or quick)")
		repo      = flag.String("repo", "/repo", "repository to analyse")
		verif     = flag.String("verif", "", "verification directory (default: parent of the executable's directory)")
		overlay   = flag.String("overlay", "", "JSON file {path: content} applied as a source overlay (self-test corpus)")
		onlyRule  = flag.String("rule", "", "only report obligations whose key starts with this prefix (replay)")
		noEv      = flag.Bool("no-evidence", false, "do not write evidence (used by the self-test corpus)")
		list      = flag.Bool("list", false, "list properties")
		dump      = flag.String("dump", "", "debug: print the SSA of Alias:func (e.g. 'S:(*Store).Put')")
		dumpRoles = flag.String("dump-roles", "", "developer command: run every property and write the fingerprints of all function anchors to this file (tool/roles.json)")
		selftest  = flag.Bool("selftest", false, "developer command: run the sensitivity corpus (optionally only for -property or one variant id) and fail on disagreement")
	)
	flag.Parse()
	// go/packages resolves the go command through this process's PATH.
	os.Setenv("PATH", "/opt/veriftools/go1.26.8/bin:"+os.Getenv("PATH"))
	os.Setenv("GOTOOLCHAIN", "local")
	os.Unsetenv("GOWORK")
	if *list {
		var ids []string
		for id := range props {
			ids = append(ids, id)
		}
		sort.Strings(ids)
		fmt.Println(strings.Join(ids, " "))
		return
	}
	if *dumpRoles != "" {
		e, err := Load(*repo, "", nil)
		if err != nil {
			fmt.Fprintln(os.Stderr, err)
			os.Exit(2)
		}
		for id, spec := range props {
			func() {
				defer func() { recover() }()
				spec.run(newReport(e, id))
			}()
		}
		for _, a := range extraAnchors {
			e.Func(a[0], a[1])
		}
		if err := e.dumpRoles(*dumpRoles); err != nil {
			fmt.Fprintln(os.Stderr, err)
			os.Exit(2)
		}
		fmt.Println("wrote", *dumpRoles, len(e.anchorLog), "anchors")
		return
	}
	if *selftest {
		if *verif == "" {
			exe, _ := os.Executable()
			*verif = filepath.Dir(filepath.Dir(exe))
		}
		os.Exit(selfTest(*repo, *verif, *property))
	}
	if *dump != "" {
		e, err := Load(*repo, "", nil)
		if err != nil {
			fmt.Fprintln(os.Stderr, err)
			os.Exit(2)
		}
		parts := strings.SplitN(*dump, ":", 2)
		f := e.Func(parts[0], parts[1])
		if f == nil {
			fmt.Fprintln(os.Stderr, "not found")
			os.Exit(2)
		}
		f.WriteTo(os.Stdout)
		for _, a := range f.AnonFuncs {
			a.WriteTo(os.Stdout)
		}
		return
	}
	if *tier == "" {
		*tier = os.Getenv("VERIF_TIER")
	}
	if *tier != "thorough" {
		*tier = "quick"
	}
	if *verif == "" {
		exe, err := os.Executable()
		if err == nil {
			*verif = filepath.Dir(filepath.Dir(exe))
		} else {
			*verif = "/verif"
		}
	}
	seed, _ := strconv.Atoi(os.Getenv("VERIF_SEED"))
	spec, ok := props[*property]
	if !ok {
		fmt.Fprintf(os.Stderr, "unknown property %q\n", *property)
		os.Exit(2)
	}
	os.Exit(runProperty(*property, spec, *tier, *repo, *verif, *overlay, *onlyRule, *noEv, seed))
}

func runProperty(id string, spec *propSpec, tier, repo, verif, overlayPath, onlyRule string, noEv bool, seed int) (code int) {
	start := time.Now()
	// watchdog: an analysis that does not terminate does not pass
	limit := 10 * time.Minute
	if tier == "thorough" {
		limit = 45 * time.Minute
	}
	time.AfterFunc(limit, func() {
		fmt.Printf("VIOLATION property=%s replay=%s\n  engine/undecided: analysis exceeded %s\n", id, filepath.Join(verif, "evidence", id+".violations.json"), limit)
		os.Exit(1)
	})
	fail := func(msg string) int {
		// A check that cannot decide does not pass.
		evDir := filepath.Join(verif, "evidence")
		_ = os.MkdirAll(evDir, 0o755)
		vpath := filepath.Join(evDir, id+".violations.json")
		_ = os.WriteFile(vpath, []byte(fmt.Sprintf("[{\"rule\":\"engine\",\"key\":\"engine/undecided\",\"ok\":false,\"detail\":%q}]\n", msg)), 0o644)
		if !noEv {
			ev := fmt.Sprintf("{\"property_id\":%q,\"tier\":%q,\"seed\":%d,\"level\":\"other\",\"coverage\":{\"explanation\":%q,\"obligations\":1,\"discharged\":0},\"wall_s\":%.2f,\"violations\":1}\n",
				id, tier, seed, "UNDECIDED: "+msg, time.Since(start).Seconds())
			_ = os.WriteFile(filepath.Join(evDir, id+".json"), []byte(ev), 0o644)
		}
		fmt.Printf("VIOLATION property=%s replay=%s\n  engine/undecided: %s\n", id, vpath, msg)
		return 1
	}
	defer func() {
		if p := recover(); p != nil {
			code = fail(fmt.Sprintf("analyser panic: %v\n%s", p, debug.Stack()))
		}
	}()
	ov, err := readOverlay(overlayPath)
	if err != nil {
		return fail("overlay: " + err.Error())
	}
	e, err := Load(repo, "", ov)
	if err != nil {
		return fail(err.Error())
	}
	r := newReport(e, id)
	r.Info = append(r.Info, fmt.Sprintf("sthlint: loaded %d module packages, %d module functions from %s (load %.1fs)", len(e.Pkgs), len(e.ModFuncs), repo, time.Since(start).Seconds()))
	if len(e.Pkgs) < 8 {
		r.Undecided("engine", fmt.Sprintf("only %d module packages loaded, expected at least 8", len(e.Pkgs)))
	}
	cf := e.ConstrainedFiles()
	extra := map[string]any{"build_constrained_files": cf}
	os.Setenv("STHLINT_TIER", tier)
	spec.run(r)
	// Fallback: what is not discharged on the program as written may be discharged on the equivalent
	// program in which private helpers are inlined (inline.go). Obligations are merged by key.
	if os.Getenv("STHLINT_NOINLINE") == "" && unknownBad(r, verif, id) > 0 {
		r.finalizeCounts()
		curE, curOv := e, ov
		for pass := 0; pass < 3 && unknownBad(r, verif, id) > 0; pass++ {
			ov2, inlined := normaliseHelpers(curE, curOv)
			if d := os.Getenv("STHLINT_DEBUG_INLINE"); d != "" {
				fmt.Fprintf(os.Stderr, "inline pass %d: %v\n", pass+1, inlined)
				for k, v := range ov2 {
					_ = os.WriteFile(filepath.Join(d, fmt.Sprintf("p%d_%s", pass+1, filepath.Base(k))), v, 0o644)
				}
			}
			if len(inlined) == 0 {
				break
			}
			e2, err := Load(repo, "", ov2)
			if err != nil {
				// drop the rewritten files the type checker complains about and try once more
				dropped := false
				for k := range ov2 {
					if _, was := curOv[k]; !was && strings.Contains(err.Error(), k) {
						delete(ov2, k)
						dropped = true
					}
				}
				if dropped {
					e2, err = Load(repo, "", ov2)
				}
			}
			if err != nil {
				r.Info = append(r.Info, "helper normalisation: inlined program does not type-check ("+err.Error()+"); not used")
				break
			}
			r2 := newReport(e2, id)
			spec.run(r2)
			r2.finalizeCounts()
			if unknownBad(r2, verif, id) == 0 {
				// everything is discharged on the equivalent program: take that report as a whole
				r2.Info = append(r.Info, fmt.Sprintf("sthlint: %d obligation(s) were not discharged on the program as written; all obligations are discharged on the behaviour-equivalent program with private helpers inlined (pass %d): %s", unknownBad(r, verif, id), pass+1, strings.Join(inlined, "; ")))
				r, e = r2, e2
				break
			}
			okKeys := map[string]string{}
			for _, o := range r2.Obls {
				if o.OK {
					okKeys[o.Key] = o.Detail
				}
			}
			n := 0
			for i := range r.Obls {
				if !r.Obls[i].OK {
					if d, ok := okKeys[r.Obls[i].Key]; ok {
						r.Obls[i].OK = true
						r.Obls[i].Path = ""
						r.Obls[i].Detail = "discharged on the behaviour-equivalent program with private helpers inlined (not on the program as written): " + d
						n++
					}
				}
			}
			if n > 0 {
				r.Info = append(r.Info, fmt.Sprintf("sthlint: helper normalisation pass %d discharged %d obligation(s); inlined: %s", pass+1, n, strings.Join(inlined, "; ")))
			}
			curE, curOv = e2, ov2
		}
	}

	if tier == "thorough" {
		// (i) same rules with the CHA call graph (a superset of VTA)
		e.UseCHA = true
		e.resetMemo()
		r2 := newReport(e, id)
		spec.run(r2)
		r2.finalizeCounts()
		bad2 := 0
		for _, o := range r2.Obls {
			if !o.OK {
				bad2++
				found := false
				for _, o1 := range r.Obls {
					if o1.Key == o.Key && !o1.OK {
						found = true
					}
				}
				if !found {
					o.Key = "cha:" + o.Key
					o.Detail = "(CHA call graph) " + o.Detail
					r.Obls = append(r.Obls, o)
				}
			}
		}
		extra["cha_obligations"] = len(r2.Obls)
		extra["cha_violations"] = bad2
		e.UseCHA = false
		// (ii) GOARCH=386 load
		if len(ov) == 0 {
			e386, err := Load(repo, "386", nil)
			if err != nil {
				r.Undecided("engine", "GOARCH=386 load failed: "+err.Error())
			} else {
				r3 := newReport(e386, id)
				spec.run(r3)
				r3.finalizeCounts()
				bad3 := 0
				for _, o := range r3.Obls {
					if !o.OK {
						bad3++
						found := false
						for _, o1 := range r.Obls {
							if o1.Key == o.Key && !o1.OK {
								found = true
							}
						}
						if !found {
							o.Key = "386:" + o.Key
							o.Detail = "(GOARCH=386) " + o.Detail
							r.Obls = append(r.Obls, o)
						}
					}
				}
				extra["goarch386_obligations"] = len(r3.Obls)
				extra["goarch386_violations"] = bad3
			}
		}
		// (iii) sensitivity corpus
		if len(ov) == 0 {
			extra["sensitivity"] = runCorpus(id, repo, verif)
		}
	}
	if onlyRule != "" {
		var keep []Obligation
		for _, o := range r.Obls {
			if strings.HasPrefix(o.Key, onlyRule) {
				keep = append(keep, o)
			}
		}
		r.Obls = keep
		r.minCount = map[string]int{}
	}
	if noEv {
		r.finalizeCounts()
		bad := 0
		knownKeys := map[string]bool{}
		if fs, err := loadFindings(verif); err == nil {
			for _, f := range fs {
				if f.Status == "known" && f.Property == id {
					knownKeys[f.Key] = true
				}
			}
		}
		for _, o := range r.Obls {
			if !o.OK && knownKeys[o.Key] {
				fmt.Printf("KNOWN %s | %s\n", o.Key, o.Pos)
				continue
			}
			if !o.OK {
				bad++
				fmt.Printf("BAD %s | %s | %s\n", o.Key, o.Pos, o.Detail)
				if o.Path != "" {
					fmt.Printf("    path: %s\n", o.Path)
				}
			} else if os.Getenv("STHLINT_VERBOSE") != "" {
				fmt.Printf("ok  %s | %s | %s\n", o.Key, o.Pos, o.Detail)
			}
		}
		fmt.Printf("RESULT property=%s obligations=%d bad=%d\n", id, len(r.Obls), bad)
		if bad > 0 {
			return 1
		}
		return 0
	}
	return r.finish(runMeta{Tier: tier, Seed: seed, Start: start, VerifDir: verif, Extra: extra,
		Assumptions: spec.assumptions, Explanation: spec.explanation, Trusted: trustedBase})
}

// unknownBad counts the obligations of r that are neither discharged nor listed
// as known findings, including instance-count obligations (on a copy).
func unknownBad(r *Report, verif, id string) int {
	cp := *r
	cp.Obls = append([]Obligation{}, r.Obls...)
	cp.keys = map[string]int{}
	for k, v := range r.keys {
		cp.keys[k] = v
	}
	cp.finalizeCounts()
	known := map[string]bool{}
	if fs, err := loadFindings(verif); err == nil {
		for _, f := range fs {
			if f.Status == "known" && f.Property == id {
				known[f.Key] = true
			}
		}
	}
	n := 0
	for _, o := range cp.Obls {
		if !o.OK && !known[o.Key] {
			n++
		}
	}
	return n
}
