package main

import (
	"go/token"
	"go/types"

	"golang.org/x/tools/go/ssa"
)

// R-FILE-LEAK: resource typestate for *os.File values. Every file a module
// function opens is, on every path from the successful open to a return of
// that function, closed (directly, by a deferred call or closure), handed to a
// function that closes or keeps it, stored into a structure, or returned.
// R-FIELD-FILE-REPLACED: a struct field that holds the component's open data
// file is overwritten only after the file it held was closed.

func isOSFilePtr(t types.Type) bool {
	p, ok := t.(*types.Pointer)
	if !ok {
		return false
	}
	n, ok := p.Elem().(*types.Named)
	return ok && n.Obj().Name() == "File" && n.Obj().Pkg() != nil && n.Obj().Pkg().Path() == "os"
}

// fileResult returns the *os.File value(s) produced by call c (nil if none).
func fileResult(c *ssa.Call) []ssa.Value {
	sig := c.Call.Signature()
	if sig == nil || sig.Results().Len() == 0 || !isOSFilePtr(sig.Results().At(0).Type()) {
		return nil
	}
	if sig.Results().Len() == 1 {
		return []ssa.Value{c}
	}
	return extractOf(c, 0)
}

// freshFileFunc: f returns a file that it opened itself (os.Open*, os.Create*,
// or another such helper) — the caller becomes the owner.
func freshFileFunc(e *Engine, f *ssa.Function, depth int) bool {
	if f == nil {
		return false
	}
	if f.Pkg != nil && f.Pkg.Pkg.Path() == "os" {
		switch f.Name() {
		case "Open", "OpenFile", "Create", "CreateTemp":
			return f.Signature.Recv() == nil
		}
		return false
	}
	if f.Blocks == nil || !e.InModule(f) || depth > 3 {
		return false
	}
	sig := f.Signature
	if sig.Results().Len() == 0 || !isOSFilePtr(sig.Results().At(0).Type()) {
		return false
	}
	found := false
	for _, ret := range returnsOf(f) {
		v := retVal(ret, 0)
		if isNilConst(v) {
			continue
		}
		ok := derives(v, flowOpts{}, func(x ssa.Value) bool {
			c, isCall := x.(*ssa.Call)
			if !isCall {
				return false
			}
			return freshFileFunc(e, c.Call.StaticCallee(), depth+1)
		})
		// a file loaded from a field (cache, component) is not fresh
		fromField := derives(v, flowOpts{}, func(x ssa.Value) bool { return fieldOfLoad(x) != "" })
		if !ok || fromField {
			return false
		}
		found = true
	}
	return found
}

// paramDisposes: callee g closes or keeps (stores, returns) its i-th parameter
// on some path — the caller has handed the file over.
func paramDisposes(e *Engine, g *ssa.Function, i int, depth int) bool {
	if g == nil || g.Blocks == nil || i >= len(g.Params) || depth > 2 {
		return false
	}
	p := g.Params[i]
	disposed := false
	fromP := func(v ssa.Value) bool {
		return derives(v, flowOpts{}, func(x ssa.Value) bool { return x == ssa.Value(p) })
	}
	for _, fn := range withAnons(g) {
		eachInstr(fn, func(in ssa.Instruction) {
			switch x := in.(type) {
			case ssa.CallInstruction:
				c := x.Common()
				if cname(x) == "(*os.File).Close" && len(c.Args) > 0 && fromP(c.Args[0]) {
					disposed = true
				}
				if callee := c.StaticCallee(); callee != nil && callee.Blocks != nil && e.InModule(callee) {
					for j, a := range c.Args {
						if isOSFilePtr(a.Type()) && fromP(a) && paramDisposes(e, callee, j, depth+1) {
							disposed = true
						}
					}
				}
			case *ssa.Store:
				if isOSFilePtr(x.Val.Type()) && fromP(x.Val) && storedAway(x.Addr) {
					disposed = true
				}
			case *ssa.Return:
				for _, rv := range x.Results {
					if isOSFilePtr(rv.Type()) && fromP(rv) {
						disposed = true
					}
				}
			}
		})
	}
	return disposed
}

// storedAway: the address is a field/element of something that outlives the
// function (a parameter, a loaded pointer, a heap-allocated struct literal);
// a plain local variable cell does not count.
func storedAway(addr ssa.Value) bool {
	root := rootAddr(addr)
	if root == addr {
		// direct store to a variable cell or global
		_, isGlobal := addr.(*ssa.Global)
		return isGlobal
	}
	if al, ok := root.(*ssa.Alloc); ok {
		return al.Heap
	}
	return true
}

func rootAddr(a ssa.Value) ssa.Value {
	for {
		switch x := a.(type) {
		case *ssa.FieldAddr:
			a = x.X
			continue
		case *ssa.IndexAddr:
			a = x.X
			continue
		}
		return a
	}
}

func ruleFileLeak(r *Report) {
	const rule = "file-leak"
	e := r.E
	n := 0
	for _, fn := range moduleFuncs(e) {
		if fn.Synthetic != "" {
			continue
		}
		fresh := freshFileFunc(e, fn, 0)
		for _, ci := range allCalls(fn) {
			c := asCall(ci)
			if c == nil {
				continue
			}
			files := fileResult(c)
			if len(files) == 0 {
				continue
			}
			callee := c.Call.StaticCallee()
			if !freshFileFunc(e, callee, 0) {
				continue
			}
			n++
			// value-level flow only (phis, conversions, local variable cells): what is read back out
			// of a map, list or struct is another holder's handle, not this one
			var isFv func(v ssa.Value, seen map[ssa.Value]bool) bool
			isFv = func(v ssa.Value, seen map[ssa.Value]bool) bool {
				if seen[v] {
					return false
				}
				seen[v] = true
				for _, f := range files {
					if v == f {
						return true
					}
				}
				switch x := v.(type) {
				case *ssa.Phi:
					for _, ed := range x.Edges {
						if isFv(ed, seen) {
							return true
						}
					}
				case *ssa.ChangeType:
					return isFv(x.X, seen)
				case *ssa.MakeInterface:
					return isFv(x.X, seen)
				case *ssa.UnOp:
					if al, ok := x.X.(*ssa.Alloc); ok && x.Op == token.MUL && al.Referrers() != nil {
						for _, ref := range *al.Referrers() {
							if st, ok := ref.(*ssa.Store); ok && st.Addr == ssa.Value(al) && isFv(st.Val, seen) {
								return true
							}
						}
					}
					if fv, ok := x.X.(*ssa.FreeVar); ok && x.Op == token.MUL {
						_ = fv
					}
				}
				return false
			}
			isF := func(v ssa.Value) bool { return isFv(v, map[ssa.Value]bool{}) }
			// the function hands the file to its caller
			if fresh {
				r.Ok(rule, shortFunc(fn)+"/"+cname(ci), ci.Pos(), "the opened file is this function's result: the caller owns it")
				continue
			}
			disposes := func(in ssa.Instruction) bool {
				switch x := in.(type) {
				case ssa.CallInstruction:
					cc := x.Common()
					if cname(x) == "(*os.File).Close" && len(cc.Args) > 0 && isF(cc.Args[0]) {
						return true
					}
					// deferred or called closure that closes the captured file
					if mc, ok := cc.Value.(*ssa.MakeClosure); ok {
						if cl, ok := mc.Fn.(*ssa.Function); ok {
							for bi, b := range mc.Bindings {
								if !isF(b) && !cellHolds(b, isF) {
									continue
								}
								if closureCloses(cl, bi) {
									return true
								}
							}
						}
					}
					if g := cc.StaticCallee(); g != nil && g.Blocks != nil && e.InModule(g) {
						off := 0
						for j, a := range cc.Args {
							if isOSFilePtr(a.Type()) && isF(a) && paramDisposes(e, g, j+off, 0) {
								return true
							}
						}
					}
				case *ssa.Store:
					if isOSFilePtr(x.Val.Type()) && isF(x.Val) && storedAway(x.Addr) {
						return true
					}
				case *ssa.Return:
					for i := range x.Results {
						rv := retVal(x, i) // the value this return statement yields (results may be spilled by defer)
						if isOSFilePtr(rv.Type()) && isF(rv) {
							return true
						}
					}
				case *ssa.MapUpdate:
					if isF(x.Value) {
						return true
					}
				case *ssa.Send:
					if isF(x.X) {
						return true
					}
				}
				return false
			}
			okAll := true
			var bad []*ssa.BasicBlock
			// exits: the returns that do not themselves hand the file to the caller
			exits := map[ssa.Instruction]bool{}
			for _, ret := range returnsOf(fn) {
				if !disposes(ret) {
					exits[ret] = true
				}
			}
			// Paths not followed: the open's own failure edges; branches that
			// find a variable holding this file to be nil (it is not, after a
			// successful open); and failure edges of I/O operations on open
			// handles (read/write/flush/stat/rename faults) — C17 quantifies
			// over failing opens by configuration mismatch or unreadable header,
			// not over I/O faults (the leaks on those paths are observation O-13).
			avoid := mkEdgeSet(failureEdges(c), ioFaultEdges(fn), nilEdges(fn, isF, false))
			if leak, path := (Search{Fn: fn, From: c, Target: anyOf(exits), Avoid: disposes, AvoidEdges: avoid}).Run(); leak {
				okAll, bad = false, path
			}
			key := shortFunc(fn) + "/" + cname(ci)
			if okAll {
				r.Ok(rule, key, ci.Pos(), "closed, handed over, stored or returned on every path after the successful open")
			} else {
				r.BadPath(rule, key, ci.Pos(), "the file opened here is neither closed nor handed over on some path to a return: a descriptor leaks (per call — they accumulate; on an error path of Open a failed open does not release everything)", bad)
			}
		}
	}
	if n < 15 {
		r.Bad(rule, "inventory", 0, "fewer file-opening call sites found than confirmed by reading")
	}
	r.Min(rule, 15)
}

// cellHolds: binding b is a captured variable cell into which a value
// satisfying pred is stored.
func cellHolds(b ssa.Value, pred func(ssa.Value) bool) bool {
	al, ok := b.(*ssa.Alloc)
	if !ok || al.Referrers() == nil {
		return false
	}
	for _, ref := range *al.Referrers() {
		if st, ok := ref.(*ssa.Store); ok && st.Addr == ssa.Value(al) && pred(st.Val) {
			return true
		}
	}
	return false
}

// closureCloses: the closure calls (*os.File).Close on its bi-th free variable
// (directly or through the cell it points to).
func closureCloses(cl *ssa.Function, bi int) bool {
	if bi >= len(cl.FreeVars) {
		return false
	}
	fv := cl.FreeVars[bi]
	found := false
	for _, f := range withAnons(cl) {
		for _, c := range callSites(f, "(*os.File).Close") {
			a := c.Common().Args[0]
			if derives(a, flowOpts{}, func(x ssa.Value) bool {
				if x == ssa.Value(fv) {
					return true
				}
				if u, ok := x.(*ssa.UnOp); ok && u.X == ssa.Value(fv) {
					return true
				}
				return false
			}) {
				found = true
			}
		}
	}
	return found
}

// ruleFieldFileReplaced: `c.file = newFile` only after `c.file.Close()`.
func ruleFieldFileReplaced(r *Report) {
	const rule = "field-file-replaced"
	fields := map[string]bool{"Index.file": true, "MultihashPrimary.file": true, "CIDPrimary.file": true, "FreeList.file": true}
	n := 0
	for _, fn := range moduleFuncs(r.E) {
		eachInstr(fn, func(in ssa.Instruction) {
			st, ok := in.(*ssa.Store)
			if !ok {
				return
			}
			fa, ok := st.Addr.(*ssa.FieldAddr)
			if !ok || !isOSFilePtr(st.Val.Type()) {
				return
			}
			f := fieldName(fa.X.Type(), fa.Field)
			if !fields[f] || isLocalAlloc(fa.X) {
				return
			}
			if isNilConst(st.Val) {
				return
			}
			n++
			closes := map[ssa.Instruction]bool{}
			for _, g := range famFuncs(fn) {
				for _, c := range callSites(g, "(*os.File).Close") {
					if fieldOfLoad(c.Common().Args[0]) == f {
						closes[c] = true
					}
				}
			}
			ok2, path := precededBy(fn, st, closes, nil)
			key := shortFunc(fn) + "/" + f
			if ok2 && len(closes) > 0 {
				r.Ok(rule, key, instrPos(st), "the field's previous file is closed on every path before the field is overwritten")
			} else {
				r.BadPath(rule, key, instrPos(st), "the component's open data file is replaced without the previous file having been closed on some path: one descriptor leaks per replacement (every rollover / every GC hand-over), so descriptors accumulate over the life of the store", path)
			}
		})
	}
	r.Min(rule, 3)
	_ = n
}

// ioFaultEdges: failure edges of I/O operations on handles that are already
// open (fault-dependent paths).
func ioFaultEdges(fn *ssa.Function) []Edge {
	var out []Edge
	for _, ci := range callSites(fn,
		"(*os.File).ReadAt", "(*os.File).Read", "(*os.File).Write", "(*os.File).WriteAt", "(*os.File).WriteString", "(*os.File).Stat",
		"(*os.File).Sync", "(*os.File).Truncate", "(*os.File).Seek", "(*os.File).Close",
		"(*bufio.Writer).Write", "(*bufio.Writer).Flush", "(*bufio.Writer).WriteString", "(*bufio.Reader).Read",
		"io.ReadFull", "io.Copy", "io.CopyN", "os.Rename", "os.Remove", "os.Truncate") {
		if c := asCall(ci); c != nil {
			out = append(out, failureEdges(c)...)
		}
	}
	return out
}

// R-FC-LIST-NONNIL: FileCache.ll (the LRU list) is nil until the first cached
// Open and again after Clear / SetCacheSize(0). Every method call on it must
// be reached only with evidence that it is non-nil: the lazy initialisation
// (or a `cache != nil` / `ll != nil` test, the two are set together), or an
// element obtained from the cache map (a non-empty map implies the list
// exists). For an unexported helper the evidence may be at all of its call
// sites instead.
func ruleFCListNonNil(r *Report) {
	const rule = "fc-list-nonnil"
	var pkg *ssa.Package
	for path, p := range r.E.SSAPkg {
		if len(path) > 10 && path[len(path)-10:] == "/filecache" {
			pkg = p
		}
	}
	if pkg == nil {
		r.Undecided(rule, "package filecache not found")
		return
	}
	isField := func(name string) func(ssa.Value) bool {
		return func(v ssa.Value) bool { return fieldOfLoad(v) == name }
	}
	evidence := func(fn *ssa.Function) (edgeSet, map[ssa.Instruction]bool) {
		var es []Edge
		es = append(es, nilEdges(fn, isField("FileCache.ll"), true)...)
		es = append(es, nilEdges(fn, isField("FileCache.cache"), true)...)
		// comma-ok lookup in the cache map, range over the cache map
		es = append(es, condEdges(fn, func(cond ssa.Value) (bool, bool) {
			ex, ok := cond.(*ssa.Extract)
			if !ok {
				return false, false
			}
			switch t := ex.Tuple.(type) {
			case *ssa.Lookup:
				if t.CommaOk && ex.Index == 1 && fieldOfLoad(t.X) == "FileCache.cache" {
					return true, false
				}
			case *ssa.Next:
				if rg, ok := t.Iter.(*ssa.Range); ok && ex.Index == 0 && fieldOfLoad(rg.X) == "FileCache.cache" {
					return true, false
				}
			}
			return false, false
		})...)
		through := map[ssa.Instruction]bool{}
		for _, st := range fieldStores(fn, "FileCache.ll") {
			if !isNilConst(st.Val) {
				through[st] = true
			}
		}
		return mkEdgeSet(es), through
	}
	var guardedSite func(site ssa.Instruction, depth int) (bool, string)
	guardedSite = func(site ssa.Instruction, depth int) (bool, string) {
		fn := site.Parent()
		es, through := evidence(fn)
		if len(es) > 0 || len(through) > 0 {
			if ok, _ := guarded(fn, site, es, through); ok {
				return true, ""
			}
		}
		if depth >= searchDepth || fn.Object() == nil || fn.Object().Exported() || usedAsValue[fn] || len(staticCallers[fn]) == 0 {
			return false, shortFunc(fn)
		}
		for _, c := range staticCallers[fn] {
			if ok, where := guardedSite(c, depth+1); !ok {
				return false, where + " -> " + shortFunc(fn)
			}
		}
		return true, ""
	}
	n := 0
	for _, m := range moduleFuncs(r.E) {
		if pkgOfFunc(m) != pkg {
			continue
		}
		for _, ci := range allCalls(m) {
			c := ci.Common()
			if c.IsInvoke() || len(c.Args) == 0 || fieldOfLoad(c.Args[0]) != "FileCache.ll" {
				continue
			}
			callee := c.StaticCallee()
			if callee == nil || callee.Signature.Recv() == nil {
				continue
			}
			n++
			ok, where := guardedSite(ci, 0)
			key := shortFunc(m) + "/" + cname(ci)
			if ok {
				r.Ok(rule, key, ci.Pos(), "the list is known to exist here (lazy initialisation, non-nil test, or an element taken from the cache map), directly or at every call site of this helper")
			} else {
				r.Bad(rule, key, ci.Pos(), "this call dereferences FileCache.ll, which is nil before the first cached Open and after Clear/SetCacheSize(0), and can be reached without evidence that the list exists (via "+where+"): nil pointer dereference — e.g. SetCacheSize(smaller, non-zero) on a cache that has not cached anything yet (a freshly opened store) panics")
			}
		}
	}
	if n < 4 {
		r.Bad(rule, "inventory", 0, "fewer method calls on FileCache.ll found than confirmed by reading")
	}
	r.Min(rule, 4)
}

// R-SCAN-FRAMING: every sequential scanner of a size-prefixed log advances its
// read cursor by exactly 4 + record size on every way round its loop (the
// record size being the size word with the deleted bit stripped), so that the
// next size word is read where the next record starts — for live and for
// deleted (tombstoned) records alike.
func ruleScanFraming(r *Report) {
	const rule = "scan-framing"
	for _, t := range [][2]string{{"I", "scanIndexFile"}, {"M", "chunkOldPrimary"}, {"I", "(*Index).reapIndexRecords"}, {"M", "(*primaryGC).reapRecords"}} {
		fn := r.need(rule, t[0], t[1])
		if fn == nil {
			continue
		}
		sws := findSizeWords(fn)
		if len(sws) == 0 {
			r.Undecided(rule, shortFunc(fn)+": no size word")
			continue
		}
		sw := sws[0]
		var cursor *ssa.Phi
		for _, ra := range callSites(fn, "(*os.File).ReadAt") {
			if rootBuffer(ra.Common().Args[1]) == sw.buf && instrDominates(ra, sw.call) {
				cursor, _ = stripIntConv(ra.Common().Args[2]).(*ssa.Phi)
			}
		}
		if cursor == nil {
			r.Undecided(rule, shortFunc(fn)+": scan cursor is not a loop variable")
			continue
		}
		env := linEnv{Canon: func(v ssa.Value) (string, bool) {
			if v == ssa.Value(cursor) {
				return "POS", true
			}
			if isSizeOfRecord(v, sw, map[ssa.Value]bool{}) {
				if _, isConst := v.(*ssa.Const); !isConst {
					return "SZ", true
				}
			}
			return "", false
		}}
		want := linConst(4).add(linAtom("SZ"), 1)
		n := 0
		// expand the values flowing round the loop through intermediate phis
		var expand func(v ssa.Value, seen map[ssa.Value]bool) []ssa.Value
		expand = func(v ssa.Value, seen map[ssa.Value]bool) []ssa.Value {
			if p, ok := stripIntConv(v).(*ssa.Phi); ok && p != cursor && !seen[p] {
				seen[p] = true
				var out []ssa.Value
				for _, e := range p.Edges {
					out = append(out, expand(e, seen)...)
				}
				return out
			}
			return []ssa.Value{v}
		}
		for i, e := range cursor.Edges {
			pred := cursor.Block().Preds[i]
			if !cursor.Block().Dominates(pred) {
				continue // loop entry
			}
			for _, v := range expand(e, map[ssa.Value]bool{}) {
				n++
				l := env.lin(v).add(linAtom("POS"), -1)
				r.Check(l.equal(want), rule, shortFunc(fn)+"/advance", instrPos(lastInstr(pred)),
					"the cursor advances by size prefix + record size on this way round the loop",
					"the scan cursor advances by ["+l.String()+"] instead of 4 + record size on one way round the loop (e.g. over a deleted record): the next size word is read from the middle of a record, everything after the first such record is misparsed and usually cut off as a torn tail — flushed keys are lost on the next rescan")
			}
		}
		if n == 0 {
			r.Bad(rule, shortFunc(fn)+"/advance", fn.Pos(), "the scan loop never advances its cursor")
		}
	}
	r.Min(rule, 6)
}
