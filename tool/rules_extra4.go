package main

import (
	"fmt"
	"go/token"

	"golang.org/x/tools/go/ssa"
)

// Rules added after the third round of independently seeded changes.

// eofEdgesOf: branch edges of fn taken when the error of `call` equals io.EOF
// (err == io.EOF, err != io.EOF, errors.Is(err, io.EOF)).
func eofEdgesOf(fn *ssa.Function, call *ssa.Call) []Edge {
	evs := errValues(call)
	isEOF := func(v ssa.Value) bool {
		u, ok := v.(*ssa.UnOp)
		if !ok || u.Op != token.MUL {
			return false
		}
		g, ok := u.X.(*ssa.Global)
		return ok && g.Name() == "EOF" && g.Pkg.Pkg.Path() == "io"
	}
	return condEdges(fn, func(cond ssa.Value) (bool, bool) {
		if c, ok := cond.(*ssa.Call); ok && cname(c) == "errors.Is" && len(c.Call.Args) == 2 {
			if evs[c.Call.Args[0]] && isEOF(c.Call.Args[1]) {
				return true, false
			}
			return false, false
		}
		bo, ok := cond.(*ssa.BinOp)
		if !ok || (bo.Op != token.EQL && bo.Op != token.NEQ) {
			return false, false
		}
		if !(evs[bo.X] && isEOF(bo.Y)) && !(evs[bo.Y] && isEOF(bo.X)) {
			return false, false
		}
		if bo.Op == token.EQL {
			return true, false
		}
		return false, true
	})
}

// R-SCAN-COMPLETE-BEFORE-TRUNCATE: a collector cuts the free tail of a file off
// only when its scan reached the end of the file. A scan that stopped early
// (time limit, cancelled context) knows nothing about the records it has not
// looked at; truncating at the last free span it saw would cut live records.
func ruleScanCompleteBeforeTruncate(r *Report) {
	const rule = "scan-complete-before-truncate"
	for _, t := range [][2]string{{"I", "(*Index).reapIndexRecords"}, {"M", "(*primaryGC).reapRecords"}} {
		fn := r.need(rule, t[0], t[1])
		if fn == nil {
			continue
		}
		var eof []Edge
		for _, c := range callSites(fn, "(*os.File).ReadAt") {
			rc := asCall(c)
			if rc == nil {
				continue
			}
			// the size word, or the record body (a file that ends inside a record)
			eof = append(eof, eofEdgesOf(fn, rc)...)
		}
		truncs := callSites(fn, "(*os.File).Truncate", "os.Truncate")
		if len(truncs) == 0 {
			r.Bad(rule, shortFunc(fn)+"/truncate", fn.Pos(), "the collector never truncates a free tail (anchor changed)")
			continue
		}
		if len(eof) == 0 {
			r.Bad(rule, shortFunc(fn)+"/truncate", fn.Pos(), "the scan loop has no end-of-file exit on the size-word read: the rule cannot tell a complete scan from a partial one")
			continue
		}
		for _, tc := range truncs {
			ok, path := guarded(fn, tc, mkEdgeSet(eof), nil)
			if ok {
				r.Ok(rule, shortFunc(fn)+"/truncate", tc.Pos(), "the free tail is cut off only after the scan loop ended on io.EOF of a read of the scanned file")
			} else {
				r.BadPath(rule, shortFunc(fn)+"/truncate", tc.Pos(), "the file can be truncated although the scan did not reach the end of the file (loop left on another exit, e.g. the time limit): records after the point where the scan stopped were never examined and live ones among them are cut off", path)
			}
		}
	}
	r.Min(rule, 2)
}

// R-FLUSH-CALLERS: who may make the index and the freelist durable. The index
// log may only be flushed where the primary was flushed before it (commit,
// Close order) and the freelist only where the index was flushed before it;
// any other caller makes one structure durable ahead of the one that
// justifies it.
func ruleFlushCallers(r *Report) {
	const rule = "flush-callers"
	allowed := map[string]map[string]string{
		"(*index.Index).Flush": {
			"(*store.Store).commit": "after the primary flush (commit-order)",
			"(*index.Index).Close":  "Store.Close closes (flushes) the primary first (commit-order)",
			"index.Open":            "before the index is handed out",
		},
		"(*freelist.FreeList).Flush": {
			"(*store.Store).commit":      "after the index flush (commit-order)",
			"(*freelist.FreeList).Close": "Store.Close closes the index first",
			"(*freelist.FreeList).ToGC":  "hand-over to the collector (see gc-handover-durable, KF-4)",
		},
	}
	n := 0
	for _, fn := range moduleFuncs(r.E) {
		for _, c := range allCalls(fn) {
			name := cname(c)
			al, ok := allowed[name]
			if !ok {
				continue
			}
			n++
			okCaller := onlyCalledFrom(fn, func(f *ssa.Function) bool { _, ok := al[shortFunc(f)]; return ok })
			r.Check(okCaller, rule, name+"/caller/"+shortFunc(fn), c.Pos(), "allowed flush site",
				"this function flushes "+name+" outside the store's commit/Close order: the structure can become durable ahead of the data that justifies it (index records naming unwritten primary bytes, freelist entries for locations the on-disk index still names) — after a crash keys read as absent or GC destroys live records")
		}
	}
	if n < 5 {
		r.Bad(rule, "inventory", token.NoPos, fmt.Sprintf("found %d flush call sites, expected at least 5", n))
	}
	r.Min(rule, 5)
}

// R-HEADER-WRITTEN-AFTER-LAST-CHANGE: a header object that a function persists
// with writeHeader is not modified afterwards without being written again, so
// the file never lacks a field the in-memory header has.
func ruleHeaderPersist(r *Report) {
	const rule = "header-persist"
	n := 0
	for _, fn := range moduleFuncs(r.E) {
		writes := callSites(fn, "index.writeHeader", "mhprimary.writeHeader")
		if len(writes) == 0 {
			continue
		}
		isWrite := func(in ssa.Instruction) bool {
			c, ok := in.(ssa.CallInstruction)
			if !ok {
				return false
			}
			switch cname(c) {
			case "index.writeHeader", "mhprimary.writeHeader":
				return true
			}
			return false
		}
		eachInstr(fn, func(in ssa.Instruction) {
			st, ok := in.(*ssa.Store)
			if !ok {
				return
			}
			fa, ok := st.Addr.(*ssa.FieldAddr)
			if !ok {
				return
			}
			f := fieldName(fa.X.Type(), fa.Field)
			if len(f) < 7 || f[:7] != "Header." {
				return
			}
			// only headers this function persists: the stored-to object reaches a writeHeader call
			persisted := false
			for _, w := range writes {
				for _, a := range w.Common().Args {
					if sameObject(a, fa.X) {
						persisted = true
					}
				}
			}
			if !persisted {
				return
			}
			n++
			succ, _ := classifyReturns(fn)
			exits := instrSet(succ)
			ok2, path := followedBy(fn, st, nil, isWrite, exits)
			key := shortFunc(fn) + "/" + f
			if ok2 {
				r.Ok(rule, key, instrPos(st), "every successful exit after this change of the header passes a writeHeader")
			} else {
				r.BadPath(rule, key, instrPos(st), "the in-memory header is changed after it was written and the function can succeed without writing it again: the file lacks "+f+", so the next Open sees a different configuration (e.g. primary file size 0 triggers an offset remap of a store that needs none — every index entry is rewritten to a wrong location)", path)
			}
		})
	}
	r.Min(rule, 3)
	_ = n
}

// sameObject: a and b denote the same header object (same pointer value, or a
// load of / address into the same local allocation).
func sameObject(a, b ssa.Value) bool {
	root := func(v ssa.Value) ssa.Value {
		for {
			switch x := v.(type) {
			case *ssa.UnOp:
				if x.Op == token.MUL {
					v = x.X
					continue
				}
			case *ssa.FieldAddr:
				v = x.X
				continue
			case *ssa.ChangeType:
				v = x.X
				continue
			case *ssa.Phi:
				// headers assigned on two branches: compare by any edge
				if len(x.Edges) > 0 {
					v = x.Edges[0]
					continue
				}
			}
			return v
		}
	}
	ra, rb := root(a), root(b)
	if ra == rb {
		return true
	}
	// phi of allocations vs one of them
	if p, ok := a.(*ssa.Phi); ok {
		for _, e := range p.Edges {
			if root(e) == rb {
				return true
			}
		}
	}
	if p, ok := b.(*ssa.Phi); ok {
		for _, e := range p.Edges {
			if root(e) == ra {
				return true
			}
		}
	}
	return false
}

// R-CLOSE-REPORTS-ERRORS: Store.Close (and Store.commit) report a failure of
// any of the component calls they make: on every path on which such a call
// returned a non-nil error, the function's own error result is non-nil.
// Decided by enumerating the (loop-free) paths from the call to the returns
// with nil-ness facts from the branches taken.
func ruleCloseReportsErrors(r *Report) {
	const rule = "close-reports-errors"
	type target struct {
		alias, fn string
		calls     []string
	}
	for _, t := range []target{
		{"S", "(*Store).Close", []string{"(primary.PrimaryStorage).Close", "(*index.Index).Close", "(*freelist.FreeList).Close", "(*store.Store).Err"}},
		{"S", "(*Store).commit", []string{"(primary.PrimaryStorage).Flush", "(*index.Index).Flush", "(*freelist.FreeList).Flush"}},
	} {
		fn := r.need(rule, t.alias, t.fn)
		if fn == nil {
			continue
		}
		errIdx := errResultIndex(fn)
		if errIdx < 0 {
			r.Undecided(rule, shortFunc(fn)+": no error result")
			continue
		}
		for _, name := range t.calls {
			sites := callSites(fn, name)
			if len(sites) == 0 {
				r.Bad(rule, shortFunc(fn)+"/"+name, fn.Pos(), "expected call not found")
				continue
			}
			for _, s := range sites {
				c := asCall(s)
				if c == nil {
					continue
				}
				var e ssa.Value
				for v := range errValues(c) {
					if _, isPhi := v.(*ssa.Phi); !isPhi && isErrorType(v.Type()) {
						if ex, ok := v.(*ssa.Extract); ok && ex.Tuple == ssa.Value(c) {
							e = v
						} else if v == ssa.Value(c) {
							e = v
						}
					}
				}
				if e == nil {
					r.Bad(rule, shortFunc(fn)+"/"+name, s.Pos(), "the error result of this call is discarded: Close/Flush would report success although the component failed to flush or close — the caller believes the data is durable")
					continue
				}
				ok, why := failureIsReported(fn, c, e, errIdx)
				if ok {
					r.Ok(rule, shortFunc(fn)+"/"+name, s.Pos(), "on every path on which this call failed the function returns a non-nil error")
				} else {
					r.Bad(rule, shortFunc(fn)+"/"+name, s.Pos(), "the function can return a nil error although this call failed ("+why+"): Close/Flush reports success while the component's data was not written — C02's promise is conditional on Close returning without error")
				}
			}
		}
	}
	r.Min(rule, 7)
}

// failureIsReported enumerates the acyclic paths from call c to the returns of
// fn, assuming c's error e is non-nil, tracking nil-ness facts of values tested
// by the branches on the way and the incoming edge of every phi.
func failureIsReported(fn *ssa.Function, c *ssa.Call, e ssa.Value, errIdx int) (bool, string) {
	type state struct {
		b       *ssa.BasicBlock
		idx     int
		prev    *ssa.BasicBlock
		nonNil  map[ssa.Value]bool
		isNil   map[ssa.Value]bool
		phiVal  map[*ssa.Phi]ssa.Value
		visited map[*ssa.BasicBlock]int
	}
	budget := 20000
	resolve := func(st *state, v ssa.Value) ssa.Value {
		for i := 0; i < 20; i++ {
			p, ok := v.(*ssa.Phi)
			if !ok {
				return v
			}
			w, ok := st.phiVal[p]
			if !ok {
				return v
			}
			v = w
		}
		return v
	}
	var fail string
	var walk func(st *state) bool
	walk = func(st *state) bool {
		budget--
		if budget < 0 {
			fail = "path budget exhausted"
			return false
		}
		b := st.b
		// phis at block entry (idx==0): record the incoming values
		if st.idx == 0 && st.prev != nil {
			pi := -1
			for i, p := range b.Preds {
				if p == st.prev {
					pi = i
				}
			}
			newPhi := map[*ssa.Phi]ssa.Value{}
			for k, v := range st.phiVal {
				newPhi[k] = v
			}
			for _, in := range b.Instrs {
				p, ok := in.(*ssa.Phi)
				if !ok {
					break
				}
				if pi >= 0 {
					newPhi[p] = resolve(st, p.Edges[pi])
				}
			}
			st.phiVal = newPhi
		}
		for i := st.idx; i < len(b.Instrs); i++ {
			switch in := b.Instrs[i].(type) {
			case *ssa.Return:
				if fn.Recover != nil && b == fn.Recover {
					return true
				}
				rv := resolve(st, retVal(in, errIdx))
				switch {
				case rv == e, st.nonNil[rv]:
					return true
				case isNilConst(rv), st.isNil[rv]:
					fail = "returns nil at " + fmt.Sprint(fn.Prog.Fset.Position(in.Pos()).Line)
					return false
				}
				if _, isMI := rv.(*ssa.MakeInterface); isMI {
					return true
				}
				if call, ok := rv.(*ssa.Call); ok {
					switch cname(call) {
					case "fmt.Errorf", "errors.New":
						return true
					}
				}
				fail = "returned value not known to be non-nil at line " + fmt.Sprint(fn.Prog.Fset.Position(in.Pos()).Line)
				return false
			case *ssa.If:
				cond, neg := stripNot(in.Cond)
				var tested ssa.Value
				var nilOnTrue bool
				decided := -1
				if bo, ok := cond.(*ssa.BinOp); ok && (bo.Op == token.EQL || bo.Op == token.NEQ) {
					switch {
					case isNilConst(bo.Y):
						tested = resolve(st, bo.X)
					case isNilConst(bo.X):
						tested = resolve(st, bo.Y)
					}
					nilOnTrue = bo.Op == token.EQL
				}
				if tested != nil {
					known, isN := false, false
					switch {
					case tested == e, st.nonNil[tested]:
						known, isN = true, false
					case st.isNil[tested], isNilConst(tested):
						known, isN = true, true
					}
					if known {
						truth := isN == nilOnTrue
						if neg {
							truth = !truth
						}
						if truth {
							decided = 0
						} else {
							decided = 1
						}
					}
				}
				for si, succ := range b.Succs {
					if decided >= 0 && si != decided {
						continue
					}
					if st.visited[succ] >= 2 {
						continue
					}
					ns := &state{b: succ, prev: b, nonNil: st.nonNil, isNil: st.isNil, phiVal: st.phiVal, visited: map[*ssa.BasicBlock]int{}}
					for k, v := range st.visited {
						ns.visited[k] = v
					}
					ns.visited[succ]++
					if tested != nil && decided < 0 {
						// learn the fact on this edge
						truth := si == 0
						if neg {
							truth = !truth
						}
						isN := truth == nilOnTrue
						nn, nl := map[ssa.Value]bool{}, map[ssa.Value]bool{}
						for k, v := range st.nonNil {
							nn[k] = v
						}
						for k, v := range st.isNil {
							nl[k] = v
						}
						if isN {
							nl[tested] = true
						} else {
							nn[tested] = true
						}
						ns.nonNil, ns.isNil = nn, nl
					}
					if !walk(ns) {
						return false
					}
				}
				return true
			}
		}
		for _, succ := range b.Succs {
			if st.visited[succ] >= 2 {
				continue
			}
			ns := &state{b: succ, prev: b, nonNil: st.nonNil, isNil: st.isNil, phiVal: st.phiVal, visited: map[*ssa.BasicBlock]int{}}
			for k, v := range st.visited {
				ns.visited[k] = v
			}
			ns.visited[succ]++
			if !walk(ns) {
				return false
			}
		}
		return true
	}
	// phi bindings valid at the call: resolve lazily — values flowing from
	// before the call are left as they are (unknown)
	st := &state{b: c.Block(), idx: instrIndex(c) + 1, nonNil: map[ssa.Value]bool{e: true}, isNil: map[ssa.Value]bool{}, phiVal: map[*ssa.Phi]ssa.Value{}, visited: map[*ssa.BasicBlock]int{}}
	ok := walk(st)
	return ok, fail
}

// R-POOL-FLUSH-COMPLETE: a Flush writes every entry of the pool it swapped
// out: no iteration of the loop over the pool skips the per-entry write.
func rulePoolFlushComplete(r *Report) {
	const rule = "pool-flush-complete"
	type target struct {
		alias, fn, field string
		write            []string
	}
	for _, t := range []target{
		{"I", "(*Index).Flush", "Index.curPool", []string{"(*index.Index).flushBucket"}},
		{"M", "(*MultihashPrimary).Flush", "MultihashPrimary.curPool", []string{"(*mhprimary.MultihashPrimary).flushBlock"}},
		{"Cd", "(*CIDPrimary).Flush", "CIDPrimary.curPool", []string{"(*cidprimary.CIDPrimary).flushBlock"}},
		{"F", "(*FreeList).Flush", "FreeList.blockPool", []string{"(*freelist.FreeList).flushBlock"}},
	} {
		fn := r.need(rule, t.alias, t.fn)
		if fn == nil {
			continue
		}
		fromPool := func(v ssa.Value) bool {
			return derives(v, flowOpts{}, func(x ssa.Value) bool { return fieldOfLoad(x) == t.field || outerField(x) == t.field })
		}
		// the per-iteration element access: map Next or slice IndexAddr on the pool
		var heads []ssa.Instruction
		eachInstr(fn, func(in ssa.Instruction) {
			switch x := in.(type) {
			case *ssa.Next:
				if rg, ok := x.Iter.(*ssa.Range); ok && fromPool(rg.X) {
					heads = append(heads, in)
				}
			case *ssa.IndexAddr:
				if fromPool(x.X) {
					heads = append(heads, in)
				}
			}
		})
		if len(heads) == 0 {
			r.Bad(rule, shortFunc(fn)+"/loop", fn.Pos(), "no loop over "+t.field+" found in Flush: the swapped-out pool is never written")
			continue
		}
		isWrite := isCallNamed(t.write...)
		for _, h := range heads {
			h := h
			reach, path := Search{Fn: fn, From: h, Target: isInstr(h), Avoid: isWrite}.Run()
			if reach {
				r.BadPath(rule, shortFunc(fn)+"/every-entry-written", instrPos(h), "an iteration over the pool being flushed can move on to the next entry without writing this one ("+t.write[0]+" skipped): the entry is dropped when the pool is discarded — e.g. a bucket whose list became empty keeps pointing at its old on-disk list, so removed keys come back", path)
			} else {
				r.Ok(rule, shortFunc(fn)+"/every-entry-written", instrPos(h), "every iteration over the swapped-out pool passes "+t.write[0]+" (or leaves Flush with an error)")
			}
		}
	}
	r.Min(rule, 4)
}

// R-REMAP-OFFSET: the legacy-offset remapper walks the chunk sizes; an old
// offset lies in the first chunk whose (remaining) offset is STRICTLY below
// the chunk's size — an offset equal to the size is the first byte of the next
// chunk — otherwise the size is subtracted and the file number advanced by one.
func ruleRemapOffset(r *Report) {
	const rule = "remap-offset"
	fn := r.need(rule, "M", "(*IndexRemapper).RemapOffset")
	if fn == nil {
		return
	}
	isSize := func(v ssa.Value) bool {
		return derives(v, flowOpts{}, func(x ssa.Value) bool { return fieldOfLoad(x) == "IndexRemapper.sizes" })
	}
	isPos := func(v ssa.Value) bool {
		v = stripIntConv(v)
		if _, ok := v.(*ssa.Phi); !ok {
			return false
		}
		return derives(v, flowOpts{Arith: true}, isParam(fn, 1)) && !isSize(v)
	}
	abs := callSites(fn, "mhprimary.absolutePrimaryPos")
	if len(abs) == 0 {
		r.Bad(rule, "RemapOffset/encode", fn.Pos(), "the remapped position is not built with absolutePrimaryPos")
		return
	}
	found := false
	for _, b := range fn.Blocks {
		ifi, ok := lastInstr(b).(*ssa.If)
		if !ok {
			continue
		}
		cond, neg := stripNot(ifi.Cond)
		bo, ok := cond.(*ssa.BinOp)
		if !ok {
			continue
		}
		var op token.Token
		switch {
		case isPos(bo.X) && isSize(bo.Y):
			op = bo.Op
		case isPos(bo.Y) && isSize(bo.X):
			// SIZE op POS  ==  POS op' SIZE
			switch bo.Op {
			case token.LSS:
				op = token.GTR
			case token.LEQ:
				op = token.GEQ
			case token.GTR:
				op = token.LSS
			case token.GEQ:
				op = token.LEQ
			default:
				op = bo.Op
			}
		default:
			continue
		}
		found = true
		// which edge reaches the successful return
		for _, a := range abs {
			tIdx := 0
			if neg {
				tIdx = 1
			}
			onTrue, _ := guarded(fn, a, edgeSet{Edge{b, tIdx}: true}, nil)
			onFalse, _ := guarded(fn, a, edgeSet{Edge{b, 1 - tIdx}: true}, nil)
			strict := (onTrue && op == token.LSS) || (onFalse && op == token.GEQ)
			r.Check(strict, rule, "RemapOffset/chunk-boundary", instrPos(ifi), "an offset belongs to a chunk iff it is strictly below the chunk's size",
				fmt.Sprintf("the chunk is selected when [offset %s size] (true branch selects: %v): an old offset equal to a chunk's size is the first record of the NEXT chunk; it would be mapped one past the end of the previous file and the key is lost after the upgrade", op, onTrue))
		}
	}
	if !found {
		r.Bad(rule, "RemapOffset/chunk-boundary", fn.Pos(), "no comparison of the remaining offset with a chunk size found")
	}
	// the other branch subtracts the size and steps the file number by one
	subOK, stepOK := false, false
	eachInstr(fn, func(in ssa.Instruction) {
		bo, ok := in.(*ssa.BinOp)
		if !ok {
			return
		}
		if bo.Op == token.SUB && isPos(bo.X) && isSize(bo.Y) {
			subOK = true
		}
		if bo.Op == token.ADD {
			if k, isC := intConst(bo.Y); isC && k == 1 {
				if _, isPhi := bo.X.(*ssa.Phi); isPhi && derives(bo.X, flowOpts{Arith: true}, isFieldLoad("IndexRemapper.firstFile")) {
					stepOK = true
				}
			}
		}
	})
	// equivalent form: firstFile + <index of the range loop over the chunk sizes>
	if !stepOK {
		isLoopIndex := func(v ssa.Value) bool {
			v = stripIntConv(v)
			if p, ok := v.(*ssa.Phi); ok {
				return isCountedPhi(p)
			}
			if bo, ok := v.(*ssa.BinOp); ok && bo.Op == token.ADD {
				if k, isC := intConst(bo.Y); isC && k == 1 {
					if p, ok := bo.X.(*ssa.Phi); ok {
						return isCountedPhi(p)
					}
				}
			}
			return false
		}
		for _, a := range abs {
			if args := a.Common().Args; len(args) == 3 {
				if bo, ok := stripIntConv(args[1]).(*ssa.BinOp); ok && bo.Op == token.ADD {
					x, y := stripIntConv(bo.X), stripIntConv(bo.Y)
					if (fieldOfLoad(x) == "IndexRemapper.firstFile" && isLoopIndex(y)) || (fieldOfLoad(y) == "IndexRemapper.firstFile" && isLoopIndex(x)) {
						stepOK = true
					}
				}
			}
		}
	}
	r.Check(subOK, rule, "RemapOffset/subtracts-chunk-size", fn.Pos(), "moving on to the next chunk subtracts this chunk's size", "the remaining offset is not reduced by the chunk's size when moving to the next chunk")
	r.Check(stepOK, rule, "RemapOffset/file-number-steps-from-first", fn.Pos(), "the file number starts at the header's first file and advances by one per chunk", "the file number does not start at IndexRemapper.firstFile and advance by one per chunk")
	for _, a := range abs {
		args := a.Common().Args
		okArgs := len(args) == 3 && derives(args[0], flowOpts{Arith: true}, isParam(fn, 1)) &&
			derives(args[1], flowOpts{Arith: true}, isFieldLoad("IndexRemapper.firstFile")) &&
			fieldOfLoad(stripIntConv(args[2])) == "IndexRemapper.maxFileSize"
		r.Check(okArgs, rule, "RemapOffset/encode", a.Pos(), "new position = absolutePrimaryPos(remaining offset, file number, the remapper's limit)", "absolutePrimaryPos is not called with (remaining offset, file number, IndexRemapper.maxFileSize)")
	}
	r.Min(rule, 4)
}

// R-CHUNK-FILE-FRESH: the upgrade's chunk files are created empty. The upgrade
// is resumable only because a re-run after a crash *replaces* what the torn run
// left behind; opening with O_CREATE but without O_TRUNC/O_EXCL appends behind
// the leftovers.
func ruleChunkFileFresh(r *Report) {
	const rule = "chunk-file-fresh"
	for _, c := range []struct{ alias, fn string }{{"I", "chunkOldIndex"}, {"M", "chunkOldPrimary"}} {
		fn := r.need(rule, c.alias, c.fn)
		if fn == nil {
			continue
		}
		n := 0
		for _, oc := range deepCallSites(fn, "os.OpenFile", "os.Create") {
			if cname(oc) == "os.Create" {
				n++
				r.Ok(rule, shortFunc(fn)+"/creates-empty", oc.Pos(), "os.Create truncates")
				continue
			}
			flags, isC := intConst(oc.Common().Args[1])
			if !isC {
				r.Bad(rule, shortFunc(fn)+"/creates-empty", oc.Pos(), "open flags are not a constant")
				continue
			}
			if flags&int64(osOCreate) == 0 {
				continue // opens an existing file (the legacy file itself)
			}
			n++
			r.Check(flags&int64(osOTrunc|osOExcl) != 0, rule, shortFunc(fn)+"/creates-empty", oc.Pos(), "chunk files are created with O_TRUNC (or O_EXCL)",
				"a chunk file is opened with O_CREATE but without O_TRUNC/O_EXCL: when the upgrade is re-run after a crash inside chunking, the new chunks are appended behind the torn leftovers of the previous attempt — the converted index/primary is misparsed (keys lost, panics)")
		}
		if n == 0 {
			r.Bad(rule, shortFunc(fn)+"/creates-empty", fn.Pos(), "the chunker creates no file")
		}
	}
	r.Min(rule, 2)
}
