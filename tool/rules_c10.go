package main

import (
	"fmt"
	"go/constant"
	"go/token"
	"strings"

	"golang.org/x/tools/go/ssa"
)

func isStringConst(v ssa.Value, s string) bool {
	c, ok := v.(*ssa.Const)
	return ok && c.Value != nil && c.Value.Kind() == constant.String && constant.StringVal(c.Value) == s
}

// concatWith: v is x + suffix (string concatenation with a constant suffix); returns x.
func concatWith(v ssa.Value, suffix string) (ssa.Value, bool) {
	bo, ok := v.(*ssa.BinOp)
	if !ok || bo.Op != token.ADD || !isStringConst(bo.Y, suffix) {
		return nil, false
	}
	return bo.X, true
}

func ruleUpgradeOrder(r *Report) {
	const rule = "upgrade-order"
	// ---- primary
	if fn := r.need(rule, "M", "upgradePrimary"); fn != nil {
		var chunk, apply, wh *ssa.Call
		for _, c := range callSites(fn, "mhprimary.chunkOldPrimary") {
			chunk = asCall(c)
		}
		for _, c := range callSites(fn, "mhprimary.applyFreeList") {
			apply = asCall(c)
		}
		for _, c := range callSites(fn, "mhprimary.writeHeader") {
			wh = asCall(c)
		}
		if chunk == nil || apply == nil || wh == nil {
			r.Bad(rule, "upgradePrimary/steps", fn.Pos(), fmt.Sprintf("upgrade steps found: applyFreeList=%v chunkOldPrimary=%v writeHeader=%v", apply != nil, chunk != nil, wh != nil))
		} else {
			// freelist offsets are in the old linear address space: apply before chunking
			noFL := nilEdges(fn, func(v ssa.Value) bool {
				p, ok := v.(*ssa.Parameter)
				return ok && strings.HasSuffix(shortType(p.Type()), "freelist.FreeList")
			}, false)
			ok, path := guarded(fn, chunk, mkEdgeSet(noFL), map[ssa.Instruction]bool{apply: true})
			if ok {
				r.Ok(rule, "upgradePrimary/freelist-applied-before-chunking", chunk.Pos(), "the pending freelist is applied to the old single file before it is split (the only excused path is freeList == nil)")
			} else {
				r.BadPath(rule, "upgradePrimary/freelist-applied-before-chunking", chunk.Pos(), "the old primary can be split into chunks before the pending freelist entries (whose offsets are in the OLD linear address space) were applied: freed records stay live, or the entries later mark the wrong records", path)
			}
			bad := false
			for _, fe := range failureEdges(apply) {
				fe := fe
				if reach, p := (Search{Fn: fn, FromEdge: &fe, Target: isInstr(chunk)}).Run(); reach {
					bad = true
					r.BadPath(rule, "upgradePrimary/chunk-only-if-apply-succeeded", chunk.Pos(), "chunking proceeds although applying the freelist failed", p)
				}
			}
			if !bad {
				r.Ok(rule, "upgradePrimary/chunk-only-if-apply-succeeded", chunk.Pos(), "chunking only after applyFreeList succeeded")
			}
			if ok, p := successGuard(fn, wh, chunk); ok {
				r.Ok(rule, "upgradePrimary/header-after-chunking", wh.Pos(), "the new-format header is written only after chunking succeeded (its existence marks the upgrade complete)")
			} else {
				r.BadPath(rule, "upgradePrimary/header-after-chunking", wh.Pos(), "the header that marks the upgrade complete can be written before/without successful chunking: an interrupted conversion would not be resumed", p)
			}
			// the upgrade is skipped when the header exists (resumability marker)
		}
	}
	// ---- index
	if fn := r.need(rule, "I", "upgradeIndex"); fn != nil {
		var chunk, wh *ssa.Call
		for _, c := range callSites(fn, "index.chunkOldIndex") {
			chunk = asCall(c)
		}
		for _, c := range callSites(fn, "index.writeHeader") {
			wh = asCall(c)
		}
		if chunk == nil || wh == nil {
			r.Bad(rule, "upgradeIndex/steps", fn.Pos(), "chunkOldIndex/writeHeader not found")
		} else {
			if ok, p := successGuard(fn, wh, chunk); ok {
				r.Ok(rule, "upgradeIndex/header-after-chunking", wh.Pos(), "the new-format header is written only after chunking succeeded")
			} else {
				r.BadPath(rule, "upgradeIndex/header-after-chunking", wh.Pos(), "the index header can be written before/without successful chunking", p)
			}
			// only version 2 is converted
			var ver []Edge
			ver = condEdges(fn, func(cond ssa.Value) (bool, bool) {
				bo, ok := cond.(*ssa.BinOp)
				if !ok || (bo.Op != token.NEQ && bo.Op != token.EQL) {
					return false, false
				}
				k, isC := intConst(stripIntConv(bo.Y))
				if !isC || k != 2 || !derives(bo.X, flowOpts{}, isCallTo("index.readOldHeader")) {
					return false, false
				}
				if bo.Op == token.EQL {
					return true, false
				}
				return false, true
			})
			ok, path := guarded(fn, chunk, mkEdgeSet(ver), nil)
			if ok && len(ver) > 0 {
				r.Ok(rule, "upgradeIndex/only-version-2", chunk.Pos(), "only a version-2 legacy index is converted")
			} else {
				r.BadPath(rule, "upgradeIndex/only-version-2", chunk.Pos(), "a legacy file of another version can be chunked as if it were version 2", path)
			}
		}
	}
	// ---- remap
	if fn := r.need(rule, "I", "remapIndex"); fn != nil {
		whs := callSites(fn, "index.writeHeader")
		renames := callSites(fn, "os.Rename")
		writes := callSites(fn, "(*os.File).WriteAt")
		if len(whs) == 0 || len(renames) == 0 || len(writes) == 0 {
			r.Bad(rule, "remapIndex/steps", fn.Pos(), "header write, rename or WriteAt not found in remapIndex")
			return
		}
		remapVals := map[ssa.Value]bool{}
		for _, c := range callSites(fn, "(*mhprimary.MultihashPrimary).NewIndexRemapper") {
			if cc := asCall(c); cc != nil {
				for _, v := range resultValues(cc, 0) {
					remapVals[v] = true
				}
			}
		}
		noRemap := nilEdges(fn, func(v ssa.Value) bool { return remapVals[v] }, false)
		for _, wh := range whs {
			onNil, _ := guarded(fn, wh, mkEdgeSet(noRemap), nil)
			if onNil {
				r.Ok(rule, "remapIndex/completion-header", wh.Pos(), "completion is recorded directly when nothing needs remapping")
				continue
			}
			// after the per-file loop: cannot get back to a rename/WriteAt
			back := false
			for _, x := range append(append([]ssa.CallInstruction{}, renames...), writes...) {
				if reach, _ := (Search{Fn: fn, From: wh, Target: isInstr(x)}).Run(); reach {
					back = true
				}
			}
			// and the loop was entered on the way
			var ranged bool
			eachInstr(fn, func(in ssa.Instruction) {
				if nx, ok := in.(*ssa.Next); ok {
					if pre, _ := precededBy(fn, wh, map[ssa.Instruction]bool{nx: true}, nil); pre {
						ranged = true
					}
				}
			})
			if !back && ranged {
				r.Ok(rule, "remapIndex/completion-header", wh.Pos(), "the header recording completion (PrimaryFileSize) is written only after the per-file loop finished")
			} else {
				r.Bad(rule, "remapIndex/completion-header", wh.Pos(), "the header that records remapping as complete can be written before all index files were remapped (inside or before the per-file loop): an interruption afterwards leaves un-remapped files that are never revisited, their offsets point into the wrong primary chunk")
			}
			// value recorded is the primary's file size
			r.Check(derives(wh.Common().Args[1], flowOpts{}, isCallTo("(*mhprimary.MultihashPrimary).FileSize")), rule, "remapIndex/completion-value", wh.Pos(), "completion records the primary's file size", "the header written does not record the primary's FileSize()")
		}
		for _, w := range writes {
			okTmp := derives(w.Common().Args[0], flowOpts{}, func(v ssa.Value) bool {
				c, ok := v.(*ssa.Call)
				if !ok || cname(c) != "os.OpenFile" {
					return false
				}
				_, isTmp := concatWith(c.Call.Args[0], ".tmp")
				return isTmp
			})
			r.Check(okTmp, rule, "remapIndex/writes-only-temp-copy", w.Pos(), "offsets are rewritten only in the .tmp copy of an index file", "remapIndex rewrites offsets in a file other than the .tmp copy: an interruption leaves a partially remapped live index file")
		}
		for _, rn := range renames {
			a := rn.Common().Args
			orig, isTmp := concatWith(a[0], ".tmp")
			r.Check(isTmp && sameValue(orig, a[1]), rule, "remapIndex/rename-temp-over-original", rn.Pos(), "the finished temp copy replaces its original by rename", "the rename in remapIndex is not <file>.tmp -> <file>")
			closes := instrSet(callSites(fn, "(*os.File).Close"))
			ok, path := precededBy(fn, rn, closes, nil)
			wr, _ := precededBy(fn, rn, instrSet(writes), nil)
			_ = wr
			if ok {
				r.Ok(rule, "remapIndex/close-before-rename", rn.Pos(), "the temp copy is closed before it is renamed into place")
			} else {
				r.BadPath(rule, "remapIndex/close-before-rename", rn.Pos(), "the temp copy can be renamed into place without having been closed", path)
			}
		}
		// completion markers are removed only after the completion header is on disk
		for _, rm := range callSites(fn, "os.Remove") {
			if _, isMarker := concatWith(rm.Common().Args[0], ".remapped"); !isMarker {
				continue
			}
			okAny := false
			var path []*ssa.BasicBlock
			for _, wh := range whs {
				if ok, p := successGuard(fn, rm, asCall(wh)); ok {
					okAny = true
				} else {
					path = p
				}
			}
			if okAny {
				r.Ok(rule, "remapIndex/markers-removed-after-completion-header", rm.Pos(), "the per-file .remapped markers are removed only after the header recording completion was written successfully")
			} else {
				r.BadPath(rule, "remapIndex/markers-removed-after-completion-header", rm.Pos(), "the .remapped markers can be removed before the completion header is written: if that write fails or the process dies in between, the next open remaps the already remapped files a second time — nearly every entry is mis-pointed or dropped", path)
			}
		}
		ruleRemapCutsDescending(r, rule)
		// entries whose primary data no longer exists are dropped, not mis-pointed
		for _, c := range callSites(fn, "(*mhprimary.IndexRemapper).RemapOffset") {
			rc := asCall(c)
			if rc == nil {
				continue
			}
			isDel := func(in ssa.Instruction) bool {
				ci, ok := in.(ssa.CallInstruction)
				if !ok || cname(ci) != "builtin.append" {
					return false
				}
				return strings.Contains(shortType(ci.Common().Args[0].Type()), "[]int")
			}
			bad := false
			for _, fe := range failureEdges(rc) {
				fe := fe
				reach, path := Search{Fn: fn, FromEdge: &fe, Target: func(in ssa.Instruction) bool {
					return in == ssa.Instruction(rc) || isReturn(in) || isCallNamed("(*os.File).WriteAt")(in)
				}, Avoid: isDel}.Run()
				if reach {
					bad = true
					r.BadPath(rule, "remapIndex/unmappable-entry-dropped", rc.Pos(), "an index entry whose old offset cannot be remapped (its primary data no longer exists) is not queued for deletion on every path: it would be written back pointing at offset 0 / a wrong record", path)
				}
			}
			if !bad {
				r.Ok(rule, "remapIndex/unmappable-entry-dropped", rc.Pos(), "an entry that cannot be remapped is always queued for deletion")
			}
		}
	}
	r.Min(rule, 10)
}

// R-ROLLOVER-SIBLINGS: the five "start a new file" tests use the same relation.
func ruleRolloverSiblings(r *Report) {
	const rule = "rollover-siblings"
	type sib struct {
		name string
		test string
		pos  token.Pos
	}
	var sibs []sib
	// appenders (field based)
	fieldSibs := []struct {
		alias, fn string
		ps        predictSpec
		pos, file string
	}{
		{"I", "(*Index).flushBucket", predictSpec{typ: "Index", limit: "maxFileSize"}, "length", "fileNum"},
		{"M", "(*MultihashPrimary).flushBlock", predictSpec{typ: "MultihashPrimary", limit: "maxFileSize"}, "length", "fileNum"},
		{"M", "(*MultihashPrimary).Put", predictSpec{typ: "MultihashPrimary", limit: "maxFileSize"}, "recPos", "recFileNum"},
	}
	for _, fs := range fieldSibs {
		fn := r.need(rule, fs.alias, fs.fn)
		if fn == nil {
			continue
		}
		ri := analyseAdvance(fn, fs.ps, fs.pos, fs.file)
		if !ri.ok {
			r.Undecided(rule, shortFunc(fn)+": "+ri.detail)
			continue
		}
		t := ri.test
		if ri.branch != 0 {
			t = "not(" + t + ")"
		}
		sibs = append(sibs, sib{shortFunc(fn), t, ri.testPos})
	}
	// chunkers (parameter based): running total compared with the limit parameter
	for _, c := range []struct{ alias, fn string }{{"I", "chunkOldIndex"}, {"M", "chunkOldPrimary"}} {
		fn := r.need(rule, c.alias, c.fn)
		if fn == nil {
			continue
		}
		limit := fn.Params[len(fn.Params)-1]
		env := linEnv{Canon: func(v ssa.Value) (string, bool) {
			if v == ssa.Value(limit) {
				return "LIMIT", true
			}
			return "", false
		}}
		found := false
		for _, b := range fn.Blocks {
			ifi, ok := lastInstr(b).(*ssa.If)
			if !ok {
				continue
			}
			cond, neg := stripNot(ifi.Cond)
			bo, ok := cond.(*ssa.BinOp)
			if !ok {
				continue
			}
			if stripIntConv(bo.X) != ssa.Value(limit) && stripIntConv(bo.Y) != ssa.Value(limit) {
				continue
			}
			op, l, rr, ok := cmpNorm(env, bo)
			if !ok {
				continue
			}
			// the running total: whatever is compared with the limit
			other := l
			if l.T["LIMIT"] == 1 {
				other = rr
			}
			t := strings.Replace(fmt.Sprintf("%s %s %s", l.String(), op, rr.String()), other.String(), "POS", 1)
			// the true branch must start a new file (creates a file)
			newFile := false
			newFileSites := callsReaching(fn, "index.createFileAppend", "mhprimary.createFileAppend")
			for _, oc := range callSites(fn, "os.OpenFile", "os.Create") {
				if cname(oc) == "os.Create" {
					newFileSites = append(newFileSites, oc)
				} else if fl, isC := intConst(oc.Common().Args[1]); isC && fl&osOCreate != 0 {
					newFileSites = append(newFileSites, oc)
				}
			}
			for _, cf := range newFileSites {
				idx := 0
				if neg {
					idx = 1
				}
				if ok, _ := guarded(fn, cf, edgeSet{Edge{b, idx}: true}, nil); ok {
					newFile = true
				}
			}
			if !newFile {
				continue
			}
			found = true
			sibs = append(sibs, sib{shortFunc(fn), t, instrPos(ifi)})
		}
		if !found {
			r.Bad(rule, shortFunc(fn)+"/test", fn.Pos(), "no 'start a new chunk when the running size reaches the limit' test found")
		}
	}
	ruleChunkAccounting(r)
	ruleChunkWritesEveryPath(r, "chunk-accounting")
	if len(sibs) == 0 {
		return
	}
	ref := "LIMIT <= POS"
	for _, s := range sibs {
		r.Check(s.test == ref, rule, s.name, s.pos, "starts a new file when running size >= limit ("+s.test+")",
			fmt.Sprintf("this appender/chunker starts a new file when [%s] while its siblings use [%s]: a record that ends exactly on the limit is attributed to different files by writer and address decoding (file = position / limit), so index entries point into the wrong chunk", s.test, ref))
	}
	r.Min(rule, 5)
}

func init() {
	register("C10", func(r *Report) {
		ruleUpgradeOrder(r)
		ruleRolloverSiblings(r)
		rulePosCodec(r)
		tmp := newReport(r.E, r.Property)
		ruleHeaderBeforeRemove(tmp, "header-before-remove")
		for _, o := range tmp.Obls {
			if strings.Contains(o.Key, "upgrade") {
				o.Rule = "legacy-removed-after-header"
				o.Key = "legacy-removed-after-header" + strings.TrimPrefix(o.Key, "header-before-remove")
				r.Obls = append(r.Obls, o)
			}
		}
		r.Min("legacy-removed-after-header", 2)
		ruleDeletedCheck(r)
		ruleRemapOffset(r)
		ruleChunkFileFresh(r)
		ruleRemapCompletion(r)
		r.support([]string{"layout", "predict", "primary-mark", "freelist-consume", "meta-atomic", "strip-whole-bytes", "scan-from-firstfile", "header-persist", "pos-width", "open-length", "append-flags", "header-preserved", "cancel-not-completion", "completion", "limit-component", "data-file-writers", "bounds-from-same-file", "errors-not-dropped", "config-wiring", "gc-start-order", "copy-complete", "remap-pool-fresh", "scan-ends-at-eof", "rescan-applies-all"})
	},
		"Decides the ordering/shape clauses of the legacy upgrade, not equality of contents or resumability at every crash point: upgradePrimary applies the pending freelist (offsets in the old linear address space) before chunking (excused only when there is no freelist), chunks only if that succeeded, writes the header (which marks completion) only after successful chunking and removes the legacy file only after the header; upgradeIndex converts only version 2, header after chunking, removal after header; remapIndex rewrites offsets only in .tmp copies, closes before renaming temp over original, records completion only after the per-file loop (or when nothing needs remapping) and always queues entries whose offset cannot be remapped for deletion; the five start-a-new-file tests (flushBucket, flushBlock, primary Put, both chunkers) use the same >= relation; chunkOldPrimary and applyFreeList honour the deleted bit. Not covered: RemapOffset arithmetic, equality of contents, the marker-then-rename window (observation O-4).")
}

// ruleChunkAccounting: a chunker's running size advances by exactly the bytes
// it wrote, on every path.
func ruleChunkAccounting(r *Report) {
	const rule = "chunk-accounting"
	for _, c := range []struct{ alias, fn string }{{"I", "chunkOldIndex"}, {"M", "chunkOldPrimary"}} {
		fn := r.need(rule, c.alias, c.fn)
		if fn == nil {
			continue
		}
		limit := fn.Params[len(fn.Params)-1]
		sws := findSizeWords(fn)
		if len(sws) == 0 {
			r.Undecided(rule, shortFunc(fn)+": size word not found")
			continue
		}
		sw := sws[0]
		env := linEnv{Canon: func(v ssa.Value) (string, bool) {
			if isSizeOfRecord(v, sw, map[ssa.Value]bool{}) {
				if _, isConst := v.(*ssa.Const); !isConst {
					return "SZ", true
				}
			}
			return "", false
		}}
		// bytes written per record
		written := linConst(0)
		for _, w := range callSites(fn, "(*bufio.Writer).Write") {
			written = written.add(lenOf(env, w.Common().Args[1]), 1)
		}
		for _, w := range callSites(fn, "io.CopyN") {
			written = written.add(env.lin(w.Common().Args[2]), 1)
		}
		found := false
		for _, b := range fn.Blocks {
			ifi, ok := lastInstr(b).(*ssa.If)
			if !ok {
				continue
			}
			cond, _ := stripNot(ifi.Cond)
			bo, ok := cond.(*ssa.BinOp)
			if !ok {
				continue
			}
			var running ssa.Value
			if stripIntConv(bo.Y) == ssa.Value(limit) {
				running = stripIntConv(bo.X)
			} else if stripIntConv(bo.X) == ssa.Value(limit) {
				running = stripIntConv(bo.Y)
			} else {
				continue
			}
			found = true
			add, isAdd := running.(*ssa.BinOp)
			if !isAdd || add.Op != token.ADD {
				r.Bad(rule, shortFunc(fn)+"/running-size", instrPos(ifi), "the running chunk size tested against the limit is not (previous size + bytes written) on every path (it is merged from paths that advance it differently): some records are written without being counted, the chunk grows past the limit and records land at local offsets >= the limit, which decode to the wrong file")
				continue
			}
			_, xPhi := stripIntConv(add.X).(*ssa.Phi)
			inc := env.lin(add.Y)
			if xPhi && inc.equal(written) {
				r.Ok(rule, shortFunc(fn)+"/running-size", instrPos(ifi), "the running size advances by exactly the bytes written per record ["+written.String()+"]")
			} else {
				r.Bad(rule, shortFunc(fn)+"/running-size", instrPos(ifi), fmt.Sprintf("the running chunk size advances by [%s] but [%s] bytes are written per record", inc, written))
			}
		}
		if !found {
			r.Bad(rule, shortFunc(fn)+"/running-size", fn.Pos(), "no comparison of a running size with the limit parameter found")
		}
	}
	r.Min(rule, 2)
}
