package main

import (
	"fmt"
	"go/token"

	"golang.org/x/tools/go/ssa"
)

// R-LAYOUT: writer and reader tables of the on-disk formats agree (A3).

func lenOf(env linEnv, v ssa.Value) Lin {
	if l, ok := env.sliceLen(v); ok {
		return l
	}
	return linAtom("len(" + env.rootAtom(v) + ")")
}

// appendChain returns the lengths appended, outermost last, walking the
// nested append calls that produce v.
func appendChain(env linEnv, v ssa.Value) []Lin {
	c, ok := v.(*ssa.Call)
	if !ok || cname(c) != "builtin.append" || len(c.Call.Args) < 2 {
		return nil
	}
	return append(appendChain(env, c.Call.Args[0]), lenOf(env, c.Call.Args[1]))
}

func ruleLayout(r *Report) {
	const rule = "layout"
	env := linEnv{}
	// ---- index entry
	add := r.need(rule, "I", "AddKeyPosition")
	read := r.need(rule, "I", "(RecordList).ReadRecord")
	next := r.need(rule, "I", "(*RecordListIter).Next")
	nextPos := r.need(rule, "I", "(*Record).NextPos")
	if add != nil && read != nil && next != nil && nextPos != nil {
		var chain []Lin
		for _, ret := range returnsOf(add) {
			chain = appendChain(env, retVal(ret, 0))
		}
		var offs []int64
		total := linConst(0)
		okChain := len(chain) == 4
		for i, l := range chain {
			if i < 3 {
				k, isC := l.isConst()
				if !isC {
					okChain = false
				}
				c, _ := total.isConst()
				offs = append(offs, c)
				total = total.add(linConst(k), 1)
			} else {
				c, _ := total.isConst()
				offs = append(offs, c)
				total = total.add(l, 1)
			}
		}
		r.Check(okChain, rule, "index-entry/writer", add.Pos(), fmt.Sprintf("AddKeyPosition appends fields at offsets %v, total [%s]", offs, total), fmt.Sprintf("AddKeyPosition's append chain is not offset|size|keylen|key: %v", chain))
		if okChain {
			// reader offsets relative to pos (param 1)
			var rd []int64
			base := linAtom("p1")
			collect := func(v ssa.Value) {
				d := env.lin(v).add(base, -1)
				if k, isC := d.isConst(); isC {
					rd = append(rd, k)
				}
			}
			// field widths: the writer's chain gives offset -> width (offs[i+1]-offs[i])
			widthAt := map[int64]int64{}
			for i := 0; i+1 < len(offs); i++ {
				widthAt[offs[i]] = offs[i+1] - offs[i]
			}
			for _, c := range callSites(read, "(encoding/binary.littleEndian).Uint64", "(encoding/binary.littleEndian).Uint32") {
				a := c.Common().Args
				arg := a[len(a)-1]
				for {
					if ct, ok := arg.(*ssa.ChangeType); ok {
						arg = ct.X
						continue
					}
					break
				}
				// the decoding width must be the width the writer gave the field
				if sl0, ok := arg.(*ssa.Slice); ok {
					off := int64(0)
					known := true
					if sl0.Low != nil {
						d := env.lin(sl0.Low).add(linAtom("p1"), -1)
						off, known = d.isConst()
					}
					w := int64(8)
					if cname(c) == "(encoding/binary.littleEndian).Uint32" {
						w = 4
					}
					if ww, ok := widthAt[off]; known && ok {
						r.Check(ww == w, rule, "index-entry/reader-width", c.Pos(), fmt.Sprintf("the field at offset %d is decoded with its written width (%d bytes)", off, ww),
							fmt.Sprintf("the field at offset %d is written with %d bytes but decoded as %d bytes: locations at or above 4 GiB (every record from the fifth 1 GiB primary file on) come back truncated and name another key's record", off, ww, w))
					}
				}
				if sl, ok := arg.(*ssa.Slice); ok {
					if sl.Low != nil {
						collect(sl.Low)
					} else {
						rd = append(rd, 0)
					}
				}
			}
			eachInstr(read, func(in ssa.Instruction) {
				switch x := in.(type) {
				case *ssa.IndexAddr:
					if _, isP := x.X.(*ssa.Parameter); isP {
						collect(x.Index)
					}
				case *ssa.Slice:
					if _, isP := x.X.(*ssa.Parameter); isP && x.Low != nil && x.High != nil {
						collect(x.Low)
					}
				}
			})
			want := map[int64]bool{}
			for _, o := range offs {
				want[o] = true
			}
			got := map[int64]bool{}
			for _, o := range rd {
				got[o] = true
			}
			same := len(want) == len(got)
			for k := range want {
				if !got[k] {
					same = false
				}
			}
			r.Check(same, rule, "index-entry/reader-offsets", read.Pos(), fmt.Sprintf("ReadRecord decodes at the writer's offsets %v", offs), fmt.Sprintf("ReadRecord decodes fields at offsets %v but AddKeyPosition writes them at %v", rd, offs))
			// contents: offset word from Block.Offset, size word from Block.Size, key length byte
			okContent := 0
			for _, c := range callSites(add, "(encoding/binary.littleEndian).PutUint64") {
				if derives(c.Common().Args[2], flowOpts{}, isFieldLoad("Block.Offset")) {
					okContent++
				}
			}
			for _, c := range callSites(add, "(encoding/binary.littleEndian).PutUint32") {
				if derives(c.Common().Args[2], flowOpts{}, isFieldLoad("Block.Size")) {
					okContent++
				}
			}
			r.Check(okContent == 2, rule, "index-entry/writer-contents", add.Pos(), "8-byte word holds Block.Offset, 4-byte word holds Block.Size", "AddKeyPosition does not encode Block.Offset (8 bytes) and Block.Size (4 bytes)")
			// iterator advance and NextPos
			fixed, _ := linConst(0).add(total, 1).isConst()
			_ = fixed
			hdr := offs[3]
			// `it.pos = record.NextPos()` is the same advance when the record was read
			// at it.pos and ReadRecord records that position in Record.Pos (NextPos is
			// checked below).
			readSetsPos := false
			for _, ps := range fieldStores(read, "Record.Pos") {
				if len(read.Params) > 1 && sameValue(ps.Val, read.Params[len(read.Params)-1]) {
					readSetsPos = true
				}
			}
			viaNextPos := func(v ssa.Value) bool {
				c, ok := v.(*ssa.Call)
				if !ok || c.Call.StaticCallee() != nextPos || len(c.Call.Args) == 0 || !readSetsPos {
					return false
				}
				return derives(c.Call.Args[0], flowOpts{}, func(x ssa.Value) bool {
					rc, ok := x.(*ssa.Call)
					if !ok || rc.Call.StaticCallee() != read {
						return false
					}
					a := rc.Call.Args
					return fieldOfLoad(stripConv(a[len(a)-1])) == "RecordListIter.pos"
				})
			}
			for _, st := range fieldStores(next, "RecordListIter.pos") {
				if viaNextPos(st.Val) {
					r.Ok(rule, "index-entry/iter-advance", instrPos(st), "the iterator advances to NextPos() of the record it read at its own position")
					continue
				}
				l := env.lin(st.Val).add(linAtom("F:RecordListIter.pos"), -1)
				r.Check(l.C == hdr && len(l.T) == 1, rule, "index-entry/iter-advance", instrPos(st), fmt.Sprintf("the iterator advances by %d + len(key)", hdr), fmt.Sprintf("the record-list iterator advances by [%s], the writer emits %d + len(key) bytes per entry", l, hdr))
			}
			for _, ret := range returnsOf(nextPos) {
				l := env.lin(retVal(ret, 0)).add(linAtom("F:Record.Pos"), -1)
				r.Check(l.C == hdr && len(l.T) == 1, rule, "index-entry/NextPos", ret.Pos(), fmt.Sprintf("NextPos = Pos + %d + len(key)", hdr), fmt.Sprintf("NextPos = Pos + [%s], the writer emits %d + len(key) bytes per entry", l, hdr))
			}
		}
	}
	// ---- index log record
	fb := r.need(rule, "I", "(*Index).flushBucket")
	rdb := r.need(rule, "I", "(*Index).readDiskBucket")
	nrl := r.need(rule, "I", "NewRecordList")
	if fb != nil && rdb != nil && nrl != nil {
		var lens []Lin
		total := linConst(0)
		for _, w := range callSites(fb, "(*bufio.Writer).Write") {
			l := lenOf(env, w.Common().Args[1])
			lens = append(lens, l)
			total = total.add(l, 1)
		}
		okW := len(lens) == 3
		var prefix, bucketLen int64
		if okW {
			var c1, c2 bool
			prefix, c1 = lens[0].isConst()
			bucketLen, c2 = lens[1].isConst()
			okW = c1 && c2
		}
		r.Check(okW, rule, "index-log/writer", fb.Pos(), fmt.Sprintf("flushBucket writes [size %d][bucket %d][data]", prefix, bucketLen), "flushBucket does not write size prefix, bucket prefix and data")
		if okW {
			// advance of length
			for _, st := range fieldStores(fb, "Index.length") {
				if c, isC := intConst(st.Val); isC && c == 0 {
					continue
				}
				adv := env.lin(st.Val).add(linAtom("F:Index.length"), -1)
				r.Check(adv.equal(total), rule, "index-log/length-advance", instrPos(st), "the file length advances by the bytes written ["+total.String()+"]", fmt.Sprintf("Index.length advances by [%s] but [%s] bytes are written: every later bucket position is off", adv, total))
			}
			// the size word excludes itself
			for _, pu := range callSites(fb, "(encoding/binary.littleEndian).PutUint32") {
				if rootBuffer(pu.Common().Args[1]) == rootBuffer(callSites(fb, "(*bufio.Writer).Write")[0].Common().Args[1]) {
					v := env.lin(pu.Common().Args[2])
					want := total.add(linConst(prefix), -1)
					r.Check(v.equal(want), rule, "index-log/size-word", pu.Pos(), "the size word counts bucket prefix + data ["+want.String()+"]", fmt.Sprintf("the size word is [%s], the record body is [%s]: scanners would mis-frame the log", v, want))
				}
			}
			// reader: size at pos - prefix, data at pos, record list strips the bucket prefix
			base := linAtom("p1")
			var sizeAt, dataAt *int64
			for _, ra := range callSites(rdb, "(*os.File).ReadAt") {
				d := env.lin(ra.Common().Args[2]).add(base, -1)
				k, isC := d.isConst()
				if !isC {
					continue
				}
				k2 := k
				if l, ok := env.sliceLen(ra.Common().Args[1]); ok {
					if c, isConst := l.isConst(); isConst && c == prefix {
						sizeAt = &k2
						continue
					}
				}
				dataAt = &k2
			}
			r.Check(sizeAt != nil && dataAt != nil && *sizeAt == -prefix && *dataAt == 0, rule, "index-log/reader", rdb.Pos(), "readDiskBucket reads the size word just before the bucket position and the body at it", "readDiskBucket does not read the size word at position-4 and the body at the position")
			strip := int64(-1)
			eachInstr(nrl, func(in ssa.Instruction) {
				if sl, ok := in.(*ssa.Slice); ok && sl.Low != nil {
					if k, isC := env.lin(sl.Low).isConst(); isC {
						strip = k
					}
				}
			})
			r.Check(strip == bucketLen, rule, "index-log/record-list-strips-bucket-prefix", nrl.Pos(), fmt.Sprintf("NewRecordList strips the %d-byte bucket prefix", bucketLen), fmt.Sprintf("NewRecordList strips %d bytes but flushBucket writes a %d-byte bucket prefix", strip, bucketLen))
		}
	}
	// ---- freelist entry
	ffb := r.need(rule, "F", "(*FreeList).flushBlock")
	fnx := r.need(rule, "F", "(*Iterator).Next")
	if ffb != nil && fnx != nil {
		var lens []int64
		ok := true
		for _, w := range callSites(ffb, "(*bufio.Writer).Write") {
			k, isC := lenOf(env, w.Common().Args[1]).isConst()
			if !isC {
				ok = false
			}
			lens = append(lens, k)
		}
		ok = ok && len(lens) == 2
		// first write carries the offset
		firstIsOffset := false
		if ok {
			w0 := callSites(ffb, "(*bufio.Writer).Write")[0]
			for _, pu := range callSites(ffb, "(encoding/binary.littleEndian).PutUint64") {
				if rootBuffer(pu.Common().Args[1]) == rootBuffer(w0.Common().Args[1]) && derives(pu.Common().Args[2], flowOpts{}, isFieldLoad("Block.Offset")) {
					firstIsOffset = true
				}
			}
		}
		r.Check(ok && firstIsOffset, rule, "freelist/writer", ffb.Pos(), fmt.Sprintf("freelist entry = offset(%v) then size", lens), "freelist flushBlock does not write the 8-byte offset followed by the 4-byte size")
		if ok {
			var bufLen int64 = -1
			eachInstr(fnx, func(in ssa.Instruction) {
				if mk, isMk := in.(*ssa.MakeSlice); isMk {
					if k, isC := env.lin(mk.Len).isConst(); isC {
						bufLen = k
					}
				}
				if sl, isSl := in.(*ssa.Slice); isSl {
					if al, isAl := sl.X.(*ssa.Alloc); isAl && bufLen < 0 {
						if l, ok := env.sliceLen(sl); ok {
							if k, isC := l.isConst(); isC {
								bufLen = k
								_ = al
							}
						}
					}
				}
			})
			sizeAt := int64(-1)
			for _, c := range callSites(fnx, "(encoding/binary.littleEndian).Uint32") {
				a := c.Common().Args
				arg := a[len(a)-1]
				if ct, isCT := arg.(*ssa.ChangeType); isCT {
					arg = ct.X
				}
				if sl, isSl := arg.(*ssa.Slice); isSl && sl.Low != nil {
					if k, isC := env.lin(sl.Low).isConst(); isC {
						sizeAt = k
					}
				}
			}
			r.Check(bufLen == lens[0]+lens[1] && sizeAt == lens[0], rule, "freelist/reader", fnx.Pos(), fmt.Sprintf("the iterator reads %d bytes and decodes the size at %d", bufLen, sizeAt), fmt.Sprintf("the freelist iterator reads %d bytes / decodes the size at %d, the writer emits %d+%d", bufLen, sizeAt, lens[0], lens[1]))
		}
	}
	_ = token.NoPos
	r.Min(rule, 10)
}
