package main

import (
	"fmt"
	"go/constant"
	"go/token"
	"go/types"
	"sort"
	"strings"

	"golang.org/x/tools/go/ssa"
)

// ---------------------------------------------------------------------------
// naming

func typeQualifier(p *types.Package) string {
	switch p.Path() {
	case modPath + "/store/primary/multihash":
		return "mhprimary"
	case modPath + "/store/primary/cid":
		return "cidprimary"
	case modPath:
		return "storethehash"
	}
	if strings.HasPrefix(p.Path(), modPath+"/") {
		return p.Name()
	}
	return p.Path()
}

func shortType(t types.Type) string { return types.TypeString(t, typeQualifier) }

// namedOf strips pointers and returns the named type, if any.
func namedOf(t types.Type) *types.Named {
	for {
		switch u := t.(type) {
		case *types.Pointer:
			t = u.Elem()
			continue
		case *types.Named:
			return u
		case *types.Alias:
			t = types.Unalias(u)
			continue
		}
		return nil
	}
}

// cname gives a canonical name of what a call site calls:
//
//	bytes.Equal, (*os.File).Close, (*index.Index).Put,
//	(primary.PrimaryStorage).Get (interface call), builtin.close,
//	field:primaryGC.updateIndex (call of a function-typed field), dynamic.
func cname(site ssa.CallInstruction) string {
	c := site.Common()
	if c.IsInvoke() {
		return "(" + shortType(c.Value.Type()) + ")." + c.Method.Name()
	}
	if b, ok := c.Value.(*ssa.Builtin); ok {
		return "builtin." + b.Name()
	}
	if f := c.StaticCallee(); f != nil {
		return shortFunc(f)
	}
	if fa := fieldOfLoad(c.Value); fa != "" {
		return "field:" + fa
	}
	if p, ok := c.Value.(*ssa.Parameter); ok {
		return "param:" + p.Name()
	}
	return "dynamic"
}

// fieldOfLoad returns "T.f" when v is a load of struct field f of named type T.
func fieldOfLoad(v ssa.Value) string {
	u, ok := v.(*ssa.UnOp)
	if !ok || u.Op != token.MUL {
		if f, ok := v.(*ssa.Field); ok {
			return fieldName(f.X.Type(), f.Field)
		}
		return ""
	}
	fa, ok := u.X.(*ssa.FieldAddr)
	if !ok {
		return ""
	}
	return fieldName(fa.X.Type(), fa.Field)
}

func fieldName(t types.Type, idx int) string {
	n := namedOf(t)
	var st *types.Struct
	if n != nil {
		st, _ = n.Underlying().(*types.Struct)
	} else {
		if p, ok := t.Underlying().(*types.Pointer); ok {
			t = p.Elem()
		}
		st, _ = t.Underlying().(*types.Struct)
	}
	if st == nil || idx >= st.NumFields() {
		return ""
	}
	name := "struct"
	if n != nil {
		name = n.Obj().Name()
		if n.Obj().Pkg() != nil {
			if c, ok := canonTypes[n.Obj().Pkg().Path()+"."+name]; ok {
				name = c
			}
		}
	}
	fname := st.Field(idx).Name()
	if n != nil && n.Obj().Pkg() != nil {
		if c, ok := canonFields[n.Obj().Pkg().Path()+"."+n.Obj().Name()+"."+fname]; ok {
			fname = c
		}
	}
	return name + "." + fname
}

// canonFields maps "pkgpath.Type.field" of a renamed struct field to the name
// the rule tables use (resolved at load time by position and type, see
// fields.json written by -dump-roles).
var canonFields = map[string]string{}

// canonTypes maps "pkgpath.NewName" of a renamed struct type to the name the
// rule tables use (resolved by structure: same package, same field types).
var canonTypes = map[string]string{}

// ---------------------------------------------------------------------------
// iteration helpers

func eachInstr(fn *ssa.Function, f func(ssa.Instruction)) {
	for _, b := range fn.Blocks {
		for _, in := range b.Instrs {
			f(in)
		}
	}
}

// callSites returns the call/defer/go instructions of fn whose cname matches
// one of names (exact match), in source order.
func callSites(fn *ssa.Function, names ...string) []ssa.CallInstruction {
	var out []ssa.CallInstruction
	if fn == nil {
		return nil
	}
	eachInstrScope(fn, func(in ssa.Instruction) {
		ci, ok := in.(ssa.CallInstruction)
		if !ok {
			return
		}
		n := cname(ci)
		for _, want := range names {
			if n == want {
				out = append(out, ci)
				return
			}
		}
	})
	sortByPos(out)
	return out
}

// eachInstrScope visits the instructions of fn and of its private helpers
// (scopeOf): a block moved into a helper that only this function uses is still
// part of what a rule about this function looks at.
func eachInstrScope(fn *ssa.Function, f func(ssa.Instruction)) {
	for _, g := range scopeOf(fn) {
		eachInstr(g, f)
	}
}

func allCalls(fn *ssa.Function) []ssa.CallInstruction {
	var out []ssa.CallInstruction
	eachInstr(fn, func(in ssa.Instruction) {
		if ci, ok := in.(ssa.CallInstruction); ok {
			out = append(out, ci)
		}
	})
	sortByPos(out)
	return out
}

func sortByPos(cs []ssa.CallInstruction) {
	sort.SliceStable(cs, func(i, j int) bool { return cs[i].Pos() < cs[j].Pos() })
}

func instrIndex(in ssa.Instruction) int {
	for i, x := range in.Block().Instrs {
		if x == in {
			return i
		}
	}
	return -1
}

// ---------------------------------------------------------------------------
// CFG reachability at instruction granularity

// Edge is the CFG edge from block From to From.Succs[Idx].
type Edge struct {
	From *ssa.BasicBlock
	Idx  int
}

func (e Edge) String() string {
	return fmt.Sprintf("b%d->b%d", e.From.Index, e.From.Succs[e.Idx].Index)
}

type edgeSet map[Edge]bool

func mkEdgeSet(es ...[]Edge) edgeSet {
	s := edgeSet{}
	for _, l := range es {
		for _, e := range l {
			s[e] = true
		}
	}
	return s
}

// Search describes a reachability query: from the instruction after From (or
// the function entry when From is nil) is there a path to an instruction
// satisfying Target that passes no instruction satisfying Avoid and no edge in
// AvoidEdges?
type Search struct {
	Fn         *ssa.Function
	From       ssa.Instruction // nil = entry
	FromEdge   *Edge           // alternative start: the target block of this edge
	Target     func(ssa.Instruction) bool
	Avoid      func(ssa.Instruction) bool
	AvoidEdges edgeSet
}

// staticCallers lists, for every module function, the static call sites that
// call it (filled at load time).
var staticCallers = map[*ssa.Function][]*ssa.Call{}

// searchDepth bounds the virtual inlining of same-package helpers.
const searchDepth = 3

func pkgOfFunc(f *ssa.Function) *ssa.Package {
	for x := f; x != nil; x = x.Parent() {
		if x.Pkg != nil {
			return x.Pkg
		}
	}
	return nil
}

type searchNode struct {
	b     *ssa.BasicBlock
	idx   int
	stack string // call-string key
	calls []*ssa.Call
	prev  *searchNode
	// binds: for helper calls traversed on this path, the return statement the
	// path left the helper through (only kept when that return yields a
	// constant bool / nil result a caller may branch on)
	binds map[*ssa.Call]*ssa.Return
	bkey  string
}

// bindReturn records that call c returned through ret (or forgets an older
// binding when ret carries no constant result).
func bindReturn(binds map[*ssa.Call]*ssa.Return, c *ssa.Call, ret *ssa.Return) (map[*ssa.Call]*ssa.Return, string) {
	useful := false
	for i := range ret.Results {
		if !branchedOn(c, i) {
			continue
		}
		switch v := retVal(ret, i).(type) {
		case *ssa.Const:
			if v.IsNil() || (v.Value != nil && v.Value.Kind() == constant.Bool) {
				useful = true
			}
		case *ssa.MakeInterface:
			useful = true
		default:
			if isErrorType(v.Type()) && retNonNil(ret, i) {
				useful = true
			}
		}
	}
	if _, had := binds[c]; !useful && !had {
		return binds, bindKey(binds)
	}
	out := map[*ssa.Call]*ssa.Return{}
	for k, v := range binds {
		out[k] = v
	}
	if useful {
		out[c] = ret
	} else {
		delete(out, c)
	}
	return out, bindKey(out)
}

// branchedOn reports whether result i of call c is tested directly by a
// branch of the calling function (`if ok`, `if !ok`, `if err != nil`).
var branchedOnCache = map[*ssa.Call]map[int]bool{}

func branchedOn(c *ssa.Call, i int) bool {
	m, ok := branchedOnCache[c]
	if !ok {
		m = map[int]bool{}
		branchedOnCache[c] = m
		idxOf := func(v ssa.Value) int {
			switch x := v.(type) {
			case *ssa.Extract:
				if x.Tuple == ssa.Value(c) {
					return x.Index
				}
			case *ssa.Call:
				if x == c {
					return 0
				}
			}
			return -1
		}
		for _, b := range c.Parent().Blocks {
			ifi, ok := lastInstr(b).(*ssa.If)
			if !ok {
				continue
			}
			cond, _ := stripNot(ifi.Cond)
			if k := idxOf(cond); k >= 0 {
				m[k] = true
				continue
			}
			if bo, ok := cond.(*ssa.BinOp); ok && (bo.Op == token.EQL || bo.Op == token.NEQ) {
				if isNilConst(bo.Y) {
					if k := idxOf(bo.X); k >= 0 {
						m[k] = true
					}
				} else if isNilConst(bo.X) {
					if k := idxOf(bo.Y); k >= 0 {
						m[k] = true
					}
				}
			}
		}
	}
	return m[i]
}

func bindKey(binds map[*ssa.Call]*ssa.Return) string {
	if len(binds) == 0 {
		return ""
	}
	var parts []string
	for c, r := range binds {
		parts = append(parts, fmt.Sprintf("%p=%p", c, r))
	}
	sort.Strings(parts)
	return strings.Join(parts, ",")
}

// boundCond evaluates a branch condition that tests a result of a helper call
// whose return statement is known on this path: a constant boolean result, or
// a comparison of an error/pointer result with nil.
func boundCond(cond ssa.Value, binds map[*ssa.Call]*ssa.Return) (val, known bool) {
	if len(binds) == 0 {
		return false, false
	}
	result := func(v ssa.Value) ssa.Value {
		switch x := v.(type) {
		case *ssa.Extract:
			if c, ok := x.Tuple.(*ssa.Call); ok {
				if ret := binds[c]; ret != nil && x.Index < len(ret.Results) {
					return retVal(ret, x.Index)
				}
			}
		case *ssa.Call:
			if ret := binds[x]; ret != nil && len(ret.Results) == 1 {
				return retVal(ret, 0)
			}
		}
		return nil
	}
	if rv := result(cond); rv != nil {
		if b, isC := boolConst(rv); isC {
			return b, true
		}
		return false, false
	}
	bo, ok := cond.(*ssa.BinOp)
	if !ok || (bo.Op != token.EQL && bo.Op != token.NEQ) {
		return false, false
	}
	var other ssa.Value
	switch {
	case isNilConst(bo.Y):
		other = bo.X
	case isNilConst(bo.X):
		other = bo.Y
	default:
		return false, false
	}
	rv := result(other)
	if rv == nil {
		return false, false
	}
	isNil, decided := false, false
	switch x := rv.(type) {
	case *ssa.Const:
		if x.IsNil() {
			isNil, decided = true, true
		}
	case *ssa.MakeInterface:
		isNil, decided = false, true
	default:
		if isErrorType(rv.Type()) {
			// the return statement the path left the helper through returns an error that is known
			// non-nil there (fmt.Errorf, or a value only reachable behind its own != nil edge)
			var ret *ssa.Return
			idx := 0
			switch x := other.(type) {
			case *ssa.Extract:
				if c, ok := x.Tuple.(*ssa.Call); ok {
					ret, idx = binds[c], x.Index
				}
			case *ssa.Call:
				ret = binds[x]
			}
			if ret != nil && retNonNil(ret, idx) {
				isNil, decided = false, true
			}
		}
	}
	if !decided {
		return false, false
	}
	if bo.Op == token.EQL {
		return isNil, true
	}
	return !isNil, true
}

var retNonNilCache = map[*ssa.Return]map[int]bool{}
var retNonNilBusy = false

// retNonNil: result i of this return statement is an error known to be non-nil.
func retNonNil(ret *ssa.Return, i int) bool {
	if m, ok := retNonNilCache[ret]; ok {
		if v, ok := m[i]; ok {
			return v
		}
	} else {
		retNonNilCache[ret] = map[int]bool{}
	}
	if retNonNilBusy {
		return false // knownNonNilAt runs a Search itself: no re-entry
	}
	retNonNilBusy = true
	v := knownNonNilAt(retVal(ret, i), ret)
	retNonNilBusy = false
	retNonNilCache[ret][i] = v
	return v
}

// Run returns whether the target is reachable and, if so, the block path.
// Calls to helper functions of the same package (static callee with a body,
// not recursive, depth <= searchDepth) are traversed as if inlined, so that a
// block extracted into a helper does not hide the instructions a rule looks
// for; the call instruction itself is offered to Target/Avoid first.
func (s Search) Run() (bool, []*ssa.BasicBlock) {
	if s.Fn == nil || len(s.Fn.Blocks) == 0 {
		return false, nil
	}
	rootPkg := pkgOfFunc(s.Fn)
	var start *searchNode
	switch {
	case s.FromEdge != nil:
		start = &searchNode{b: s.FromEdge.From.Succs[s.FromEdge.Idx]}
	case s.From != nil:
		start = &searchNode{b: s.From.Block(), idx: instrIndex(s.From) + 1}
	default:
		start = &searchNode{b: s.Fn.Blocks[0]}
	}
	visited := map[string]bool{}
	key := func(n *searchNode) string {
		return fmt.Sprintf("%s|%p|%d|%s", n.stack, n.b, n.idx, n.bkey)
	}
	pathOf := func(n *searchNode) []*ssa.BasicBlock {
		var p []*ssa.BasicBlock
		for x := n; x != nil; x = x.prev {
			if len(p) == 0 || p[0] != x.b {
				p = append([]*ssa.BasicBlock{x.b}, p...)
			}
			if len(p) > 200 {
				break
			}
		}
		return p
	}
	queue := []*searchNode{start}
	push := func(n *searchNode) {
		k := key(n)
		if visited[k] {
			return
		}
		visited[k] = true
		queue = append(queue, n)
	}
	visited[key(start)] = true
	inlinable := func(c *ssa.Call, n *searchNode) *ssa.Function {
		f := c.Call.StaticCallee()
		if f == nil || f.Blocks == nil || rootPkg == nil || pkgOfFunc(f) != rootPkg || len(n.calls) >= searchDepth {
			return nil
		}
		if f == s.Fn {
			return nil
		}
		for _, k := range n.calls {
			if k.Call.StaticCallee() == f {
				return nil
			}
		}
		return f
	}
	for len(queue) > 0 {
		n := queue[0]
		queue = queue[1:]
		b := n.b
		blocked := false
		transferred := false
		for i := n.idx; i < len(b.Instrs); i++ {
			in := b.Instrs[i]
			// a return of an inlined helper is internal: not offered to the predicates
			_, isRet := in.(*ssa.Return)
			internalRet := isRet && (len(n.calls) > 0 || b.Parent() != s.Fn)
			if !internalRet {
				if s.Target != nil && s.Target(in) {
					return true, pathOf(n)
				}
				if s.Avoid != nil && s.Avoid(in) {
					blocked = true
					break
				}
			}
			if c, ok := in.(*ssa.Call); ok {
				if f := inlinable(c, n); f != nil {
					calls := append(append([]*ssa.Call{}, n.calls...), c)
					push(&searchNode{b: f.Blocks[0], stack: fmt.Sprintf("%s>%p", n.stack, c), calls: calls, prev: n, binds: n.binds, bkey: n.bkey})
					transferred = true
					break
				}
			}
			if _, ok := in.(*ssa.Return); ok {
				if len(n.calls) > 0 {
					c := n.calls[len(n.calls)-1]
					rest := n.calls[:len(n.calls)-1]
					st := ""
					for _, k := range rest {
						st = fmt.Sprintf("%s>%p", st, k)
					}
					nb, nk := bindReturn(n.binds, c, in.(*ssa.Return))
					push(&searchNode{b: c.Block(), idx: instrIndex(c) + 1, stack: st, calls: rest, prev: n, binds: nb, bkey: nk})
					transferred = true
				} else if b.Parent() != s.Fn {
					// started inside a helper: return to every same-package caller
					for _, c := range staticCallers[b.Parent()] {
						if pkgOfFunc(c.Parent()) == rootPkg {
							nb, nk := bindReturn(n.binds, c, in.(*ssa.Return))
							push(&searchNode{b: c.Block(), idx: instrIndex(c) + 1, prev: n, binds: nb, bkey: nk})
						}
					}
					transferred = true
				}
				break
			}
		}
		if blocked || transferred {
			continue
		}
		only := -1
		if ifi, ok := lastInstr(b).(*ssa.If); ok && len(n.binds) > 0 {
			cond, neg := stripNot(ifi.Cond)
			if v, known := boundCond(cond, n.binds); known {
				if v != neg {
					only = 0
				} else {
					only = 1
				}
			}
		}
		for i, succ := range b.Succs {
			if s.AvoidEdges[Edge{b, i}] || (only >= 0 && i != only) {
				continue
			}
			// a binding lives until the first branch after the helper returned
			// (the `if !ok` / `if err != nil` right behind the call): enough for
			// the idiom, and it keeps the search space linear
			if len(b.Succs) > 1 {
				push(&searchNode{b: succ, stack: n.stack, calls: n.calls, prev: n})
			} else {
				push(&searchNode{b: succ, stack: n.stack, calls: n.calls, prev: n, binds: n.binds, bkey: n.bkey})
			}
		}
	}
	return false, nil
}

func pathString(e *Engine, p []*ssa.BasicBlock) string {
	var parts []string
	for _, b := range p {
		line := "-"
		for _, in := range b.Instrs {
			if in.Pos().IsValid() {
				line = fmt.Sprint(e.Fset.Position(in.Pos()).Line)
				break
			}
		}
		parts = append(parts, fmt.Sprintf("b%d@%s", b.Index, line))
	}
	return strings.Join(parts, " > ")
}

func isInstr(target ssa.Instruction) func(ssa.Instruction) bool {
	return func(in ssa.Instruction) bool { return in == target }
}

func anyOf(set map[ssa.Instruction]bool) func(ssa.Instruction) bool {
	return func(in ssa.Instruction) bool { return set[in] }
}

func instrSet[T ssa.Instruction](l []T) map[ssa.Instruction]bool {
	m := map[ssa.Instruction]bool{}
	for _, x := range l {
		m[x] = true
	}
	return m
}

func isReturn(in ssa.Instruction) bool {
	_, ok := in.(*ssa.Return)
	return ok
}

// guarded reports whether every path from the entry of fn to site passes one of
// the evidence edges (or one of the evidence instructions).
func guarded(fn *ssa.Function, site ssa.Instruction, edges edgeSet, through map[ssa.Instruction]bool) (bool, []*ssa.BasicBlock) {
	all := expandFlagEdges(fn, edges, through)
	ok, path := Search{Fn: fn, Target: isInstr(site), Avoid: anyOf(through), AvoidEdges: all}.Run()
	return !ok, path
}

// expandFlagEdges adds, to a set of evidence edges, the branches on boolean
// flags that are phi-chains over constants whose enabling constant can only be
// assigned after passing the evidence (the repository's `cmpKey` idiom).
func expandFlagEdges(fn *ssa.Function, edges edgeSet, through map[ssa.Instruction]bool) edgeSet {
	out := edgeSet{}
	for e := range edges {
		out[e] = true
	}
	for changed := true; changed; {
		changed = false
		for _, b := range fn.Blocks {
			ifi, ok := lastInstr(b).(*ssa.If)
			if !ok {
				continue
			}
			cond, neg := stripNot(ifi.Cond)
			phi, ok := cond.(*ssa.Phi)
			if !ok {
				continue
			}
			for _, want := range []bool{true, false} {
				idx := 0 // successor taken when cond == want (after NOT)
				if want == neg {
					idx = 1
				}
				if want == false && idx == 0 || want == true && idx == 1 {
					// idx computed above; keep as is
				}
				e := Edge{b, idx}
				if out[e] {
					continue
				}
				entries, ok := phiConstEntries(phi, want, map[*ssa.Phi]bool{})
				if !ok || len(entries) == 0 {
					continue
				}
				allGuarded := true
				for _, pe := range entries {
					// The entry edge pe.From -> phi block must be reachable
					// only through evidence.
					term := lastInstr(pe.From)
					reach, _ := Search{Fn: fn, Target: isInstr(term), Avoid: anyOf(through), AvoidEdges: out}.Run()
					if reach {
						allGuarded = false
						break
					}
				}
				if allGuarded {
					out[e] = true
					changed = true
				}
			}
		}
	}
	return out
}

// phiConstEntries lists the CFG edges on which the boolean constant `want`
// enters a chain of phi nodes; ok is false when some operand is neither a
// constant nor a phi.
func phiConstEntries(phi *ssa.Phi, want bool, seen map[*ssa.Phi]bool) ([]Edge, bool) {
	if seen[phi] {
		return nil, true
	}
	seen[phi] = true
	var out []Edge
	for i, v := range phi.Edges {
		pred := phi.Block().Preds[i]
		switch x := v.(type) {
		case *ssa.Const:
			if x.Value == nil || x.Value.Kind() != constant.Bool {
				return nil, false
			}
			if constant.BoolVal(x.Value) == want {
				out = append(out, Edge{pred, succIndex(pred, phi.Block())})
			}
		case *ssa.Phi:
			sub, ok := phiConstEntries(x, want, seen)
			if !ok {
				return nil, false
			}
			// The constant entered the inner phi; passing through is implied.
			out = append(out, sub...)
		default:
			return nil, false
		}
	}
	return out, true
}

func succIndex(from, to *ssa.BasicBlock) int {
	for i, s := range from.Succs {
		if s == to {
			return i
		}
	}
	return 0
}

func lastInstr(b *ssa.BasicBlock) ssa.Instruction {
	if len(b.Instrs) == 0 {
		return nil
	}
	return b.Instrs[len(b.Instrs)-1]
}

func stripNot(v ssa.Value) (ssa.Value, bool) {
	neg := false
	for {
		u, ok := v.(*ssa.UnOp)
		if !ok || u.Op != token.NOT {
			return v, neg
		}
		neg = !neg
		v = u.X
	}
}

// ---------------------------------------------------------------------------
// conditions and evidence edges

func isNilConst(v ssa.Value) bool {
	c, ok := v.(*ssa.Const)
	return ok && c.IsNil()
}

func isZeroConst(v ssa.Value) bool {
	c, ok := v.(*ssa.Const)
	if !ok || c.Value == nil {
		return false
	}
	if c.Value.Kind() == constant.Int {
		i, ok := constant.Int64Val(c.Value)
		return ok && i == 0
	}
	return false
}

func intConst(v ssa.Value) (int64, bool) {
	c, ok := v.(*ssa.Const)
	if !ok || c.Value == nil || c.Value.Kind() != constant.Int {
		return 0, false
	}
	return constant.Int64Val(c.Value)
}

// condEdges returns, for every If in fn, the edges selected by classify: it is
// called with the condition stripped of negations and returns whether the
// condition being TRUE (onTrue) or FALSE (onFalse) is evidence.
func condEdges(fn *ssa.Function, classify func(cond ssa.Value) (onTrue, onFalse bool)) []Edge {
	var out []Edge
	if fn == nil {
		return nil
	}
	for _, b := range fn.Blocks {
		ifi, ok := lastInstr(b).(*ssa.If)
		if !ok {
			continue
		}
		cond, neg := stripNot(ifi.Cond)
		t, f := classify(cond)
		if neg {
			t, f = f, t
		}
		if t {
			out = append(out, Edge{b, 0})
		}
		if f {
			out = append(out, Edge{b, 1})
		}
	}
	return out
}

// sameValue reports whether a and b denote the same runtime value, looking
// through value-preserving conversions and loads of the same captured cell.
func sameValue(a, b ssa.Value) bool {
	a, b = stripConv(a), stripConv(b)
	if a == b {
		return true
	}
	return false
}

func stripConv(v ssa.Value) ssa.Value {
	for {
		switch x := v.(type) {
		case *ssa.ChangeType:
			v = x.X
		case *ssa.ChangeInterface:
			v = x.X
		case *ssa.MakeInterface:
			v = x.X
		default:
			return v
		}
	}
}

// errValues returns the SSA values that hold the error result of a call: the
// Extract of the last tuple component (or the call itself), closed under
// stores to and loads from a captured/escaping variable cell within the same
// block sequence, and phis all of whose other operands are nil constants.
func errValues(call *ssa.Call) map[ssa.Value]bool {
	out := map[ssa.Value]bool{}
	if call == nil {
		return out
	}
	sig := call.Call.Signature()
	res := sig.Results()
	if res.Len() == 0 {
		return out
	}
	last := res.At(res.Len() - 1).Type()
	if !isErrorType(last) {
		return out
	}
	var seeds []ssa.Value
	if res.Len() == 1 {
		seeds = append(seeds, call)
	} else {
		for _, r := range *call.Referrers() {
			if ex, ok := r.(*ssa.Extract); ok && ex.Index == res.Len()-1 {
				seeds = append(seeds, ex)
			}
		}
	}
	for _, s := range seeds {
		out[s] = true
		closeOverCells(s, out)
	}
	// a shared `err` variable assigned on several branches becomes a phi; on a
	// path that passed this call the phi IS this call's error
	for changed := true; changed; {
		changed = false
		for v := range out {
			refs := v.Referrers()
			if refs == nil {
				continue
			}
			for _, r := range *refs {
				if phi, ok := r.(*ssa.Phi); ok && !out[phi] && isErrorType(phi.Type()) {
					out[phi] = true
					changed = true
				}
			}
		}
	}
	return out
}

// closeOverCells adds loads of a cell (Alloc or FreeVar) that directly follow
// a store of v into that cell (no intervening store to the cell on any path is
// approximated by: the load is dominated by the store and no other store to
// the cell lies in a block strictly between them in dominance order).
func closeOverCells(v ssa.Value, out map[ssa.Value]bool) {
	refs := v.Referrers()
	if refs == nil {
		return
	}
	for _, r := range *refs {
		st, ok := r.(*ssa.Store)
		if !ok || st.Val != v {
			continue
		}
		cell := st.Addr
		crefs := cell.Referrers()
		if crefs == nil {
			continue
		}
		var otherStores []*ssa.Store
		for _, cr := range *crefs {
			if s2, ok := cr.(*ssa.Store); ok && s2 != st && s2.Addr == cell {
				otherStores = append(otherStores, s2)
			}
		}
		for _, cr := range *crefs {
			ld, ok := cr.(*ssa.UnOp)
			if !ok || ld.Op != token.MUL || ld.X != cell {
				continue
			}
			if !instrDominates(st, ld) {
				continue
			}
			// no other store may lie on a path from st to ld
			clean := true
			for _, s2 := range otherStores {
				r1, _ := Search{Fn: st.Parent(), From: st, Target: isInstr(s2), Avoid: isInstr(ld)}.Run()
				if !r1 {
					continue
				}
				r2, _ := Search{Fn: st.Parent(), From: s2, Target: isInstr(ld), Avoid: isInstr(st)}.Run()
				if r2 {
					clean = false
					break
				}
			}
			if clean {
				out[ld] = true
			}
		}
	}
}

func instrDominates(a, b ssa.Instruction) bool {
	if a.Block() == b.Block() {
		return instrIndex(a) < instrIndex(b)
	}
	return a.Block().Dominates(b.Block())
}

func isErrorType(t types.Type) bool {
	n, ok := t.(*types.Named)
	return ok && n.Obj().Pkg() == nil && n.Obj().Name() == "error"
}

// successEdges returns the CFG edges on which the error result of call is
// known to be nil; failureEdges the ones where it is known non-nil.
func successEdges(call *ssa.Call) []Edge { return errEdges(call, true) }
func failureEdges(call *ssa.Call) []Edge { return errEdges(call, false) }

func errEdges(call *ssa.Call, success bool) []Edge {
	evs := errValues(call)
	if len(evs) == 0 {
		return nil
	}
	return condEdges(call.Parent(), func(cond ssa.Value) (bool, bool) {
		// os.IsNotExist(err), errors.Is(err, X) ...: true only for a non-nil error
		if pc, ok := cond.(*ssa.Call); ok && !success {
			switch cname(pc) {
			case "os.IsNotExist", "os.IsExist", "os.IsPermission", "os.IsTimeout", "errors.Is", "errors.As":
				if len(pc.Call.Args) > 0 && evs[pc.Call.Args[0]] {
					return true, false
				}
			}
			return false, false
		}
		b, ok := cond.(*ssa.BinOp)
		if !ok {
			return false, false
		}
		var other ssa.Value
		if evs[b.X] {
			other = b.Y
		} else if evs[b.Y] {
			other = b.X
		} else {
			return false, false
		}
		if !isNilConst(other) {
			return false, false
		}
		switch b.Op {
		case token.EQL: // err == nil
			return success, !success
		case token.NEQ: // err != nil
			return !success, success
		}
		return false, false
	})
}

// boolEdges returns the edges on which the boolean value v (e.g. the result of
// bytes.Equal) is known to be `want`.
func boolEdges(fn *ssa.Function, v ssa.Value, want bool) []Edge {
	return condEdges(fn, func(cond ssa.Value) (bool, bool) {
		if cond == v {
			return want, !want
		}
		// a local flag that merges v with the constant !want (result variable of an inlined helper,
		// `ok := false; if … { ok = f() }`): the flag being `want` implies v was `want`
		if phi, ok := cond.(*ssa.Phi); ok {
			sawV := false
			okAll := true
			seen := map[*ssa.Phi]bool{}
			var flat func(p *ssa.Phi)
			flat = func(p *ssa.Phi) {
				if seen[p] {
					return
				}
				seen[p] = true
				for _, ed := range p.Edges {
					switch x := ed.(type) {
					case *ssa.Phi:
						flat(x)
					default:
						if ed == v {
							sawV = true
						} else if b, isC := boolConst(ed); !isC || b == want {
							okAll = false
						}
					}
				}
			}
			flat(phi)
			if sawV && okAll {
				return want, !want
			}
		}
		return false, false
	})
}

// nilEdges returns edges where v is known non-nil (nonNil=true) or nil.
func nilEdges(fn *ssa.Function, isV func(ssa.Value) bool, nonNil bool) []Edge {
	return condEdges(fn, func(cond ssa.Value) (bool, bool) {
		b, ok := cond.(*ssa.BinOp)
		if !ok {
			return false, false
		}
		var other ssa.Value
		if isV(b.X) {
			other = b.Y
		} else if isV(b.Y) {
			other = b.X
		} else {
			return false, false
		}
		if !isNilConst(other) {
			return false, false
		}
		switch b.Op {
		case token.NEQ:
			return nonNil, !nonNil
		case token.EQL:
			return !nonNil, nonNil
		}
		return false, false
	})
}

// extractOf returns the Extract #i instructions of a tuple-valued call.
func extractOf(call ssa.Value, i int) []ssa.Value {
	var out []ssa.Value
	refs := call.Referrers()
	if refs == nil {
		return nil
	}
	for _, r := range *refs {
		if ex, ok := r.(*ssa.Extract); ok && ex.Index == i {
			out = append(out, ex)
		}
	}
	return out
}

// resultValues returns the SSA values for result #i of the call (the call
// itself for single-result functions).
func resultValues(call *ssa.Call, i int) []ssa.Value {
	if call.Call.Signature().Results().Len() == 1 {
		if i == 0 {
			return []ssa.Value{call}
		}
		return nil
	}
	return extractOf(call, i)
}

// ---------------------------------------------------------------------------
// provenance (backward value-flow closure)

type flowOpts struct {
	// ThroughCalls: follow into the arguments of calls whose cname is listed
	// (the call result "derives from" those arguments).
	ThroughCalls map[string]bool
	// ThroughAllCalls follows the arguments of every call.
	ThroughAllCalls bool
	// Arith follows BinOp operands.
	Arith bool
	// Returns follows a call result into the corresponding return operands of
	// a statically known callee that has a body.
	Returns bool
}

// derives reports whether some value satisfying pred is in the backward
// value-flow closure of v.
func derives(v ssa.Value, opts flowOpts, pred func(ssa.Value) bool) bool {
	seen := map[ssa.Value]bool{}
	var walk func(ssa.Value) bool
	walk = func(x ssa.Value) bool {
		if x == nil || seen[x] {
			return false
		}
		seen[x] = true
		if pred(x) {
			return true
		}
		switch t := x.(type) {
		case *ssa.Extract:
			if opts.Returns {
				if c, ok := t.Tuple.(*ssa.Call); ok {
					if f := c.Call.StaticCallee(); f != nil && f.Blocks != nil {
						for _, r := range returnsOf(f) {
							if t.Index < len(r.Results) && walk(r.Results[t.Index]) {
								return true
							}
						}
					}
				}
			}
			return walk(t.Tuple)
		case *ssa.Phi:
			for _, e := range t.Edges {
				if walk(e) {
					return true
				}
			}
		case *ssa.Slice:
			return walk(t.X)
		case *ssa.Convert:
			return walk(t.X)
		case *ssa.ChangeType:
			return walk(t.X)
		case *ssa.ChangeInterface:
			return walk(t.X)
		case *ssa.MakeInterface:
			return walk(t.X)
		case *ssa.TypeAssert:
			return walk(t.X)
		case *ssa.Field:
			return walk(t.X)
		case *ssa.FieldAddr:
			return walk(t.X)
		case *ssa.IndexAddr:
			return walk(t.X)
		case *ssa.Index:
			return walk(t.X)
		case *ssa.Lookup:
			return walk(t.X)
		case *ssa.UnOp:
			if t.Op == token.MUL {
				// load: follow the address, and stores into a local cell
				if walk(t.X) {
					return true
				}
				if refs := t.X.Referrers(); refs != nil {
					for _, r := range *refs {
						if st, ok := r.(*ssa.Store); ok && st.Addr == t.X {
							if walk(st.Val) {
								return true
							}
						}
					}
				}
				return false
			}
			return walk(t.X)
		case *ssa.BinOp:
			if opts.Arith {
				return walk(t.X) || walk(t.Y)
			}
		case *ssa.FreeVar:
			// captured variable: continue at the binding in the enclosing function
			fn := t.Parent()
			if fn.Parent() != nil {
				idx := -1
				for i, fv := range fn.FreeVars {
					if fv == t {
						idx = i
					}
				}
				found := false
				eachInstr(fn.Parent(), func(in ssa.Instruction) {
					if mc, ok := in.(*ssa.MakeClosure); ok && mc.Fn == ssa.Value(fn) && idx >= 0 && idx < len(mc.Bindings) {
						if walk(mc.Bindings[idx]) {
							found = true
						}
					}
				})
				return found
			}
		case *ssa.Alloc:
			// a variable cell: everything stored into it, its fields or its elements
			if refs := t.Referrers(); refs != nil {
				for _, r := range *refs {
					switch x := r.(type) {
					case *ssa.Store:
						if x.Addr == ssa.Value(t) && walk(x.Val) {
							return true
						}
					case *ssa.FieldAddr, *ssa.IndexAddr:
						if srefs := x.(ssa.Value).Referrers(); srefs != nil {
							for _, sr := range *srefs {
								if st, ok := sr.(*ssa.Store); ok && st.Addr == x.(ssa.Value) && walk(st.Val) {
									return true
								}
							}
						}
					}
				}
			}
		case *ssa.Call:
			if opts.Returns && t.Call.Signature().Results().Len() == 1 {
				if f := t.Call.StaticCallee(); f != nil && f.Blocks != nil {
					for _, r := range returnsOf(f) {
						if len(r.Results) == 1 && walk(r.Results[0]) {
							return true
						}
					}
				}
			}
			if opts.ThroughAllCalls || opts.ThroughCalls[cname(t)] {
				for _, a := range t.Call.Args {
					if walk(a) {
						return true
					}
				}
				if t.Call.IsInvoke() {
					return walk(t.Call.Value)
				}
			}
		}
		return false
	}
	return walk(v)
}

// isCallTo returns a predicate on values: "is (an Extract of) a call to one of names".
func isCallTo(names ...string) func(ssa.Value) bool {
	return func(v ssa.Value) bool {
		c, ok := v.(*ssa.Call)
		if !ok {
			return false
		}
		n := cname(c)
		for _, w := range names {
			if n == w {
				return true
			}
		}
		return false
	}
}

func isParam(fn *ssa.Function, idx int) func(ssa.Value) bool {
	return func(v ssa.Value) bool {
		p, ok := v.(*ssa.Parameter)
		return ok && p.Parent() == fn && idx < len(fn.Params) && fn.Params[idx] == p
	}
}

// isFieldLoad matches loads of the named struct field "T.f".
func isFieldLoad(name string) func(ssa.Value) bool {
	return func(v ssa.Value) bool { return fieldOfLoad(v) == name }
}

// fieldStores returns the Store instructions in fn that write struct field "T.f".
func fieldStores(fn *ssa.Function, name string) []*ssa.Store {
	var out []*ssa.Store
	eachInstrScope(fn, func(in ssa.Instruction) {
		st, ok := in.(*ssa.Store)
		if !ok {
			return
		}
		fa, ok := st.Addr.(*ssa.FieldAddr)
		if !ok {
			return
		}
		if fieldName(fa.X.Type(), fa.Field) == name {
			out = append(out, st)
		}
	})
	return out
}

// fieldLoads returns the load instructions in fn that read struct field "T.f".
func fieldLoads(fn *ssa.Function, name string) []*ssa.UnOp {
	var out []*ssa.UnOp
	eachInstrScope(fn, func(in ssa.Instruction) {
		u, ok := in.(*ssa.UnOp)
		if !ok || u.Op != token.MUL {
			return
		}
		if fieldOfLoad(u) == name {
			out = append(out, u)
		}
	})
	return out
}

// deferredAtExit lists, for a function, deferred call instructions; a Defer is
// considered to run at a RunDefers/Return it dominates.
func defers(fn *ssa.Function) []*ssa.Defer {
	var out []*ssa.Defer
	eachInstr(fn, func(in ssa.Instruction) {
		if d, ok := in.(*ssa.Defer); ok {
			out = append(out, d)
		}
	})
	return out
}

// returnsOf lists the Return instructions of fn.
func returnsOf(fn *ssa.Function) []*ssa.Return {
	var out []*ssa.Return
	eachInstr(fn, func(in ssa.Instruction) {
		if r, ok := in.(*ssa.Return); ok {
			if fn.Recover != nil && r.Block() == fn.Recover {
				return // only reached when a deferred call recovers a panic
			}
			out = append(out, r)
		}
	})
	sort.Slice(out, func(i, j int) bool { return out[i].Pos() < out[j].Pos() })
	return out
}

// retVal returns operand i of a return, looking through the spill of named
// results that go/ssa introduces in functions with defers (the operand is
// then a load of a local cell stored earlier in the same block).
func retVal(ret *ssa.Return, i int) ssa.Value {
	v := ret.Results[i]
	ld, ok := v.(*ssa.UnOp)
	if !ok || ld.Op != token.MUL {
		return v
	}
	cell, ok := ld.X.(*ssa.Alloc)
	if !ok {
		return v
	}
	b := ret.Block()
	var last ssa.Value
	for _, in := range b.Instrs {
		if in == ssa.Instruction(ld) {
			break
		}
		if st, ok := in.(*ssa.Store); ok && st.Addr == ssa.Value(cell) {
			last = st.Val
		}
	}
	if last != nil {
		return last
	}
	return v
}

// errResultIndex returns the index of the error result of fn, or -1.
func errResultIndex(fn *ssa.Function) int {
	res := fn.Signature.Results()
	for i := res.Len() - 1; i >= 0; i-- {
		if isErrorType(res.At(i).Type()) {
			return i
		}
	}
	return -1
}

// successReturns lists the returns of fn whose error result may be nil (a
// literal nil constant, or a non-constant value not known non-nil); returns
// whose error operand is provably non-nil are failure returns.
func classifyReturns(fn *ssa.Function) (success, failure []*ssa.Return) {
	ei := errResultIndex(fn)
	for _, r := range returnsOf(fn) {
		if ei < 0 {
			success = append(success, r)
			continue
		}
		v := retVal(r, ei)
		if isNilConst(v) {
			success = append(success, r)
			continue
		}
		if knownNonNilAt(v, r) {
			failure = append(failure, r)
			continue
		}
		// unknown: treat as possibly success
		success = append(success, r)
	}
	return
}

// knownNonNilAt: v is definitely non-nil at instruction at — it is a freshly
// made error (call to fmt.Errorf / errors.New / MakeInterface of a concrete
// value), or `at` is only reachable through a v != nil edge.
func knownNonNilAt(v ssa.Value, at ssa.Instruction) bool {
	switch x := v.(type) {
	case *ssa.MakeInterface:
		return true
	case *ssa.Call:
		switch cname(x) {
		case "fmt.Errorf", "errors.New":
			return true
		case "(context.Context).Err":
			// by convention guarded by ctx.Err() != nil; treat as failure
			return true
		}
	case *ssa.Const:
		return !x.IsNil()
	case *ssa.Phi:
		all := true
		for _, e := range x.Edges {
			if !knownNonNilAt(e, at) {
				all = false
				break
			}
		}
		if all {
			return true
		}
	}
	fn := at.Parent()
	edges := nilEdges(fn, func(y ssa.Value) bool { return y == v }, true)
	if len(edges) == 0 {
		return false
	}
	ok, _ := guarded(fn, at, mkEdgeSet(edges), nil)
	return ok
}

// instrPos gives a usable source position for instructions that carry none
// (If, Jump, Store of spilled values): the nearest earlier position in the block.
func instrPos(in ssa.Instruction) token.Pos {
	if in.Pos().IsValid() {
		return in.Pos()
	}
	if ifi, ok := in.(*ssa.If); ok {
		if v, ok := ifi.Cond.(ssa.Instruction); ok && v.Pos().IsValid() {
			return v.Pos()
		}
	}
	b := in.Block()
	idx := instrIndex(in)
	for i := idx; i >= 0; i-- {
		if b.Instrs[i].Pos().IsValid() {
			return b.Instrs[i].Pos()
		}
	}
	for _, x := range b.Instrs {
		if x.Pos().IsValid() {
			return x.Pos()
		}
	}
	return in.Parent().Pos()
}
