package main

import (
	"strings"
	"fmt"
	"go/token"

	"golang.org/x/tools/go/ssa"
)

// C12: shape of the back-pressure protocol (Store.flushTick / Store.Flush / Store.run).

const rateLk = "store.Store.rateLk"

// broadcastTests returns the Ifs of fn that test `Store.flushNotice != nil`
// and whose non-nil edge always closes that channel.
func broadcastTests(fn *ssa.Function) []*ssa.If {
	var out []*ssa.If
	for _, b := range fn.Blocks {
		ifi, ok := lastInstr(b).(*ssa.If)
		if !ok {
			continue
		}
		cond, neg := stripNot(ifi.Cond)
		bo, ok := cond.(*ssa.BinOp)
		if !ok || (bo.Op != token.NEQ && bo.Op != token.EQL) {
			continue
		}
		var ch ssa.Value
		if fieldOfLoad(bo.X) == "Store.flushNotice" && isNilConst(bo.Y) {
			ch = bo.X
		} else if fieldOfLoad(bo.Y) == "Store.flushNotice" && isNilConst(bo.X) {
			ch = bo.Y
		}
		if ch == nil {
			continue
		}
		nonNilIdx := 0
		if bo.Op == token.EQL {
			nonNilIdx = 1
		}
		if neg {
			nonNilIdx = 1 - nonNilIdx
		}
		ed := Edge{b, nonNilIdx}
		closes := func(in ssa.Instruction) bool {
			ci, ok := in.(ssa.CallInstruction)
			if !ok || cname(ci) != "builtin.close" {
				return false
			}
			return fieldOfLoad(ci.Common().Args[0]) == "Store.flushNotice"
		}
		if ok, _ := followedBy(fn, nil, &ed, closes, nil); ok {
			out = append(out, ifi)
		}
	}
	return out
}

// alwaysBroadcasts: every path through h passes a broadcast test.
func alwaysBroadcasts(h *ssa.Function, depth int) bool {
	if h == nil || h.Blocks == nil || depth > 2 {
		return false
	}
	pts := broadcastPoints(h, depth)
	if len(pts) == 0 {
		return false
	}
	for _, ret := range returnsOf(h) {
		if ok, _ := precededBy(h, ret, pts, nil); !ok {
			return false
		}
	}
	return true
}

func broadcastPoints(fn *ssa.Function, depth int) map[ssa.Instruction]bool {
	pts := map[ssa.Instruction]bool{}
	for _, t := range broadcastTests(fn) {
		pts[t] = true
	}
	for _, c := range allCalls(fn) {
		if _, isGo := c.(*ssa.Go); isGo {
			continue
		}
		h := c.Common().StaticCallee()
		if h != nil && h != fn && h.Pkg == fn.Pkg && alwaysBroadcasts(h, depth+1) {
			pts[c] = true
		}
	}
	return pts
}

// pointLocked: the broadcast point runs with rateLk held exclusively — held at
// the point itself, or (for a call to an always-broadcasting helper) taken by
// the helper around its own test-and-close.
func pointLocked(fn *ssa.Function, p ssa.Instruction) bool {
	held := deepLockAt(fn, p)
	if held[rateLk] == modeW {
		return true
	}
	c, ok := p.(*ssa.Call)
	if !ok {
		return false
	}
	h := c.Call.StaticCallee()
	if h == nil || h.Blocks == nil {
		return false
	}
	hfi := lockFlow(h, held)
	tests := broadcastTests(h)
	if len(tests) == 0 {
		// the helper delegates further
		for pp := range broadcastPoints(h, 1) {
			if !pointLocked(h, pp) {
				return false
			}
		}
		return true
	}
	for _, t := range tests {
		if hfi.at[t][rateLk] != modeW {
			return false
		}
	}
	return true
}

func ruleNotify(r *Report) {
	const rule = "notify"
	fn := r.need(rule, "S", "(*Store).Flush")
	if fn == nil {
		return
	}
	pts := broadcastPoints(fn, 0)
	if len(pts) == 0 {
		r.Bad(rule, "(*Store).Flush/broadcast-point", fn.Pos(), "Store.Flush contains no point that closes Store.flushNotice when it is non-nil: rate-limited writers are never released")
		return
	}
	for p := range pts {
		r.Check(pointLocked(fn, p), rule, "(*Store).Flush/broadcast-under-rateLk", instrPos(p), "the notification channel is tested and closed with rateLk held exclusively", "the notification channel is tested/closed without holding rateLk exclusively: a writer registering concurrently can be missed or the channel closed twice")
	}
	success, _ := classifyReturns(fn)
	n := 0
	for _, ret := range success {
		n++
		ok, path := precededBy(fn, ret, pts, nil)
		if ok {
			r.Ok(rule, "(*Store).Flush/success-return-broadcasts", ret.Pos(), "this successful return is only reachable through the broadcast point")
		} else {
			r.BadPath(rule, "(*Store).Flush/success-return-broadcasts", ret.Pos(), "Flush can return success without waking the writers waiting on flushNotice: a writer that registered after the previous flush drained all work waits on a channel that no later flush closes (every later flush takes this same exit) — a single writer with no other traffic blocks forever", path)
		}
	}
	if n == 0 {
		r.Undecided(rule, "Store.Flush has no success return")
	}
	r.Min(rule, 2) // at least one broadcast point under the lock and one successful return
}

func ruleNotifyReset(r *Report) {
	const rule = "notify-reset"
	n := 0
	for _, fn := range moduleFuncs(r.E) {
		for _, c := range callSites(fn, "builtin.close") {
			if fieldOfLoad(c.Common().Args[0]) != "Store.flushNotice" {
				continue
			}
			n++
			r.fn(fn)
			isReset := func(in ssa.Instruction) bool {
				st, ok := in.(*ssa.Store)
				if !ok {
					return false
				}
				fa, ok := st.Addr.(*ssa.FieldAddr)
				return ok && fieldName(fa.X.Type(), fa.Field) == "Store.flushNotice" && isNilConst(st.Val)
			}
			// reset follows, with no unlock of rateLk in between
			unlock := func(in ssa.Instruction) bool {
				ci, ok := in.(ssa.CallInstruction)
				if !ok {
					return false
				}
				if _, isDefer := in.(*ssa.Defer); isDefer {
					return false
				}
				op, id, ok := lockOp(ci)
				return ok && (op == "Unlock" || op == "RUnlock") && id == rateLk
			}
			stop := func(in ssa.Instruction) bool { return isReturn(in) || unlock(in) }
			reach, path := Search{Fn: fn, From: c, Target: stop, Avoid: isReset}.Run()
			if reach {
				r.BadPath(rule, shortFunc(fn)+"/close-then-nil", c.Pos(), "after close(flushNotice) the field is not set to nil before the lock is released/the function returns: the next flush would close the closed channel (panic) and later waiters would not get a fresh channel", path)
			} else {
				r.Ok(rule, shortFunc(fn)+"/close-then-nil", c.Pos(), "close(flushNotice) is followed by flushNotice = nil before rateLk is released")
			}
		}
	}
	if n == 0 {
		r.Bad(rule, "close-site", token.NoPos, "no close(Store.flushNotice) found anywhere")
	}
	r.Min(rule, 1)
}

func ruleWaitProtocol(r *Report) {
	const rule = "wait-protocol"
	fn := r.need(rule, "S", "(*Store).flushTick")
	if fn == nil {
		return
	}
	// the receive that waits for the flush (in flushTick or a helper of it)
	type wait struct {
		recv  *ssa.UnOp
		loads []*ssa.UnOp
	}
	var waits []wait
	deepEach(fn, func(f *ssa.Function, in ssa.Instruction) {
		u, ok := in.(*ssa.UnOp)
		if !ok || u.Op != token.ARROW {
			return
		}
		if lds := fieldValueLoads(u.X, "Store.flushNotice"); len(lds) > 0 {
			waits = append(waits, wait{u, lds})
		} else if derives(u.X, flowOpts{Returns: true}, isFieldLoad("Store.flushNotice")) {
			waits = append(waits, wait{u, nil})
		}
	})
	if len(waits) == 0 {
		r.Bad(rule, "flushTick/wait", fn.Pos(), "flushTick never waits on Store.flushNotice: back-pressure is gone (not a lost wake-up, but the protocol this rule checks is absent)")
		return
	}
	// non-blocking signal
	var signals []ssa.Instruction
	deepEach(fn, func(f *ssa.Function, in ssa.Instruction) {
		switch x := in.(type) {
		case *ssa.Select:
			for _, st := range x.States {
				if st.Dir == 1 /* types.SendOnly */ && fieldOfLoad(st.Chan) == "Store.flushNow" {
					signals = append(signals, x)
					r.Check(!x.Blocking, rule, "flushTick/signal-nonblocking", instrPos(x), "the flushNow signal is a non-blocking select", "the flushNow signal blocks: with the 1-slot channel full and the flusher busy the writer would block before waiting")
				}
			}
		case *ssa.Send:
			if fieldOfLoad(x.Chan) == "Store.flushNow" {
				signals = append(signals, x)
				r.Bad(rule, "flushTick/signal-nonblocking", instrPos(x), "flushTick sends on flushNow with a blocking send")
			}
		}
	})
	if len(signals) == 0 {
		r.Bad(rule, "flushTick/signal", fn.Pos(), "flushTick does not signal flushNow before waiting: nothing guarantees a flush will happen for the waiter")
	}
	for _, wt := range waits {
		w := wt.recv
		underLock := len(wt.loads) > 0
		for _, ld := range wt.loads {
			if deepLockAt(fn, ld)[rateLk] != modeW {
				underLock = false
			}
		}
		r.Check(underLock, rule, "flushTick/wait-on-registered-channel", instrPos(w), "the channel waited on is the value loaded under rateLk in the registration section (not a re-read of the field)",
			"the channel waited on was not loaded under rateLk in the registration section: re-reading the field after unlocking can see nil (blocks forever) or a newer channel than the one a concurrent flush closed")
		_, holds := deepLockAt(fn, w)[rateLk]
		r.Check(!holds, rule, "flushTick/wait-without-lock", instrPos(w), "rateLk is not held while waiting", "flushTick waits while holding rateLk: Flush needs rateLk to close the channel — deadlock")
		// create-if-nil happens in the same section
		for _, st := range deepFieldStores(fn, "Store.flushNotice") {
			r.Check(deepLockAt(fn, st)[rateLk] == modeW, rule, "flushTick/create-under-rateLk", instrPos(st), "the channel is created under rateLk", "the notification channel is created without rateLk held exclusively")
			for _, ld := range wt.loads {
				if ld.Parent() != st.Parent() {
					continue
				}
				f := st.Parent()
				hit := false
				for _, c := range allCalls(f) {
					if _, isDefer := c.(*ssa.Defer); isDefer {
						continue
					}
					if op, id, ok := lockOp(c); ok && op == "Unlock" && id == rateLk {
						a, _ := Search{Fn: f, From: st, Target: isInstr(c), Avoid: isInstr(ld)}.Run()
						b, _ := Search{Fn: f, From: c, Target: isInstr(ld)}.Run()
						if a && b {
							hit = true
						}
					}
				}
				r.Check(!hit, rule, "flushTick/create-and-load-one-section", instrPos(st), "create-if-nil and the load happen in one rateLk section", "rateLk is released between creating the channel and loading it: a flush in between closes and clears it, the writer then waits on nil forever")
			}
		}
		// order: measure before register — the channel the writer waits on is obtained only once the
		// work that makes it wait has been measured; a channel taken earlier can already have been
		// closed by a flush that completed before the wait began (a stale release: the writer is let
		// go although no flush has covered the data that made it wait)
		var measures []ssa.Instruction
		deepEach(fn, func(f *ssa.Function, in ssa.Instruction) {
			if c, ok := in.(ssa.CallInstruction); ok && strings.HasSuffix(cname(c), ".OutstandingWork") {
				measures = append(measures, in)
			}
		})
		for _, ld := range wt.loads {
			if ld.Parent() != fn || len(measures) == 0 {
				continue
			}
			allBefore := true
			var path []*ssa.BasicBlock
			for _, m := range measures {
				if m.Parent() != fn {
					continue
				}
				if ok, p := precededBy(fn, ld, map[ssa.Instruction]bool{m: true}, nil); !ok {
					allBefore, path = false, p
				}
			}
			if allBefore {
				r.Ok(rule, "flushTick/measure-before-register", instrPos(ld), "the writer registers for the notice only after measuring the outstanding work")
			} else {
				r.BadPath(rule, "flushTick/measure-before-register", instrPos(ld), "the writer takes the notification channel before it has measured the outstanding work: a flush that completes in between closes that channel, and the writer that then decides to wait is released at once by a flush that completed before its wait began — the back-pressure it was subjected to is void", path)
			}
		}
		// order: register (load) before signal before wait
		for _, sg := range signals {
			if len(wt.loads) > 0 {
				ok, path := precededBy(fn, sg, instrSet(wt.loads), nil)
				if ok {
					r.Ok(rule, "flushTick/register-before-signal", instrPos(sg), "the writer registers for notification before it triggers the flush")
				} else {
					r.BadPath(rule, "flushTick/register-before-signal", instrPos(sg), "the flush is triggered before the writer registered for notification: the flush can complete (and broadcast to nobody) before the registration, and nothing triggers another one", path)
				}
			}
		}
		ok, path := precededBy(fn, w, instrSet(signals), nil)
		if ok {
			r.Ok(rule, "flushTick/signal-before-wait", instrPos(w), "a flush is always signalled before waiting")
		} else {
			r.BadPath(rule, "flushTick/signal-before-wait", instrPos(w), "the writer can start waiting without having signalled a flush", path)
		}
	}
	r.Min(rule, 6)
}

func ruleFlusher(r *Report) {
	const rule = "flusher"
	fn := r.need(rule, "S", "(*Store).run")
	if fn == nil {
		return
	}
	// the blocking select receives from flushNow and that case calls Flush
	var sel *ssa.Select
	flushNowIdx := -1
	eachInstr(fn, func(in ssa.Instruction) {
		s, ok := in.(*ssa.Select)
		if !ok || !s.Blocking {
			return
		}
		for i, st := range s.States {
			if st.Dir == 2 /* RecvOnly */ && fieldOfLoad(st.Chan) == "Store.flushNow" {
				sel = s
				flushNowIdx = i
			}
		}
	})
	if sel == nil {
		r.Bad(rule, "run/select-flushNow", fn.Pos(), "Store.run has no blocking select receiving from flushNow: flush requests from rate-limited writers are never served")
	} else {
		idxVals := extractOf(sel, 0)
		caseEdges := condEdges(fn, func(cond ssa.Value) (bool, bool) {
			bo, ok := cond.(*ssa.BinOp)
			if !ok || bo.Op != token.EQL {
				return false, false
			}
			for _, iv := range idxVals {
				if bo.X == iv {
					if k, ok := intConst(bo.Y); ok && int(k) == flushNowIdx {
						return true, false
					}
				}
			}
			return false, false
		})
		flushes := deepCallSites(fn, "(*store.Store).Flush")
		if len(flushes) == 0 {
			r.Bad(rule, "run/flushNow-calls-Flush", instrPos(sel), "the flusher never calls Store.Flush")
		}
		for _, fc := range flushes {
			ok, _ := guarded(fn, fc, mkEdgeSet(caseEdges), nil)
			r.Check(ok, rule, "run/flushNow-calls-Flush", fc.Pos(), "a received flushNow signal leads to Store.Flush", "Store.Flush in run is not the body of the flushNow case")
		}
		for _, ed := range caseEdges {
			ed := ed
			ok, path := followedBy(fn, nil, &ed, func(in ssa.Instruction) bool {
				return isCallNamed("(*store.Store).Flush")(in) || in == ssa.Instruction(sel)
			}, nil)
			// every path from the case either flushes or (never) — require Flush before the next select
			reach, p2 := Search{Fn: fn, FromEdge: &ed, Target: isInstr(sel), Avoid: isCallNamed("(*store.Store).Flush")}.Run()
			_ = ok
			_ = path
			if reach {
				r.BadPath(rule, "run/flushNow-always-flushes", instrPos(sel), "after receiving a flushNow signal the flusher can go back to waiting without calling Flush: the signalling writer is never released", p2)
			} else {
				r.Ok(rule, "run/flushNow-always-flushes", instrPos(sel), "every received flushNow signal is followed by a Flush before the next wait")
			}
		}
	}
	// sends on flushNow inside run are non-blocking
	deepEach(fn, func(_ *ssa.Function, in ssa.Instruction) {
		switch x := in.(type) {
		case *ssa.Send:
			if fieldOfLoad(x.Chan) == "Store.flushNow" {
				r.Bad(rule, "run/ticker-send-nonblocking", instrPos(x), "the flusher sends to its own flushNow channel with a blocking send: with the slot full it deadlocks itself")
			}
		case *ssa.Select:
			for _, st := range x.States {
				if st.Dir == 1 && fieldOfLoad(st.Chan) == "Store.flushNow" {
					r.Check(!x.Blocking, rule, "run/ticker-send-nonblocking", instrPos(x), "the periodic tick only does a non-blocking send on flushNow", "the periodic tick blocks sending on flushNow (the flusher is the only receiver): self-deadlock")
				}
			}
		}
	})
	// flushNow has capacity >= 1
	if open := r.need(rule, "S", "OpenStore"); open != nil {
		found := false
		for _, st := range fieldStores(open, "Store.flushNow") {
			if mc, ok := st.Val.(*ssa.MakeChan); ok {
				found = true
				k, isC := intConst(mc.Size)
				r.Check(isC && k >= 1, rule, "OpenStore/flushNow-buffered", instrPos(st), fmt.Sprintf("flushNow has capacity %d: a signal sent while the flusher is busy is kept", k),
					"flushNow is unbuffered: a non-blocking signal sent while the flusher is busy flushing is dropped, and the writer then waits for a flush nobody will start")
			}
		}
		if !found {
			r.Undecided(rule, "make of Store.flushNow not found in OpenStore")
		}
	}
	r.Min(rule, 4)
}

func init() {
	register("C12", func(r *Report) {
		ruleNotify(r)
		ruleNotifyReset(r)
		ruleWaitProtocol(r)
		ruleFlusher(r)
		// the hand-shake fields are shared between writers and the flusher
		r.support([]string{"race", "lock-balanced", "lock-paths", "completion", "flush-ack", "notice-owners"})
	},
		"Decides the shape of the back-pressure protocol, each rule a necessary condition of 'no lost wake-up', not freedom from lost wake-ups over all schedules (a model-checking question): every successful return of Store.Flush passes the broadcast point (test-and-close of flushNotice under rateLk, directly or through a helper all of whose paths do); close is followed by flushNotice=nil before the lock is released; flushTick creates-if-nil and loads the channel in one exclusive rateLk section, waits on that loaded value without holding the lock, signals flushNow with a non-blocking send after registering and before waiting; the flusher serves every flushNow signal with a Flush, only ever sends to flushNow non-blockingly, and flushNow is buffered. Not covered: fairness/progress under all interleavings, waiters when a flush fails or when Close races a waiter.",
		"the statement excludes failing flushes; only success returns of Flush are obliged to broadcast")
}
