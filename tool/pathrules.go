package main

import (
	"golang.org/x/tools/go/ssa"
)

// precededBy: every path from the entry of fn to site passes an instruction in
// `before` (or an edge in edges). Returns the offending block path otherwise.
func precededBy(fn *ssa.Function, site ssa.Instruction, before map[ssa.Instruction]bool, edges edgeSet) (bool, []*ssa.BasicBlock) {
	reach, path := Search{Fn: fn, Target: isInstr(site), Avoid: anyOf(before), AvoidEdges: edges}.Run()
	return !reach, path
}

// followedBy: every path from `from` (an instruction; or the target of
// fromEdge; or the entry when both nil) to a return in exits (nil = all
// returns) passes an instruction satisfying after. A matching deferred call
// registered on the path, or registered earlier on every path to `from`,
// counts (it runs at the return).
func followedBy(fn *ssa.Function, from ssa.Instruction, fromEdge *Edge, after func(ssa.Instruction) bool, exits map[ssa.Instruction]bool) (bool, []*ssa.BasicBlock) {
	// deferred registration that dominates the start point
	var startBlock *ssa.BasicBlock
	startIdx := 0
	switch {
	case fromEdge != nil:
		startBlock = fromEdge.From.Succs[fromEdge.Idx]
	case from != nil:
		startBlock = from.Block()
		startIdx = instrIndex(from)
	default:
		startBlock = fn.Blocks[0]
	}
	for _, d := range defers(fn) {
		if !after(d) {
			continue
		}
		if d.Block() == startBlock {
			if instrIndex(d) < startIdx || (fromEdge != nil && false) {
				return true, nil
			}
			continue
		}
		if d.Block().Dominates(startBlock) {
			return true, nil
		}
	}
	target := func(in ssa.Instruction) bool {
		if exits != nil {
			return exits[in]
		}
		r, ok := in.(*ssa.Return)
		if !ok {
			return false
		}
		return !(fn.Recover != nil && r.Block() == fn.Recover)
	}
	reach, path := Search{Fn: fn, From: from, FromEdge: fromEdge, Target: target, Avoid: after}.Run()
	return !reach, path
}

// isCallNamed returns a predicate matching call instructions by cname.
func isCallNamed(names ...string) func(ssa.Instruction) bool {
	return func(in ssa.Instruction) bool {
		ci, ok := in.(ssa.CallInstruction)
		if !ok {
			return false
		}
		n := cname(ci)
		for _, w := range names {
			if n == w {
				return true
			}
		}
		return false
	}
}

// callsOrDefersClosureWith matches call instructions named names, and defer
// instructions of closures whose body contains such a call.
func callsOrDefersClosureWith(names ...string) func(ssa.Instruction) bool {
	direct := isCallNamed(names...)
	return func(in ssa.Instruction) bool {
		if direct(in) {
			return true
		}
		d, ok := in.(*ssa.Defer)
		if !ok {
			return false
		}
		f := d.Call.StaticCallee()
		if f == nil || f.Blocks == nil || f.Parent() == nil {
			return false
		}
		found := false
		eachInstr(f, func(x ssa.Instruction) {
			if direct(x) {
				found = true
			}
		})
		return found
	}
}

// asCall converts a CallInstruction to *ssa.Call (nil for defer/go).
func asCall(ci ssa.CallInstruction) *ssa.Call {
	c, _ := ci.(*ssa.Call)
	return c
}

// successGuard: site is only reachable through the success edge of call.
func successGuard(fn *ssa.Function, site ssa.Instruction, call *ssa.Call) (bool, []*ssa.BasicBlock) {
	if call == nil {
		return false, nil
	}
	es := successEdges(call)
	if len(es) == 0 {
		return false, nil
	}
	// the call itself must be on every path (the error may flow through a
	// phi shared with other calls), and so must one of its success edges
	if ok, path := precededBy(fn, site, map[ssa.Instruction]bool{call: true}, nil); !ok {
		return false, path
	}
	return guarded(fn, site, mkEdgeSet(es), nil)
}

// receiverField reports the struct field ("T.f") the receiver/first argument
// of a call was loaded from.
func receiverField(ci ssa.CallInstruction) string {
	c := ci.Common()
	if c.IsInvoke() {
		return fieldOfLoad(c.Value)
	}
	if len(c.Args) == 0 {
		return ""
	}
	return fieldOfLoad(c.Args[0])
}

// funcsCalling lists module functions (non-test) in the aliased packages that
// directly contain a call with one of the names.
func funcsCalling(e *Engine, aliases []string, names ...string) []*ssa.Function {
	want := map[string]bool{}
	for _, a := range aliases {
		want[pkgAlias[a]] = true
	}
	var out []*ssa.Function
	for _, fn := range e.ModFuncs {
		root := fn
		for root.Parent() != nil {
			root = root.Parent()
		}
		if root.Pkg == nil || !want[root.Pkg.Pkg.Path()] {
			continue
		}
		if len(callSites(fn, names...)) > 0 {
			out = append(out, fn)
		}
	}
	return out
}
