package main

// runCorpus is replaced by the sensitivity corpus runner (corpus_run.go).
var runCorpus = func(id, repo, verif string) any { return map[string]any{"note": "corpus not built"} }
