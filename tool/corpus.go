package main

import (
	"encoding/json"
	"fmt"
	"os"
	"os/exec"
	"path/filepath"
	"sort"
	"strings"
	"sync"
)

// Sensitivity corpus: named source edits (seeded property-breaking changes and
// behaviour-preserving refactorings) applied through a go/packages overlay —
// nothing is written into /repo. Each variant is analysed in its own
// subprocess. Breaking variants must be reported with a key containing
// Expect; refactorings must be silent.

type Variant struct {
	Patch  string   `json:"patch,omitempty"` // unified diff applied with patch(1) to copies of the files (seeded changes)
	ID     string   `json:"id"`
	Props  []string `json:"props"`
	Kind   string   `json:"kind"` // breaking | refactor
	File   string   `json:"file"` // relative to the repository root
	Old    string   `json:"old"`
	New    string   `json:"new"`
	Edits  []Edit   `json:"edits,omitempty"` // additional edits (same or other files)
	Expect string   `json:"expect,omitempty"`
	Note   string   `json:"note,omitempty"`
}

type Edit struct {
	File string `json:"file"`
	Old  string `json:"old"`
	New  string `json:"new"`
}

type variantResult struct {
	ID      string   `json:"id"`
	Kind    string   `json:"kind"`
	Outcome string   `json:"outcome"` // fired | missed | silent | false-alarm | inapplicable | error
	Keys    []string `json:"keys,omitempty"`
}

func loadVariants(verif string) ([]Variant, error) {
	files, _ := filepath.Glob(filepath.Join(verif, "corpus", "*.json"))
	sort.Strings(files)
	var out []Variant
	for _, f := range files {
		data, err := os.ReadFile(f)
		if err != nil {
			return nil, err
		}
		var vs []Variant
		if err := json.Unmarshal(data, &vs); err != nil {
			return nil, fmt.Errorf("%s: %w", f, err)
		}
		out = append(out, vs...)
	}
	// the confirmed seeded changes written by independent sub-agents
	metas, _ := filepath.Glob(filepath.Join(verif, "seeded", "*", "meta.json"))
	sort.Strings(metas)
	for _, m := range metas {
		data, err := os.ReadFile(m)
		if err != nil {
			continue
		}
		var meta struct {
			ID         string              `json:"id"`
			Breaks     string              `json:"breaks_property"`
			DetectedBy map[string][]string `json:"detected_by"`
		}
		if json.Unmarshal(data, &meta) != nil {
			continue
		}
		props := map[string]bool{meta.Breaks: true}
		for p := range meta.DetectedBy {
			props[p] = true
		}
		var pl []string
		for p := range props {
			pl = append(pl, p)
		}
		sort.Strings(pl)
		out = append(out, Variant{ID: "seeded:" + meta.ID, Props: pl, Kind: "breaking", Patch: filepath.Join(filepath.Dir(m), "patch.diff")})
	}
	// behaviour-preserving single-step refactorings written by independent
	// sub-agents (helper extraction/inlining, early returns, renamed locals,
	// reordered independent statements ...): every check must stay silent
	rps, _ := filepath.Glob(filepath.Join(verif, "corpus", "refactor_patches", "*.diff"))
	sort.Strings(rps)
	for _, rp := range rps {
		out = append(out, Variant{ID: "refactor:" + strings.TrimSuffix(filepath.Base(rp), ".diff"), Props: allProps, Kind: "refactor", Patch: rp})
	}
	return out, nil
}

var allProps = []string{"C01", "C02", "C03", "C04", "C05", "C06", "C07", "C08", "C09", "C10", "C11", "C12", "C13", "C14", "C15", "C16", "C17"}

// patchOverlay applies a unified diff to scratch copies of the files it names.
func patchOverlay(repo, patch string) (map[string]string, bool) {
	data, err := os.ReadFile(patch)
	if err != nil {
		return nil, false
	}
	var files []string
	for _, line := range strings.Split(string(data), "\n") {
		if strings.HasPrefix(line, "+++ b/") {
			files = append(files, strings.TrimSpace(strings.TrimPrefix(line, "+++ b/")))
		}
	}
	if len(files) == 0 {
		return nil, false
	}
	tmp, err := os.MkdirTemp("", "sthlint-patch-*")
	if err != nil {
		return nil, false
	}
	defer os.RemoveAll(tmp)
	for _, f := range files {
		src, err := os.ReadFile(filepath.Join(repo, f))
		if err != nil {
			return nil, false
		}
		dst := filepath.Join(tmp, f)
		os.MkdirAll(filepath.Dir(dst), 0o755)
		if os.WriteFile(dst, src, 0o644) != nil {
			return nil, false
		}
	}
	cmd := exec.Command("patch", "-p1", "-s", "--no-backup-if-mismatch", "-d", tmp, "-i", patch)
	if out, err := cmd.CombinedOutput(); err != nil {
		_ = out
		return nil, false
	}
	ov := map[string]string{}
	for _, f := range files {
		b, err := os.ReadFile(filepath.Join(tmp, f))
		if err != nil {
			return nil, false
		}
		ov[filepath.Join(repo, f)] = string(b)
	}
	return ov, true
}

func buildOverlay(repo string, v Variant) (map[string]string, bool) {
	if v.Patch != "" {
		return patchOverlay(repo, v.Patch)
	}
	edits := append([]Edit{{v.File, v.Old, v.New}}, v.Edits...)
	content := map[string]string{}
	for _, e := range edits {
		p := filepath.Join(repo, e.File)
		cur, ok := content[p]
		if !ok {
			data, err := os.ReadFile(p)
			if err != nil {
				return nil, false
			}
			cur = string(data)
		}
		if strings.Count(cur, e.Old) != 1 {
			return nil, false
		}
		content[p] = strings.Replace(cur, e.Old, e.New, 1)
	}
	return content, true
}

func runVariant(exe, repo, prop string, v Variant) variantResult {
	res := variantResult{ID: v.ID, Kind: v.Kind}
	ov, ok := buildOverlay(repo, v)
	if !ok {
		res.Outcome = "inapplicable"
		return res
	}
	tmp, err := os.CreateTemp("", "sthlint-ov-*.json")
	if err != nil {
		res.Outcome = "error"
		return res
	}
	defer os.Remove(tmp.Name())
	data, _ := json.Marshal(ov)
	tmp.Write(data)
	tmp.Close()
	cmd := exec.Command(exe, "-property", prop, "-repo", repo, "-overlay", tmp.Name(), "-no-evidence", "-verif", corpusVerif)
	out, _ := cmd.CombinedOutput()
	var bad []string
	for _, line := range strings.Split(string(out), "\n") {
		if strings.HasPrefix(line, "BAD ") {
			parts := strings.SplitN(line[4:], " | ", 2)
			bad = append(bad, parts[0])
		}
		if strings.HasPrefix(line, "VIOLATION") || strings.Contains(line, "engine/undecided") {
			if strings.Contains(string(out), "engine/undecided") {
				bad = append(bad, "engine/undecided: "+firstLineAfter(string(out), "engine/undecided"))
			}
		}
	}
	res.Keys = bad
	switch v.Kind {
	case "refactor":
		if len(bad) == 0 {
			res.Outcome = "silent"
		} else {
			res.Outcome = "false-alarm"
		}
	default:
		res.Outcome = "missed"
		for _, k := range bad {
			if strings.HasPrefix(k, "engine/undecided") {
				res.Outcome = "error"
				break
			}
			if v.Expect == "" || strings.Contains(k, v.Expect) {
				res.Outcome = "fired"
			}
		}
	}
	return res
}

func firstLineAfter(s, marker string) string {
	i := strings.Index(s, marker)
	if i < 0 {
		return ""
	}
	rest := s[i+len(marker):]
	if j := strings.IndexByte(rest, '\n'); j >= 0 {
		rest = rest[:j]
	}
	if len(rest) > 200 {
		rest = rest[:200]
	}
	return rest
}

// corpusVerif: the verification directory handed to variant subprocesses (known findings).
var corpusVerif = "/verif"

func corpusFor(id, repo, verif string) any {
	corpusVerif = verif
	vs, err := loadVariants(verif)
	if err != nil {
		return map[string]any{"error": err.Error()}
	}
	exe, err := os.Executable()
	if err != nil {
		return map[string]any{"error": err.Error()}
	}
	var mine []Variant
	for _, v := range vs {
		for _, p := range v.Props {
			if p == id {
				mine = append(mine, v)
			}
		}
	}
	results := make([]variantResult, len(mine))
	sem := make(chan struct{}, 8)
	var wg sync.WaitGroup
	for i, v := range mine {
		wg.Add(1)
		go func(i int, v Variant) {
			defer wg.Done()
			sem <- struct{}{}
			defer func() { <-sem }()
			results[i] = runVariant(exe, repo, id, v)
		}(i, v)
	}
	wg.Wait()
	counts := map[string]int{}
	var problems []variantResult
	for _, r := range results {
		counts[r.Outcome]++
		if r.Outcome == "missed" || r.Outcome == "false-alarm" || r.Outcome == "error" {
			problems = append(problems, r)
		}
	}
	return map[string]any{
		"variants":            len(mine),
		"fired":               counts["fired"],
		"missed":              counts["missed"],
		"silent_on_refactors": counts["silent"],
		"false_alarms":        counts["false-alarm"],
		"inapplicable":        counts["inapplicable"],
		"errors":              counts["error"],
		"disagreements":       problems,
		"results":             results,
	}
}

func init() { runCorpus = corpusFor }

var runCorpus func(id, repo, verif string) any

// selfTest runs the whole corpus for every property and prints a matrix;
// disagreement is fatal here (developer command), not in registered checks.
func selfTest(repo, verif string, only string) int {
	corpusVerif = verif
	vs, err := loadVariants(verif)
	if err != nil {
		fmt.Println("corpus:", err)
		return 2
	}
	exe, _ := os.Executable()
	type job struct {
		v    Variant
		prop string
	}
	var jobs []job
	kind := os.Getenv("STHLINT_SELFTEST_KIND")
	for _, v := range vs {
		if kind != "" && v.Kind != kind {
			continue
		}
		for _, p := range v.Props {
			if only != "" && p != only && v.ID != only {
				continue
			}
			jobs = append(jobs, job{v, p})
		}
	}
	results := make([]variantResult, len(jobs))
	sem := make(chan struct{}, 12)
	var wg sync.WaitGroup
	for i, j := range jobs {
		wg.Add(1)
		go func(i int, j job) {
			defer wg.Done()
			sem <- struct{}{}
			defer func() { <-sem }()
			results[i] = runVariant(exe, repo, j.prop, j.v)
		}(i, j)
	}
	wg.Wait()
	bad := 0
	counts := map[string]int{}
	for i, r := range results {
		counts[r.Outcome]++
		mark := "  "
		if r.Outcome == "missed" || r.Outcome == "false-alarm" || r.Outcome == "error" {
			mark = "!!"
			bad++
		}
		fmt.Printf("%s %-4s %-44s %-9s %-12s %s\n", mark, jobs[i].prop, r.ID, r.Kind, r.Outcome, strings.Join(r.Keys, " ; "))
	}
	fmt.Printf("selftest: %d jobs: %v\n", len(jobs), counts)
	if bad > 0 {
		return 1
	}
	return 0
}
