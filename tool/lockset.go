package main

import (
	"fmt"
	"go/token"
	"go/types"
	"sort"
	"strings"

	"golang.org/x/tools/go/ssa"
)

// ---------------------------------------------------------------------------
// A1: lockset analysis
//
// Locks are abstracted as (named struct type, field). The per-function
// analysis is a forward must-hold dataflow over the SSA CFG; the
// interprocedural walk propagates the held set at each call site into the
// callees, from a table of thread roots.

type lockMode int

const (
	modeR lockMode = 1
	modeW lockMode = 2
)

type LockSet map[string]lockMode

func (ls LockSet) clone() LockSet {
	out := LockSet{}
	for k, v := range ls {
		out[k] = v
	}
	return out
}

func (ls LockSet) key() string {
	var ks []string
	for k, m := range ls {
		if m == modeW {
			ks = append(ks, k+":W")
		} else {
			ks = append(ks, k+":R")
		}
	}
	sort.Strings(ks)
	return "{" + strings.Join(ks, ",") + "}"
}

func intersect(a, b LockSet) LockSet {
	out := LockSet{}
	for k, m := range a {
		if m2, ok := b[k]; ok {
			if m2 < m {
				m = m2
			}
			out[k] = m
		}
	}
	return out
}

func equalLS(a, b LockSet) bool {
	if len(a) != len(b) {
		return false
	}
	for k, m := range a {
		if b[k] != m {
			return false
		}
	}
	return true
}

type lockState struct {
	held     LockSet
	deferred map[string]bool
}

func (s lockState) clone() lockState {
	d := map[string]bool{}
	for k := range s.deferred {
		d[k] = true
	}
	return lockState{s.held.clone(), d}
}

func joinState(a, b lockState) lockState {
	d := map[string]bool{}
	for k := range a.deferred {
		if b.deferred[k] {
			d[k] = true
		}
	}
	return lockState{intersect(a.held, b.held), d}
}

func equalState(a, b lockState) bool {
	if !equalLS(a.held, b.held) || len(a.deferred) != len(b.deferred) {
		return false
	}
	for k := range a.deferred {
		if !b.deferred[k] {
			return false
		}
	}
	return true
}

// lockOp classifies a call as a lock operation on a struct-field mutex.
// op is one of "Lock", "RLock", "Unlock", "RUnlock"; id is "pkg.Type.field".
func lockOp(ci ssa.CallInstruction) (op, id string, ok bool) {
	c := ci.Common()
	f := c.StaticCallee()
	if f == nil || len(c.Args) == 0 {
		return "", "", false
	}
	switch shortFunc(f) {
	case "(*sync.Mutex).Lock", "(*sync.RWMutex).Lock":
		op = "Lock"
	case "(*sync.RWMutex).RLock":
		op = "RLock"
	case "(*sync.Mutex).Unlock", "(*sync.RWMutex).Unlock":
		op = "Unlock"
	case "(*sync.RWMutex).RUnlock":
		op = "RUnlock"
	default:
		return "", "", false
	}
	fa, isFA := c.Args[0].(*ssa.FieldAddr)
	if !isFA {
		return op, "local:" + c.Args[0].Name(), true
	}
	return op, qualifiedField(fa.X.Type(), fa.Field), true
}

func qualifiedField(t types.Type, idx int) string {
	n := namedOf(t)
	fn := fieldName(t, idx)
	if n != nil && n.Obj().Pkg() != nil {
		return typeQualifier(n.Obj().Pkg()) + "." + fn
	}
	return fn
}

// funcLockInfo is the result of the per-function dataflow for one entry set.
type funcLockInfo struct {
	in       map[*ssa.BasicBlock]lockState
	at       map[ssa.Instruction]LockSet // held set immediately before the instruction
	exitHeld LockSet                     // intersection of held sets over all returns (minus deferred)
	problems []lockProblem
}

type lockProblem struct {
	pos    token.Pos
	key    string
	detail string
}

// lockFlow runs the must-hold dataflow on fn from the given entry lockset and
// extends the per-instruction result to fn's private helpers (scopeOf), each
// entered with the locks held at its call sites.
func lockFlow(fn *ssa.Function, entry LockSet) *funcLockInfo {
	fi := lockFlowRaw(fn, entry)
	scope := scopeOf(fn)
	for _, h := range scope[1:] {
		var ctx LockSet
		first := true
		for _, c := range staticCallers[h] {
			ls, ok := fi.at[c]
			if !ok {
				continue
			}
			if first {
				ctx, first = ls.clone(), false
			} else {
				ctx = intersect(ctx, ls)
			}
		}
		if ctx == nil {
			ctx = LockSet{}
		}
		hfi := lockFlowRaw(h, ctx)
		for in, ls := range hfi.at {
			fi.at[in] = ls
		}
	}
	return fi
}

// lockFlowRaw: the intraprocedural dataflow.
func lockFlowRaw(fn *ssa.Function, entry LockSet) *funcLockInfo {
	info := &funcLockInfo{in: map[*ssa.BasicBlock]lockState{}, at: map[ssa.Instruction]LockSet{}}
	if len(fn.Blocks) == 0 {
		return info
	}
	info.in[fn.Blocks[0]] = lockState{entry.clone(), map[string]bool{}}
	transfer := func(st lockState, in ssa.Instruction, record bool) lockState {
		ci, ok := in.(ssa.CallInstruction)
		if !ok {
			return st
		}
		op, id, ok := lockOp(ci)
		if !ok {
			return st
		}
		if _, isDefer := in.(*ssa.Defer); isDefer {
			if op == "Unlock" || op == "RUnlock" {
				st.deferred[id] = true
			}
			return st
		}
		if _, isGo := in.(*ssa.Go); isGo {
			return st
		}
		switch op {
		case "Lock":
			if _, held := st.held[id]; held && record {
				info.problems = append(info.problems, lockProblem{in.Pos(), "reacquire/" + id, "lock " + id + " acquired while already held on every path (self-deadlock)"})
			}
			st.held[id] = modeW
		case "RLock":
			if m, held := st.held[id]; held && m == modeW && record {
				info.problems = append(info.problems, lockProblem{in.Pos(), "reacquire/" + id, "read lock " + id + " acquired while write lock held (self-deadlock)"})
			} else if held && record {
				// sync.RWMutex: a recursive RLock deadlocks as soon as a writer queues up between the two
				info.problems = append(info.problems, lockProblem{in.Pos(), "recursive-rlock/" + id, "read lock " + id + " acquired while this goroutine already holds it for reading: with a writer waiting in between (every Put/Remove takes the write lock) both block forever — the collector, every caller and Close hang"})
			}
			if _, held := st.held[id]; !held {
				st.held[id] = modeR
			}
		case "Unlock", "RUnlock":
			if _, held := st.held[id]; !held && record {
				info.problems = append(info.problems, lockProblem{in.Pos(), "release-unheld/" + id, "lock " + id + " released on a path where it is not (definitely) held"})
			}
			delete(st.held, id)
		}
		return st
	}
	// fixpoint
	work := []*ssa.BasicBlock{fn.Blocks[0]}
	inWork := map[*ssa.BasicBlock]bool{fn.Blocks[0]: true}
	for len(work) > 0 {
		b := work[0]
		work = work[1:]
		inWork[b] = false
		st := info.in[b].clone()
		for _, in := range b.Instrs {
			st = transfer(st, in, false)
		}
		for _, s := range b.Succs {
			old, seen := info.in[s]
			var nw lockState
			if !seen {
				nw = st.clone()
			} else {
				nw = joinState(old, st)
			}
			if !seen || !equalState(old, nw) {
				info.in[s] = nw
				if !inWork[s] {
					inWork[s] = true
					work = append(work, s)
				}
			}
		}
	}
	// recording pass
	first := true
	for _, b := range fn.Blocks {
		st0, ok := info.in[b]
		if !ok {
			continue // unreachable
		}
		st := st0.clone()
		for _, in := range b.Instrs {
			info.at[in] = st.held.clone()
			if _, isRet := in.(*ssa.Return); isRet {
				eff := LockSet{}
				for k, m := range st.held {
					if !st.deferred[k] {
						eff[k] = m
					}
				}
				// balanced: effective exit set must equal the entry set
				for k := range eff {
					if _, ok := entry[k]; !ok {
						info.problems = append(info.problems, lockProblem{in.Pos(), "held-at-return/" + k, "lock " + k + " acquired in this function is still held at this return (no unlock, no deferred unlock on this path)"})
					}
				}
				for k := range entry {
					if _, ok := eff[k]; !ok {
						info.problems = append(info.problems, lockProblem{in.Pos(), "released-callers-lock/" + k, "lock " + k + " held by the caller is released by this function"})
					}
				}
				if first {
					info.exitHeld = eff
					first = false
				} else {
					info.exitHeld = intersect(info.exitHeld, eff)
				}
			}
			st = transfer(st, in, true)
		}
	}
	if info.exitHeld == nil {
		info.exitHeld = LockSet{}
	}
	return info
}

// ---------------------------------------------------------------------------
// shared locations

// Access is one abstract memory access reached from a thread root.
type Access struct {
	Loc   string
	Write bool
	Kind  string // field | content | ext
	Instr ssa.Instruction
	Fn    *ssa.Function
	Held  LockSet
	Root  string
}

type ThreadRoot struct {
	Name           string
	SelfConcurrent bool
	Funcs          []*ssa.Function
}

type orderWitness struct {
	pos token.Pos
	fn  *ssa.Function
}

type LockAnalysis struct {
	e         *Engine
	shared    map[*types.Named]bool
	accesses  []Access
	accSeen   map[string]bool
	order     map[[2]string]orderWitness
	visited   map[string]bool
	goTargets map[*ssa.Function][]string // go-statement targets seen and from which root
	problems  []lockProblem
	probSeen  map[string]bool
	flowMemo  map[string]*funcLockInfo
	contentFx map[*ssa.Function][]int // per param: bit0=read, bit1=write content
	fxBusy    map[*ssa.Function]bool
	reached   map[*ssa.Function]bool
}

func newLockAnalysis(e *Engine) *LockAnalysis {
	la := &LockAnalysis{e: e, accSeen: map[string]bool{}, order: map[[2]string]orderWitness{}, visited: map[string]bool{},
		goTargets: map[*ssa.Function][]string{}, probSeen: map[string]bool{}, flowMemo: map[string]*funcLockInfo{},
		contentFx: map[*ssa.Function][]int{}, fxBusy: map[*ssa.Function]bool{}, reached: map[*ssa.Function]bool{}}
	la.computeShared()
	return la
}

// computeShared: named struct types of the module reachable through field
// types from the store's root objects, plus the table below.
func (la *LockAnalysis) computeShared() {
	la.shared = map[*types.Named]bool{}
	var modNamed []*types.Named
	for _, p := range la.e.Pkgs {
		sc := p.Types.Scope()
		for _, name := range sc.Names() {
			if tn, ok := sc.Lookup(name).(*types.TypeName); ok {
				if n, ok := tn.Type().(*types.Named); ok {
					modNamed = append(modNamed, n)
				}
			}
		}
	}
	inModule := func(n *types.Named) bool {
		return n.Obj().Pkg() != nil && (n.Obj().Pkg().Path() == modPath || strings.HasPrefix(n.Obj().Pkg().Path(), modPath+"/"))
	}
	seen := map[types.Type]bool{}
	var visit func(t types.Type)
	visit = func(t types.Type) {
		if t == nil || seen[t] {
			return
		}
		seen[t] = true
		switch u := t.(type) {
		case *types.Alias:
			visit(types.Unalias(u))
		case *types.Named:
			if inModule(u) {
				if _, ok := u.Underlying().(*types.Struct); ok {
					la.shared[u] = true
				}
				visit(u.Underlying())
				if iface, ok := u.Underlying().(*types.Interface); ok {
					for _, m := range modNamed {
						if _, isIface := m.Underlying().(*types.Interface); isIface {
							continue
						}
						if types.Implements(m, iface) || types.Implements(types.NewPointer(m), iface) {
							visit(m)
						}
					}
				}
			}
		case *types.Pointer:
			visit(u.Elem())
		case *types.Slice:
			visit(u.Elem())
		case *types.Array:
			visit(u.Elem())
		case *types.Map:
			visit(u.Key())
			visit(u.Elem())
		case *types.Chan:
			visit(u.Elem())
		case *types.Struct:
			for i := 0; i < u.NumFields(); i++ {
				visit(u.Field(i).Type())
			}
		}
	}
	for _, root := range [][2]string{{"S", "Store"}, {"R", "HashedBlockstore"}} {
		if n := la.e.NamedType(root[0], root[1]); n != nil {
			visit(n)
		}
	}
	// Stored behind `any` in container/list elements, so not reachable through
	// field types: the file cache's entries.
	if n := la.e.NamedType("FC", "entry"); n != nil {
		visit(n)
	}
}

func (la *LockAnalysis) isShared(t types.Type) (*types.Named, bool) {
	n := namedOf(t)
	if n == nil {
		return nil, false
	}
	if o := n.Origin(); o != nil {
		n = o
	}
	return n, la.shared[n]
}

// External mutable objects held in fields: calls of these methods on a value
// loaded from a field count as content writes/reads of that field.
func extEffect(name string) (read, write bool) {
	switch {
	case strings.HasPrefix(name, "(*bufio.Writer)."):
		return true, true
	case strings.HasPrefix(name, "(*bufio.Reader)."):
		return true, true
	case strings.HasPrefix(name, "(*container/list.List)."):
		switch strings.TrimPrefix(name, "(*container/list.List).") {
		case "Len", "Front", "Back":
			return true, false
		}
		return true, true
	}
	return false, false
}

// extWritesArg: external functions that fill the slice passed as argument i
// (receiver counted as argument 0 for static method calls).
func extWritesArg(name string, i int) bool {
	switch name {
	case "(*os.File).ReadAt", "(*os.File).Read", "(*bufio.Reader).Read", "(io.Reader).Read", "(io.ReaderAt).ReadAt":
		return i == 1 || (i == 0 && strings.HasPrefix(name, "(io."))
	case "io.ReadFull", "io.ReadAtLeast":
		return i == 1
	case "(encoding/binary.littleEndian).PutUint16", "(encoding/binary.littleEndian).PutUint32", "(encoding/binary.littleEndian).PutUint64",
		"(encoding/binary.bigEndian).PutUint16", "(encoding/binary.bigEndian).PutUint32", "(encoding/binary.bigEndian).PutUint64":
		return i == 1
	case "encoding/binary.PutUvarint", "encoding/binary.PutVarint":
		return i == 0
	case "crypto/rand.Read", "math/rand.Read":
		return i == 0
	}
	return false
}

// locOfAddr maps an address expression to an abstract shared location.
// content reports that the address denotes an element of the field's
// slice/map contents rather than the field itself.
func (la *LockAnalysis) locOfAddr(addr ssa.Value) (loc string, content bool, ok bool) {
	switch a := addr.(type) {
	case *ssa.FieldAddr:
		// walk to the outermost struct
		root := a
		for {
			if inner, ok := root.X.(*ssa.FieldAddr); ok {
				root = inner
				continue
			}
			break
		}
		base := root.X
		if ia, ok := base.(*ssa.IndexAddr); ok {
			return la.locOfAddr(ia)
		}
		if isLocalAlloc(base) {
			return "", false, false
		}
		if _, shared := la.isShared(base.Type()); !shared {
			return "", false, false
		}
		return qualifiedField(base.Type(), root.Field), false, true
	case *ssa.Global:
		// a package-level variable of the module is shared by every thread
		if a.Pkg != nil && la.e.InModulePkg(a.Pkg.Pkg) {
			return a.Pkg.Pkg.Name() + "." + a.Name(), false, true
		}
		return "", false, false
	case *ssa.IndexAddr:
		// element of a slice value, or of an array reached by pointer
		if _, isPtr := a.X.Type().Underlying().(*types.Pointer); isPtr {
			l, _, ok := la.locOfAddr(a.X)
			return l, true, ok
		}
		l, ok := la.origin(a.X, 0)
		return l, true, ok
	}
	return "", false, false
}

func isLocalAlloc(v ssa.Value) bool {
	switch x := v.(type) {
	case *ssa.Alloc:
		return true
	case *ssa.Phi:
		for _, e := range x.Edges {
			if !isLocalAlloc(e) {
				return false
			}
		}
		return len(x.Edges) > 0
	}
	return false
}

// origin maps a slice/map/struct value to the shared field it was loaded from.
func (la *LockAnalysis) origin(v ssa.Value, depth int) (string, bool) {
	if depth > 8 {
		return "", false
	}
	switch x := v.(type) {
	case *ssa.UnOp:
		if x.Op != token.MUL {
			return "", false
		}
		loc, _, ok := la.locOfAddr(x.X)
		if !ok {
			return "", false
		}
		if ownedAfterLoad(x) {
			return "", false
		}
		return loc, true
	case *ssa.Slice:
		if _, isPtr := x.X.Type().Underlying().(*types.Pointer); isPtr {
			l, _, ok := la.locOfAddr(x.X)
			return l, ok
		}
		return la.origin(x.X, depth+1)
	case *ssa.ChangeType:
		return la.origin(x.X, depth+1)
	case *ssa.Convert:
		return la.origin(x.X, depth+1)
	case *ssa.Field:
		return la.origin(x.X, depth+1)
	case *ssa.Phi:
		for _, e := range x.Edges {
			if l, ok := la.origin(e, depth+1); ok {
				return l, true
			}
		}
	}
	return "", false
}

// ownedAfterLoad recognises the pool-swap idiom: a field value is loaded and,
// later in the same block and before any unlock, the same field is
// overwritten; the loaded value is then private to this thread.
func ownedAfterLoad(load *ssa.UnOp) bool {
	fa, ok := load.X.(*ssa.FieldAddr)
	if !ok {
		return false
	}
	b := load.Block()
	i := instrIndex(load)
	for _, in := range b.Instrs[i+1:] {
		if ci, ok := in.(ssa.CallInstruction); ok {
			if op, _, ok := lockOp(ci); ok && (op == "Unlock" || op == "RUnlock") {
				if _, isDefer := in.(*ssa.Defer); !isDefer {
					return false
				}
			}
		}
		if st, ok := in.(*ssa.Store); ok {
			if fa2, ok := st.Addr.(*ssa.FieldAddr); ok && fa2.Field == fa.Field && fa2.X == fa.X {
				// overwritten with a fresh value: anything derived from the
				// loaded value (e.g. x[:0]) still shares its storage
				if !derives(st.Val, flowOpts{ThroughAllCalls: true}, func(v ssa.Value) bool {
					if v == ssa.Value(load) {
						return true
					}
					// another load of the same field
					if u, ok := v.(*ssa.UnOp); ok && u.Op == token.MUL {
						if fa3, ok := u.X.(*ssa.FieldAddr); ok && fa3.Field == fa.Field && fa3.X == fa.X {
							return true
						}
					}
					return false
				}) {
					return true
				}
			}
		}
	}
	return false
}

// paramContentFx computes, per parameter of fn, whether fn reads (1) or
// writes (2) the contents of that slice/map parameter (transitively).
func (la *LockAnalysis) paramContentFx(fn *ssa.Function) []int {
	if fx, ok := la.contentFx[fn]; ok {
		return fx
	}
	fx := make([]int, len(fn.Params))
	if la.fxBusy[fn] || fn.Blocks == nil {
		return fx
	}
	la.fxBusy[fn] = true
	defer func() { la.fxBusy[fn] = false }()
	paramIdx := func(v ssa.Value) int {
		for depth := 0; depth < 8; depth++ {
			switch x := v.(type) {
			case *ssa.Parameter:
				for i, p := range fn.Params {
					if p == x {
						return i
					}
				}
				return -1
			case *ssa.Slice:
				v = x.X
			case *ssa.ChangeType:
				v = x.X
			case *ssa.Convert:
				v = x.X
			default:
				return -1
			}
		}
		return -1
	}
	mark := func(v ssa.Value, bits int) {
		if i := paramIdx(v); i >= 0 {
			fx[i] |= bits
		}
	}
	eachInstr(fn, func(in ssa.Instruction) {
		switch x := in.(type) {
		case *ssa.MapUpdate:
			mark(x.Map, 2)
		case *ssa.Lookup:
			mark(x.X, 1)
		case *ssa.Range:
			mark(x.X, 1)
		case *ssa.Store:
			if ia, ok := x.Addr.(*ssa.IndexAddr); ok {
				mark(ia.X, 2)
			}
		case *ssa.UnOp:
			if x.Op == token.MUL {
				if ia, ok := x.X.(*ssa.IndexAddr); ok {
					mark(ia.X, 1)
				}
			}
		case ssa.CallInstruction:
			c := x.Common()
			if b, ok := c.Value.(*ssa.Builtin); ok {
				switch b.Name() {
				case "append":
					if len(c.Args) > 0 {
						mark(c.Args[0], 3)
					}
					if len(c.Args) > 1 {
						mark(c.Args[1], 1)
					}
				case "copy":
					mark(c.Args[0], 2)
					mark(c.Args[1], 1)
				case "delete":
					mark(c.Args[0], 2)
				case "len":
					if _, isMap := c.Args[0].Type().Underlying().(*types.Map); isMap {
						mark(c.Args[0], 1)
					}
				}
				return
			}
			for _, callee := range la.e.Callees(x) {
				if callee.Blocks == nil || !la.e.InModule(callee) {
					continue
				}
				sub := la.paramContentFx(callee)
				args := c.Args
				if c.IsInvoke() {
					// receiver is not in Args for invoke
					for i, a := range args {
						if i+1 < len(sub) {
							mark(a, sub[i+1])
						}
					}
					continue
				}
				for i, a := range args {
					if i < len(sub) {
						mark(a, sub[i])
					}
				}
			}
		}
	})
	la.contentFx[fn] = fx
	return fx
}

func (la *LockAnalysis) record(a Access) {
	k := fmt.Sprintf("%p|%s|%v|%s|%s|%s", a.Instr, a.Loc, a.Write, a.Root, a.Held.key(), a.Kind)
	if la.accSeen[k] {
		return
	}
	la.accSeen[k] = true
	la.accesses = append(la.accesses, a)
}

func (la *LockAnalysis) problem(fn *ssa.Function, p lockProblem) {
	k := fmt.Sprintf("%s|%s|%d", shortFunc(fn), p.key, p.pos)
	if la.probSeen[k] {
		return
	}
	la.probSeen[k] = true
	p.key = shortFunc(fn) + "/" + p.key
	la.problems = append(la.problems, p)
}

func (la *LockAnalysis) flow(fn *ssa.Function, entry LockSet) *funcLockInfo {
	k := fmt.Sprintf("%p|%s", fn, entry.key())
	if fi, ok := la.flowMemo[k]; ok {
		return fi
	}
	fi := lockFlowRaw(fn, entry)
	la.flowMemo[k] = fi
	return fi
}

// Walk analyses fn, and everything it calls, as part of thread root `root`
// with the given entry lockset.
func (la *LockAnalysis) Walk(root string, fn *ssa.Function, entry LockSet) {
	if fn == nil || fn.Blocks == nil {
		return
	}
	key := fmt.Sprintf("%s|%p|%s", root, fn, entry.key())
	if la.visited[key] {
		return
	}
	la.visited[key] = true
	la.reached[fn] = true
	fi := la.flow(fn, entry)
	for _, p := range fi.problems {
		la.problem(fn, p)
	}
	acc := func(in ssa.Instruction, loc string, write bool, kind string, held LockSet) {
		la.record(Access{Loc: loc, Write: write, Kind: kind, Instr: in, Fn: fn, Held: held, Root: root})
	}
	for _, b := range fn.Blocks {
		if _, ok := fi.in[b]; !ok {
			continue
		}
		for _, in := range b.Instrs {
			held := fi.at[in]
			switch x := in.(type) {
			case *ssa.UnOp:
				if x.Op == token.MUL {
					if loc, content, ok := la.locOfAddr(x.X); ok {
						k := "field"
						if content {
							k = "content"
						}
						acc(in, loc, false, k, held)
					}
				}
			case *ssa.Store:
				if loc, content, ok := la.locOfAddr(x.Addr); ok {
					k := "field"
					if content {
						k = "content"
					}
					acc(in, loc, true, k, held)
				}
			case *ssa.MapUpdate:
				if loc, ok := la.origin(x.Map, 0); ok {
					acc(in, loc, true, "content", held)
				}
			case *ssa.Lookup:
				if loc, ok := la.origin(x.X, 0); ok {
					acc(in, loc, false, "content", held)
				}
			case *ssa.Range:
				if loc, ok := la.origin(x.X, 0); ok {
					acc(in, loc, false, "content", held)
				}
			case ssa.CallInstruction:
				la.walkCall(root, fn, fi, x, held, acc)
			}
		}
	}
}

func (la *LockAnalysis) walkCall(root string, fn *ssa.Function, fi *funcLockInfo, ci ssa.CallInstruction, held LockSet,
	acc func(ssa.Instruction, string, bool, string, LockSet)) {
	c := ci.Common()
	if op, id, ok := lockOp(ci); ok {
		if _, isDefer := ci.(*ssa.Defer); !isDefer && (op == "Lock" || op == "RLock") {
			for h := range held {
				if h == id {
					continue
				}
				e := [2]string{h, id}
				if _, ok := la.order[e]; !ok {
					la.order[e] = orderWitness{ci.Pos(), fn}
				}
			}
		}
		return
	}
	if _, isGo := ci.(*ssa.Go); isGo {
		for _, callee := range la.e.Callees(ci) {
			la.goTargets[callee] = append(la.goTargets[callee], root)
		}
		return
	}
	callHeld := held
	if _, isDefer := ci.(*ssa.Defer); isDefer {
		callHeld = intersect(held, fi.exitHeldWithDeferred(fn))
	}
	if b, ok := c.Value.(*ssa.Builtin); ok {
		switch b.Name() {
		case "append":
			if len(c.Args) > 0 {
				if loc, ok := la.origin(c.Args[0], 0); ok {
					acc(ci, loc, true, "content", callHeld)
				}
			}
			if len(c.Args) > 1 {
				if loc, ok := la.origin(c.Args[1], 0); ok {
					acc(ci, loc, false, "content", callHeld)
				}
			}
		case "copy":
			if loc, ok := la.origin(c.Args[0], 0); ok {
				acc(ci, loc, true, "content", callHeld)
			}
			if loc, ok := la.origin(c.Args[1], 0); ok {
				acc(ci, loc, false, "content", callHeld)
			}
		case "delete":
			if loc, ok := la.origin(c.Args[0], 0); ok {
				acc(ci, loc, true, "content", callHeld)
			}
		case "len":
			if _, isMap := c.Args[0].Type().Underlying().(*types.Map); isMap {
				if loc, ok := la.origin(c.Args[0], 0); ok {
					acc(ci, loc, false, "content", callHeld)
				}
			}
		}
		return
	}
	name := cname(ci)
	if rd, wr := extEffect(name); (rd || wr) && len(c.Args) > 0 {
		if loc, ok := la.origin(c.Args[0], 0); ok {
			acc(ci, loc, wr, "ext", callHeld)
		}
	}
	callees := la.e.Callees(ci)
	external := true
	for _, callee := range callees {
		if callee.Blocks == nil || !la.e.InModule(callee) {
			continue
		}
		external = false
		// content effects through slice/map arguments
		fx := la.paramContentFx(callee)
		args := c.Args
		off := 0
		if c.IsInvoke() {
			off = 1
		}
		for i, a := range args {
			if i+off >= len(fx) || fx[i+off] == 0 {
				continue
			}
			if loc, ok := la.origin(a, 0); ok {
				if fx[i+off]&2 != 0 {
					acc(ci, loc, true, "content", callHeld)
				} else {
					acc(ci, loc, false, "content", callHeld)
				}
			}
		}
		la.Walk(root, callee, callHeld)
	}
	if external || len(callees) == 0 {
		// slices handed to code outside the module: the callee reads their
		// contents, and the known fillers (ReadAt, Read, io.ReadFull,
		// binary.Put*) write them
		for i, a := range c.Args {
			if _, isSlice := a.Type().Underlying().(*types.Slice); !isSlice {
				continue
			}
			if loc, ok := la.origin(a, 0); ok {
				acc(ci, loc, extWritesArg(name, i), "content", callHeld)
			}
		}
		// function values passed to code outside the module are assumed to
		// be called synchronously with the current lockset
		for _, a := range c.Args {
			switch x := a.(type) {
			case *ssa.MakeClosure:
				if f, ok := x.Fn.(*ssa.Function); ok {
					la.Walk(root, f, callHeld)
				}
			case *ssa.Function:
				if la.e.InModule(x) {
					la.Walk(root, x, callHeld)
				}
			}
		}
	}
}

// exitHeldWithDeferred: locks held at every return including those released
// only by deferred unlocks (a deferred call registered after a deferred
// unlock runs before it, i.e. with the lock still held).
func (fi *funcLockInfo) exitHeldWithDeferred(fn *ssa.Function) LockSet {
	var out LockSet
	first := true
	for _, b := range fn.Blocks {
		if _, ok := fi.in[b]; !ok {
			continue
		}
		for _, in := range b.Instrs {
			if _, ok := in.(*ssa.Return); ok {
				if first {
					out = fi.at[in].clone()
					first = false
				} else {
					out = intersect(out, fi.at[in])
				}
			}
		}
	}
	if out == nil {
		out = LockSet{}
	}
	return out
}

// ---------------------------------------------------------------------------
// race detection over the collected accesses

type Race struct {
	Loc  string
	A, B Access
}

func protects(a, b LockSet) bool {
	for l, ma := range a {
		if strings.HasPrefix(l, "local:") {
			continue
		}
		if mb, ok := b[l]; ok && (ma == modeW || mb == modeW) {
			return true
		}
	}
	return false
}

func (la *LockAnalysis) Races(roots []ThreadRoot) []Race {
	self := map[string]bool{}
	for _, r := range roots {
		self[r.Name] = r.SelfConcurrent
	}
	byLoc := map[string][]Access{}
	for _, a := range la.accesses {
		byLoc[a.Loc] = append(byLoc[a.Loc], a)
	}
	var locs []string
	for l := range byLoc {
		locs = append(locs, l)
	}
	sort.Strings(locs)
	var out []Race
	seen := map[string]bool{}
	for _, loc := range locs {
		as := byLoc[loc]
		for i := 0; i < len(as); i++ {
			for j := i; j < len(as); j++ {
				a, b := as[i], as[j]
				if !a.Write && !b.Write {
					continue
				}
				if a.Root == b.Root && !self[a.Root] {
					continue
				}
				if protects(a.Held, b.Held) {
					continue
				}
				k := raceKey(loc, a, b)
				if seen[k] {
					continue
				}
				seen[k] = true
				out = append(out, Race{loc, a, b})
			}
		}
	}
	return out
}

func rw(w bool) string {
	if w {
		return "W"
	}
	return "R"
}

func raceKey(loc string, a, b Access) string {
	x := rw(a.Write) + "@" + shortFunc(a.Fn)
	y := rw(b.Write) + "@" + shortFunc(b.Fn)
	if x > y {
		x, y = y, x
	}
	return loc + "/" + x + "/" + y
}

// OrderCycles returns lock-order cycles in the acquired-while-holding relation.
func (la *LockAnalysis) OrderCycles() [][]string {
	adj := map[string][]string{}
	for e := range la.order {
		adj[e[0]] = append(adj[e[0]], e[1])
	}
	for k := range adj {
		sort.Strings(adj[k])
	}
	var nodes []string
	for k := range adj {
		nodes = append(nodes, k)
	}
	sort.Strings(nodes)
	var cycles [][]string
	color := map[string]int{}
	var stack []string
	var dfs func(n string)
	dfs = func(n string) {
		color[n] = 1
		stack = append(stack, n)
		for _, m := range adj[n] {
			if color[m] == 1 {
				// cycle: from m to n
				var cyc []string
				for i := len(stack) - 1; i >= 0; i-- {
					cyc = append([]string{stack[i]}, cyc...)
					if stack[i] == m {
						break
					}
				}
				cycles = append(cycles, cyc)
			} else if color[m] == 0 {
				dfs(m)
			}
		}
		stack = stack[:len(stack)-1]
		color[n] = 2
	}
	for _, n := range nodes {
		if color[n] == 0 {
			dfs(n)
		}
	}
	return cycles
}
