package main

import (
	"fmt"
	"go/token"
	"strings"

	"golang.org/x/tools/go/ssa"
)

// Rules added after the fifth round of independently seeded changes.

// R-CANCEL-IS-NOT-COMPLETION: a function that polls its context inside a loop
// must not treat "cancelled / out of time" like "finished": from the edge on
// which ctx.Err() is non-nil no successful (nil-error) return is reachable.
// Otherwise the caller goes on to the step that is only safe after a complete
// pass (remove the hand-over file, swap the half-built index in, truncate).
func ruleCancelNotCompletion(r *Report) {
	const rule = "cancel-not-completion"
	n := 0
	for _, fn := range moduleFuncs(r.E) {
		if errResultIndex(fn) < 0 {
			continue
		}
		succ, _ := classifyReturns(fn)
		var nilSucc []ssa.Instruction
		for _, s := range succ {
			if isNilConst(retVal(s, errResultIndex(fn))) {
				nilSucc = append(nilSucc, s)
			}
		}
		if len(nilSucc) == 0 {
			continue
		}
		edges := condEdges(fn, func(cond ssa.Value) (bool, bool) {
			bo, ok := cond.(*ssa.BinOp)
			if !ok || (bo.Op != token.NEQ && bo.Op != token.EQL) {
				return false, false
			}
			isCtxErr := func(v ssa.Value) bool {
				c, ok := v.(*ssa.Call)
				return ok && cname(c) == "(context.Context).Err"
			}
			if !(isCtxErr(bo.X) && isNilConst(bo.Y)) && !(isCtxErr(bo.Y) && isNilConst(bo.X)) {
				return false, false
			}
			if bo.Op == token.NEQ {
				return true, false
			}
			return false, true
		})
		for _, ed := range edges {
			ed := ed
			n++
			reach, path := Search{Fn: fn, FromEdge: &ed, Target: anyOf(instrSet(nilSucc))}.Run()
			key := shortFunc(fn) + "/ctx.Err"
			if reach {
				r.BadPath(rule, key, instrPos(lastInstr(ed.From)), "after the context was found cancelled or out of time the function can still return success: the caller treats a partial pass as a complete one (the unread rest of the freelist is dropped with its file, a half-built index is swapped in, records not yet examined are cut off)", path)
			} else {
				r.Ok(rule, key, instrPos(lastInstr(ed.From)), "a cancelled context never leads to a successful return")
			}
		}
	}
	if n < 8 {
		r.Bad(rule, "inventory", token.NoPos, fmt.Sprintf("found %d ctx.Err() tests in error-returning functions, expected at least 8", n))
	}
	r.Min(rule, 8)
}

// R-LIMIT-COMPONENT: the index and the primary each have their own file-size
// limit. A value that is the primary's limit never reaches a parameter that
// decodes or encodes INDEX positions, and vice versa (the two are equal by
// default, which is why tests do not notice).
func ruleLimitComponent(r *Report) {
	const rule = "limit-component"
	e := r.E
	comp := map[*ssa.Parameter]string{}
	seed := func(alias, name string, idx int, c string) {
		if f := e.Func(alias, name); f != nil && idx < len(f.Params) {
			comp[f.Params[idx]] = c
		}
	}
	seed("I", "localPosToBucketPos", 2, "index")
	seed("I", "bucketPosToFileNum", 1, "index")
	seed("I", "localizeBucketPos", 1, "index")
	seed("M", "absolutePrimaryPos", 2, "primary")
	seed("M", "primaryPosToFileNum", 1, "primary")
	seed("M", "localizePrimaryPos", 1, "primary")
	// propagate to callers' parameters that are passed straight through
	for changed := true; changed; {
		changed = false
		for _, fn := range moduleFuncs(e) {
			for _, c := range allCalls(fn) {
				callee := c.Common().StaticCallee()
				if callee == nil || callee.Blocks == nil {
					continue
				}
				for i, a := range c.Common().Args {
					if i >= len(callee.Params) {
						break
					}
					k, ok := comp[callee.Params[i]]
					if !ok {
						continue
					}
					if p, isP := stripConv(a).(*ssa.Parameter); isP && comp[p] == "" {
						comp[p] = k
						changed = true
					}
				}
			}
		}
	}
	var classSeen map[ssa.Value]bool
	var classOf func(v ssa.Value) string
	merge := func(a, b string) string {
		switch {
		case a == "":
			return b
		case b == "" || a == b:
			return a
		}
		return "mixed"
	}
	fieldClass := func(f string, at ssa.Value) string {
		switch f {
		case "Index.maxFileSize", "config.indexFileSize":
			return "index"
		case "MultihashPrimary.maxFileSize", "IndexRemapper.maxFileSize", "config.primaryFileSize", "Header.PrimaryFileSize":
			return "primary"
		case "Header.MaxFileSize":
			// index.Header vs mhprimary.Header: by the package of the access
			if in, ok := at.(ssa.Instruction); ok && in.Parent() != nil {
				if p := pkgOfFunc(in.Parent()); p != nil && strings.HasSuffix(p.Pkg.Path(), "/index") {
					return "index"
				}
				return "primary"
			}
		}
		return ""
	}
	// field-sensitive: a field access is classified by its own name and not followed further
	classOf = func(v ssa.Value) string {
		if classSeen[v] {
			return ""
		}
		classSeen[v] = true
		switch x := v.(type) {
		case *ssa.Convert:
			return classOf(x.X)
		case *ssa.ChangeType:
			return classOf(x.X)
		case *ssa.Phi:
			out := ""
			for _, ed := range x.Edges {
				out = merge(out, classOf(ed))
			}
			return out
		case *ssa.Parameter:
			return comp[x]
		case *ssa.Field, *ssa.UnOp:
			if f := fieldOfLoad(v); f != "" {
				return fieldClass(f, v)
			}
			if u, ok := v.(*ssa.UnOp); ok && u.Op == token.MUL {
				// local variable cell: the values stored into it
				if al, ok := u.X.(*ssa.Alloc); ok && al.Referrers() != nil {
					out := ""
					for _, ref := range *al.Referrers() {
						if st, ok := ref.(*ssa.Store); ok && st.Addr == ssa.Value(al) {
							out = merge(out, classOf(st.Val))
						}
					}
					return out
				}
			}
		case *ssa.Call:
			switch cname(x) {
			case "(*mhprimary.MultihashPrimary).FileSize", "(*mhprimary.IndexRemapper).FileSize":
				return "primary"
			}
		case *ssa.Extract:
			return classOf(x.Tuple)
		}
		return ""
	}
	classify := func(v ssa.Value) string {
		classSeen = map[ssa.Value]bool{}
		return classOf(v)
	}
	n := 0
	for _, fn := range moduleFuncs(e) {
		for _, c := range allCalls(fn) {
			callee := c.Common().StaticCallee()
			if callee == nil || callee.Blocks == nil {
				continue
			}
			for i, a := range c.Common().Args {
				if i >= len(callee.Params) {
					break
				}
				want, ok := comp[callee.Params[i]]
				if !ok {
					continue
				}
				n++
				got := classify(a)
				key := shortFunc(fn) + "/" + cname(c) + fmt.Sprintf("/arg%d", i)
				if got == "" || got == want {
					r.Ok(rule, key, c.Pos(), "the "+want+" file-size limit (or an unclassified value) is passed to a "+want+" position function")
				} else {
					r.Bad(rule, key, c.Pos(), "a "+got+" file-size limit is passed where "+want+" positions are encoded/decoded: nothing changes while the two limits are equal (the defaults), but with different limits positions are attributed to the wrong file — reads fail or return another bucket's records")
				}
			}
		}
	}
	if n < 10 {
		r.Bad(rule, "inventory", token.NoPos, fmt.Sprintf("found %d limit arguments, expected at least 10", n))
	}
	r.Min(rule, 10)
}

// R-DATA-FILE-WRITERS: a component's data file is written through its bufio
// writer only; a direct write to the file bypasses what is still buffered and
// lands before it. And fixed-size records are read from a buffered reader with
// io.ReadFull, never with Read (which returns short at a buffer boundary).
func ruleDataFileWriters(r *Report) {
	const rule = "data-file-writers"
	fields := map[string]bool{"Index.file": true, "MultihashPrimary.file": true, "CIDPrimary.file": true, "FreeList.file": true}
	n := 0
	for _, fn := range moduleFuncs(r.E) {
		for _, c := range callSites(fn, "(*os.File).Write", "(*os.File).WriteString", "(*os.File).WriteAt") {
			recv := c.Common().Args[0]
			f := fieldOfLoad(recv)
			if !fields[f] {
				continue
			}
			n++
			r.Bad(rule, shortFunc(fn)+"/"+cname(c), c.Pos(), "the component's data file ("+f+") is written directly, bypassing its bufio writer: bytes still buffered (size prefix, key, earlier records) reach the file AFTER this write, so records are recorded at positions that hold other bytes")
		}
		for _, c := range callSites(fn, "(*bufio.Reader).Read", "(io.Reader).Read") {
			n++
			r.Bad(rule, shortFunc(fn)+"/"+cname(c), c.Pos(), "a record is read with Read instead of io.ReadFull: a buffered reader returns short at its buffer boundary, the record is decoded from a partial read and every later record is decoded misaligned")
		}
	}
	if n == 0 {
		r.Ok(rule, "no-direct-writes-or-short-reads", token.NoPos, "no direct write to a component data file and no Read of a record in the module")
	}
	// positive instances: the writers and the full reads that exist
	k := 0
	for _, fn := range moduleFuncs(r.E) {
		k += len(callSites(fn, "(*bufio.Writer).Write")) + len(callSites(fn, "io.ReadFull"))
	}
	r.Check(k >= 8, rule, "inventory", token.NoPos, fmt.Sprintf("%d buffered writes / full reads found", k), fmt.Sprintf("only %d buffered writes / full reads found, expected at least 8", k))
	r.Min(rule, 2)
}

// R-FLUSH-ACK: Store.Flush reports success only after commit() succeeded or
// after it found that no component has outstanding work; the "outstanding
// work" test looks at every component that Put/Remove feed (index and primary).
func ruleFlushAck(r *Report) {
	const rule = "flush-ack"
	fn := r.need(rule, "S", "(*Store).Flush")
	if fn == nil {
		return
	}
	var ev []Edge
	for _, c := range callSites(fn, "(*store.Store).commit") {
		if cc := asCall(c); cc != nil {
			ev = append(ev, successEdges(cc)...)
		}
	}
	for _, c := range callSites(fn, "(*store.Store).outstandingWork") {
		if cc := asCall(c); cc != nil {
			ev = append(ev, boolEdges(fn, cc, false)...)
		}
	}
	succ, _ := classifyReturns(fn)
	for _, ret := range succ {
		ok, path := guarded(fn, ret, mkEdgeSet(ev), nil)
		if ok && len(ev) > 0 {
			r.Ok(rule, "Store.Flush/success", ret.Pos(), "success only after commit() succeeded or nothing was outstanding")
		} else {
			r.BadPath(rule, "Store.Flush/success", ret.Pos(), "Flush can report success without commit() having succeeded and without having found that nothing is outstanding (e.g. because another flush is running): the caller believes acknowledged Puts are on disk — a crash right after loses them", path)
		}
	}
	if ow := r.need(rule, "S", "(*Store).outstandingWork"); ow != nil {
		need := map[string]bool{"(*index.Index).OutstandingWork": false, "(primary.PrimaryStorage).OutstandingWork": false}
		for _, ret := range returnsOf(ow) {
			for name := range need {
				if derives(retVal(ret, 0), flowOpts{Arith: true}, isCallTo(name)) {
					need[name] = true
				}
			}
		}
		for name, ok := range need {
			r.Check(ok, rule, "Store.outstandingWork/"+name, ow.Pos(), "the component's outstanding work counts", "the 'anything to flush?' test ignores "+name+": a batch that only touches that component (e.g. removals, which change the index but not the primary) is acknowledged by Flush without being written — after a crash the removed key is back")
		}
	}
	r.Min(rule, 3) // at least one successful return of Flush and the two components of outstandingWork
}

// R-HEADER-RENAMES: who may rename a file onto a header path: writeHeader (temp
// + rename) and MoveFiles. Anything else "completing" a header update from a
// left-over temporary adopts a torn file.
func ruleHeaderRenames(r *Report) {
	const rule = "header-renames"
	allowed := map[string]bool{"index.writeHeader": true, "mhprimary.writeHeader": true, "index.MoveFiles": true}
	n := 0
	for _, fn := range moduleFuncs(r.E) {
		for _, c := range callSites(fn, "os.Rename") {
			dst := c.Common().Args[1]
			isHeader := derives(dst, flowOpts{}, func(v ssa.Value) bool {
				if isCallTo("index.headerName", "mhprimary.headerName")(v) {
					return true
				}
				if p, ok := v.(*ssa.Parameter); ok && strings.Contains(strings.ToLower(p.Name()), "header") {
					return true
				}
				switch fieldOfLoad(v) {
				case "Index.headerPath", "MultihashPrimary.headerPath":
					return true
				}
				return false
			})
			if !isHeader && !allowed[shortFunc(fn)] {
				continue
			}
			n++
			ok := onlyCalledFrom(fn, func(f *ssa.Function) bool { return allowed[shortFunc(f)] })
			r.Check(ok, rule, shortFunc(fn)+"/os.Rename", c.Pos(), "header replaced by its writer (temp + rename) or moved with its index",
				"a file is renamed onto a header path outside writeHeader/MoveFiles: a temporary left by a crash inside writeHeader is torn or empty — adopting it replaces the good header and every later open fails")
		}
	}
	if n < 3 {
		r.Bad(rule, "inventory", token.NoPos, fmt.Sprintf("found %d renames onto header paths, expected at least 3", n))
	}
	r.Min(rule, 3)
}

// R-POOL-READERS: every function that looks a bucket/record up in one of the
// two in-memory pools consults both (the flushed-last pool alone misses what
// Put/Update/Remove — and GC relocation — wrote since).
func rulePoolReaders(r *Report) {
	const rule = "pool-readers"
	type comp struct{ typ, reader string }
	n := 0
	for _, c := range []comp{{"Index", "(*index.Index).readCached"}, {"MultihashPrimary", "(*mhprimary.MultihashPrimary).getCached"}, {"CIDPrimary", "(*cidprimary.CIDPrimary).getCached"}} {
		for _, fn := range moduleFuncs(r.E) {
			cur, next := 0, 0
			eachInstr(fn, func(in ssa.Instruction) {
				if cl, isCall := in.(*ssa.Call); isCall {
					// a lookup method of the pool type called on the pool field's value
					if f := cl.Call.StaticCallee(); f != nil && f.Blocks != nil && len(cl.Call.Args) > 0 && len(f.Params) > 0 {
						looksUp := false
						eachInstr(f, func(x ssa.Instruction) {
							if lk, ok := x.(*ssa.Lookup); ok && derives(lk.X, flowOpts{}, func(v ssa.Value) bool { return v == ssa.Value(f.Params[0]) }) {
								looksUp = true
							}
						})
						if looksUp {
							switch fieldOfLoad(cl.Call.Args[0]) {
							case c.typ + ".curPool":
								cur++
							case c.typ + ".nextPool":
								next++
							}
						}
					}
					return
				}
				lk, ok := in.(*ssa.Lookup)
				if !ok {
					return
				}
				switch outerField(lk.X) {
				case c.typ + ".curPool":
					cur++
				case c.typ + ".nextPool":
					next++
				}
				switch fieldOfLoad(lk.X) {
				case c.typ + ".curPool":
					cur++
				case c.typ + ".nextPool":
					next++
				}
			})
			if cur+next == 0 {
				continue
			}
			n++
			r.Check(cur > 0 && next > 0, rule, shortFunc(fn)+"/"+c.typ, fn.Pos(), "looks in both pools",
				fmt.Sprintf("%s looks a key up in %s's pools but not in both (curPool %d, nextPool %d lookups): what was written since the last flush — or re-pointed by GC relocation, which never flushes — is invisible to it", shortFunc(fn), c.typ, cur, next))
		}
	}
	if n < 3 {
		r.Bad(rule, "inventory", token.NoPos, fmt.Sprintf("found %d pool readers, expected at least 3", n))
	}
	r.Min(rule, 3)
}

// R-FC-OPEN-RETURNS: the handle FileCache.Open hands out is either the file it
// just opened or the file of the entry found in the cache map under the
// requested name — never one remembered in another field — and the map is
// keyed by the name as given (the entry's file reports the same name back in
// Close and removeElement).
func ruleFCOpenReturns(r *Report) {
	const rule = "fc-open-returns"
	fn := r.need(rule, "FC", "(*FileCache).Open")
	if fn == nil {
		return
	}
	n := 0
	for _, ret := range returnsOf(fn) {
		v := retVal(ret, 0)
		if isNilConst(v) {
			continue
		}
		n++
		fromOther := ""
		derives(v, flowOpts{}, func(x ssa.Value) bool {
			if f := fieldOfLoad(x); strings.HasPrefix(f, "FileCache.") && f != "FileCache.cache" && f != "FileCache.openFlag" && f != "FileCache.openPerm" {
				fromOther = f
			}
			return false
		})
		r.Check(fromOther == "", rule, "FileCache.Open/returned-handle", ret.Pos(), "the returned handle comes from os.OpenFile or from the cache map entry",
			"the handle returned by Open is taken from "+fromOther+", not from the cache map or a fresh open: after Clear or a resize the remembered handle is orphaned (already closed, or closed by another holder) yet handed out again")
	}
	// keys of the cache map: the name parameter or file.Name(), unmodified
	pkg := pkgOfFunc(fn)
	for _, m := range moduleFuncs(r.E) {
		if pkgOfFunc(m) != pkg {
			continue
		}
		check := func(in ssa.Instruction, key ssa.Value) {
			n++
			bad := ""
			derives(key, flowOpts{ThroughAllCalls: true}, func(x ssa.Value) bool {
				if c, ok := x.(*ssa.Call); ok {
					switch cname(c) {
					case "(*os.File).Name":
					default:
						bad = cname(c)
					}
				}
				return false
			})
			r.Check(bad == "", rule, shortFunc(m)+"/cache-key", in.Pos(), "the cache is keyed by the name as given / as the file reports it",
				"the cache map is keyed by a transformed name ("+bad+") here while other operations use the name as the file reports it: an entry is inserted under one key and looked up, decremented and removed under another — Close closes a descriptor whose entry stays cached, later Opens get a closed handle")
		}
		eachInstr(m, func(in ssa.Instruction) {
			switch x := in.(type) {
			case *ssa.Lookup:
				if fieldOfLoad(x.X) == "FileCache.cache" {
					check(in, x.Index)
				}
			case *ssa.MapUpdate:
				if fieldOfLoad(x.Map) == "FileCache.cache" {
					check(in, x.Key)
				}
			}
		})
	}
	r.Min(rule, 4)
	_ = n
}

// R-TRANSLATE-COMPLETES and friends: small completion obligations.
func ruleCompletion(r *Report) {
	const rule = "completion"
	// translateIndex: every successful return is behind both file swaps
	if fn := r.need(rule, "S", "translateIndex"); fn != nil {
		moves := callSites(fn, "index.MoveFiles")
		succ, _ := classifyReturns(fn)
		for _, ret := range succ {
			okAll := len(moves) >= 2
			var bad []*ssa.BasicBlock
			for _, m := range moves {
				if ok, p := precededBy(fn, ret, map[ssa.Instruction]bool{m: true}, nil); !ok {
					okAll, bad = false, p
				}
			}
			if okAll {
				r.Ok(rule, "translateIndex/success-after-swap", ret.Pos(), "success only after the old index was moved out and the new one in")
			} else {
				r.BadPath(rule, "translateIndex/success-after-swap", ret.Pos(), "translateIndex can succeed without swapping the index files (e.g. when the index has no live records): the header keeps the old bit size and the store can never be opened with the requested one", bad)
			}
		}
	}
	// index.Open: the drop list produced by remapIndex is flushed before Open returns
	if fn := r.need(rule, "I", "Open"); fn != nil {
		for _, st := range fieldStores(fn, "Index.nextPool") {
			if !derives(st.Val, flowOpts{}, isCallTo("index.remapIndex")) {
				continue
			}
			ok, path := followedBy(fn, st, nil, isCallNamed("(*index.Index).Flush"), nil)
			if ok {
				r.Ok(rule, "index.Open/remap-drop-list-flushed", instrPos(st), "the entries the remap could not re-point are written out before Open returns")
			} else {
				r.BadPath(rule, "index.Open/remap-drop-list-flushed", instrPos(st), "the list of entries whose primary data is gone is installed in the write pool but not flushed before Open returns, although the header already records the remap as complete: a crash before the first flush leaves those entries in the index pointing at offset 0", path)
			}
		}
	}
	// Store.Flush: nothing is synced after the waiters were woken
	if fn := r.need(rule, "S", "(*Store).Flush"); fn != nil {
		var notif []ssa.Instruction
		for _, g := range famFuncs(fn) {
			for _, c := range callSites(g, "builtin.close") {
				if fieldOfLoad(c.Common().Args[0]) == "Store.flushNotice" {
					notif = append(notif, c)
				}
			}
		}
		syncs := deepCallSites(fn, "(*index.Index).Sync", "(primary.PrimaryStorage).Sync", "(*freelist.FreeList).Sync", "(*store.Store).commit")
		bad := false
		for _, nf := range notif {
			for _, s := range syncs {
				if reach, _ := (Search{Fn: fn, From: nf, Target: isInstr(s)}).Run(); reach {
					bad = true
				}
			}
		}
		r.Check(!bad && len(notif) > 0, rule, "Store.Flush/notify-last", fn.Pos(), "waiting writers are woken after commit and sync",
			"commit/sync work can still happen after the waiting writers were woken: a rate-limited writer is released before the flush it waited for has completed (and is released even if the sync then fails)")
	}
	// scanIndex: the scan over the numbered files ends only where a file does not exist
	if fn := r.need(rule, "I", "scanIndex"); fn != nil {
		var notExist []Edge
		notExist = append(notExist, condEdges(fn, func(cond ssa.Value) (bool, bool) {
			if c, ok := cond.(*ssa.Call); ok && cname(c) == "os.IsNotExist" {
				return true, false
			}
			return false, false
		})...)
		succ, _ := classifyReturns(fn)
		for _, ret := range succ {
			ok, path := guarded(fn, ret, mkEdgeSet(notExist), nil)
			if ok && len(notExist) > 0 {
				r.Ok(rule, "scanIndex/ends-at-missing-file", ret.Pos(), "the rescan ends only where the next numbered file does not exist")
			} else {
				r.BadPath(rule, "scanIndex/ends-at-missing-file", ret.Pos(), "the rescan over the numbered index files can end for another reason than a missing file (e.g. an empty file): GC empties unreferenced middle files and keeps them, so everything stored in later files is lost when the snapshot is missing", path)
			}
		}
	}
	// scanIndexFile: the only size for which the scan is skipped is zero
	if fn := r.need(rule, "I", "scanIndexFile"); fn != nil {
		found := false
		for _, b := range fn.Blocks {
			ifi, ok := lastInstr(b).(*ssa.If)
			if !ok {
				continue
			}
			cond, _ := stripNot(ifi.Cond)
			bo, ok := cond.(*ssa.BinOp)
			if !ok {
				continue
			}
			isSize := func(v ssa.Value) bool {
				c, ok := stripIntConv(v).(*ssa.Call)
				return ok && strings.HasSuffix(cname(c), "FileInfo).Size")
			}
			var other ssa.Value
			switch {
			case isSize(bo.X):
				other = bo.Y
			case isSize(bo.Y):
				other = bo.X
			default:
				continue
			}
			found = true
			k, isC := intConst(stripIntConv(other))
			okCmp := isC && ((bo.Op == token.EQL && k == 0) || (bo.Op == token.NEQ && k == 0) || (bo.Op == token.LEQ && k == 0) || (bo.Op == token.LSS && k == 1) || (bo.Op == token.GTR && k == 0))
			r.Check(okCmp, rule, "scanIndexFile/skip-only-empty", instrPos(ifi), "the scan is skipped only for an empty file",
				fmt.Sprintf("the rescan is skipped for files of size [%s %d]: a fresh file holding 1–3 torn bytes of its first size prefix is neither scanned nor truncated, later appends follow the stray bytes and the next rescan misparses the file", bo.Op, k))
		}
		if !found {
			r.Ok(rule, "scanIndexFile/skip-only-empty", fn.Pos(), "no size shortcut")
		}
	}
	r.Min(rule, 5)
}

// R-STICKY-ERROR: the store's recorded error is sticky: Store.err is only ever
// assigned a value known to be non-nil (a later successful or idle flush must
// not clear what a failed flush recorded — Close would report success although
// the failed flush dropped its pools).
func ruleStickyError(r *Report) {
	const rule = "sticky-error"
	n := 0
	for _, fn := range moduleFuncs(r.E) {
		for _, st := range fieldStoresRaw(fn, "Store.err") {
			n++
			v := st.Val
			if p, isP := v.(*ssa.Parameter); isP {
				// setter: every call passes a value behind its own failure edge
				idx := paramIndex(p)
				okAll := len(staticCallers[fn]) > 0
				for _, c := range staticCallers[fn] {
					if idx >= len(c.Call.Args) {
						okAll = false
						continue
					}
					if !knownNonNilAt(c.Call.Args[idx], c) {
						okAll = false
						r.Bad(rule, shortFunc(c.Parent())+"/"+shortFunc(fn), c.Pos(), "the store's sticky error is assigned a value that may be nil: the next successful or idle flush clears the error a failed flush recorded, Close then returns nil although acknowledged data was dropped")
					}
				}
				if okAll {
					r.Ok(rule, shortFunc(fn)+"/Store.err", instrPos(st), "every caller passes an error behind its non-nil test")
				}
				continue
			}
			r.Check(knownNonNilAt(v, st) || isNilConst(v) && strings.Contains(shortFunc(fn), "Open"), rule, shortFunc(fn)+"/Store.err", instrPos(st), "assigned a non-nil error", "Store.err is assigned a value that may be nil")
		}
	}
	if n == 0 {
		r.Bad(rule, "inventory", token.NoPos, "no assignment to Store.err found")
	}
	r.Min(rule, 1)
}

// R-FLUSH-ERROR-RETURNED: a component's Close returns the error of its final
// Flush (a failed final flush means acknowledged data was not written).
func ruleFlushErrorReturned(r *Report) {
	const rule = "flush-error-returned"
	for _, c := range []struct{ alias, typ, flush string }{
		{"I", "Index", "(*index.Index).Flush"}, {"M", "MultihashPrimary", "(*mhprimary.MultihashPrimary).Flush"},
		{"Cd", "CIDPrimary", "(*cidprimary.CIDPrimary).Flush"}, {"F", "FreeList", "(*freelist.FreeList).Flush"},
	} {
		top := r.need(rule, c.alias, "(*"+c.typ+").Close")
		if top == nil {
			continue
		}
		found := false
		for _, f := range withAnons(top) {
			for _, fc := range callSites(f, c.flush) {
				call := asCall(fc)
				if call == nil {
					continue
				}
				found = true
				evs := errValues(call)
				// the error value (or a captured cell it is stored into) reaches a return of Close
				ok := false
				for _, ret := range returnsOf(top) {
					idx := errResultIndex(top)
					if idx < 0 {
						continue
					}
					if derives(retVal(ret, idx), flowOpts{}, func(x ssa.Value) bool { return evs[x] }) {
						ok = true
					}
				}
				// closure form: the error is stored into a variable of Close that Close returns
				if !ok && f != top {
					eachInstr(f, func(in ssa.Instruction) {
						st, isSt := in.(*ssa.Store)
						if !isSt || !evs[st.Val] {
							return
						}
						if fv, isFV := st.Addr.(*ssa.FreeVar); isFV {
							for i, v := range f.FreeVars {
								if v != fv {
									continue
								}
								// binding i of the MakeClosure in the parent
								eachInstr(f.Parent(), func(pin ssa.Instruction) {
									mc, isMC := pin.(*ssa.MakeClosure)
									if !isMC || mc.Fn != ssa.Value(f) || i >= len(mc.Bindings) {
										return
									}
									cell := mc.Bindings[i]
									for _, ret := range returnsOf(top) {
										if idx := errResultIndex(top); idx >= 0 {
											if u, isU := retVal(ret, idx).(*ssa.UnOp); isU && u.X == cell {
												ok = true
											}
										}
									}
								})
							}
						}
					})
				}
				r.Check(ok, rule, c.typ+".Close/final-flush-error", fc.Pos(), "the error of the final Flush is what Close returns",
					"the error of Close's final Flush does not reach Close's result (e.g. it is assigned to a shadowing variable): Close — and Store.Close — return nil although the last acknowledged data was not written")
			}
		}
		if !found {
			r.Bad(rule, c.typ+".Close/final-flush-error", top.Pos(), "Close does not call Flush")
		}
	}
	r.Min(rule, 4)
}

// R-ITER-ERRORS: an iterator does not skip what it cannot read: from the
// failure edge of a file open or read in an iterator's Next there is no way
// back into the loop and no successful return.
func ruleIterErrors(r *Report) {
	const rule = "iter-errors"
	// the bucket iterator: every bucket names a file that must exist (the raw file iterators end,
	// by design, at the first missing numbered file)
	for _, t := range [][2]string{{"I", "(*Iterator).Next"}} {
		fn := r.need(rule, t[0], t[1])
		if fn == nil {
			continue
		}
		succ, _ := classifyReturns(fn)
		n := 0
		for _, ci := range callSites(fn, "(*filecache.FileCache).Open", "(*os.File).ReadAt", "os.OpenFile", "index.openFileForScan", "io.ReadFull") {
			c := asCall(ci)
			if c == nil {
				continue
			}
			for _, fe := range failureEdges(c) {
				fe := fe
				n++
				// EOF is the regular end of a file / of the iteration
				avoid := mkEdgeSet(eofEdgesOf(fn, c))
				again, p1 := Search{Fn: fn, FromEdge: &fe, Target: isInstr(c), AvoidEdges: avoid}.Run()
				okRet, p2 := Search{Fn: fn, FromEdge: &fe, Target: anyOf(instrSet(succ)), AvoidEdges: avoid}.Run()
				key := shortFunc(fn) + "/" + cname(ci)
				switch {
				case again:
					r.BadPath(rule, key, ci.Pos(), "after this open/read failed (for a reason other than end of file) the iterator goes on to the next item: what it could not read is silently skipped — an interrupted re-bucketing retried over a half-moved index drops every bucket of the moved files", p1)
				case okRet:
					r.BadPath(rule, key, ci.Pos(), "after this open/read failed (for a reason other than end of file) the iterator can report success", p2)
				default:
					r.Ok(rule, key, ci.Pos(), "a failed open/read ends the iteration with an error")
				}
			}
		}
		if n == 0 {
			r.Ok(rule, shortFunc(fn)+"/no-fallible-io", fn.Pos(), "no open/read with a tested error")
		}
	}
	r.Min(rule, 1)
}

// R-LIST-ALIAS: bytes that belong to a published record list are never
// appended to or tested for "emptiness" as a cache miss: a Record's Key is a
// sub-slice of the list (append would overwrite the following record), and an
// empty cached list is a hit (the bucket was emptied), not a miss.
func ruleListAlias(r *Report) {
	const rule = "list-alias"
	n := 0
	for _, fn := range moduleFuncs(r.E) {
		p := pkgOfFunc(fn)
		if p == nil || !strings.HasSuffix(p.Pkg.Path(), "/store/index") {
			continue
		}
		for _, c := range callSites(fn, "builtin.append") {
			a0 := c.Common().Args[0]
			alias := derives(a0, flowOpts{}, func(x ssa.Value) bool {
				switch fieldOfLoad(x) {
				case "Record.Key", "KeyPositionPair.Key", "Record.KeyPositionPair":
					return true
				}
				return false
			})
			if !alias {
				continue
			}
			n++
			r.Bad(rule, shortFunc(fn)+"/append-to-record-key", c.Pos(), "append to a record's Key: the key is a sub-slice of the bucket's record list, so the appended bytes overwrite the beginning (the primary location) of the record that follows it — an insert corrupts the location of an unrelated key in the same bucket")
		}
		// len(cached) == 0 / != 0 on the result of a cache read
		eachInstr(fn, func(in ssa.Instruction) {
			bo, ok := in.(*ssa.BinOp)
			if !ok || (bo.Op != token.EQL && bo.Op != token.NEQ && bo.Op != token.GTR && bo.Op != token.LEQ) {
				return
			}
			isLenOfCached := func(v ssa.Value) bool {
				c, ok := v.(*ssa.Call)
				if !ok || cname(c) != "builtin.len" {
					return false
				}
				return derives(c.Call.Args[0], flowOpts{}, isCallTo("(*index.Index).readCached", "(*index.Index).readBucketInfo"))
			}
			if (isLenOfCached(bo.X) && isZeroConst(bo.Y)) || (isLenOfCached(bo.Y) && isZeroConst(bo.X)) {
				n++
				r.Bad(rule, shortFunc(fn)+"/empty-cached-list-is-a-hit", bo.Pos(), "the length of a cached record list decides between hit and miss: an EMPTY cached list means the bucket's last key was removed; treating it as a miss reads the stale on-disk list, so removed keys resolve to their old location until the next flush")
			}
		})
	}
	if n == 0 {
		r.Ok(rule, "no-append-to-list-bytes", token.NoPos, "no append to a record key and no length test on a cached list in package index")
	}
	r.Min(rule, 1)
}

// R-PUT-SECTION: the primary's Put reserves a position and appends the record
// to the write pool in ONE exclusive poolLk section. The pool is written in
// append order at consecutive positions, so if two writers can interleave
// between "reserve" and "append", records land at each other's positions.
func rulePutSection(r *Report) {
	const rule = "put-section"
	fn := r.need(rule, "M", "(*MultihashPrimary).Put")
	if fn == nil {
		return
	}
	const lk = "mhprimary.MultihashPrimary.poolLk"
	var reserve []*ssa.Store
	for _, g := range scopeOf(fn) {
		reserve = append(reserve, fieldStoresRaw(g, "MultihashPrimary.recPos")...)
	}
	var appends []ssa.Instruction
	for _, g := range scopeOf(fn) {
		eachInstr(g, func(in ssa.Instruction) {
			if st, ok := in.(*ssa.Store); ok {
				if fa, ok := st.Addr.(*ssa.FieldAddr); ok && fieldName(fa.X.Type(), fa.Field) == "blockPool.blocks" {
					appends = append(appends, in)
				}
			}
		})
	}
	if len(reserve) == 0 || len(appends) == 0 {
		r.Bad(rule, "MultihashPrimary.Put/reserve-and-append", fn.Pos(), fmt.Sprintf("found %d position reservations and %d pool appends in Put", len(reserve), len(appends)))
		return
	}
	fi := lockFlow(fn, LockSet{})
	unl := unlocksOf(fn, lk)
	for _, g := range scopeOf(fn)[1:] {
		unl = append(unl, unlocksOf(g, lk)...)
	}
	for _, ap := range appends {
		ok := fi.at[ap][lk] == modeW
		why := "the pool append is not under poolLk"
		for _, rs := range reserve {
			if fi.at[rs][lk] != modeW {
				ok, why = false, "the position is reserved without poolLk"
			}
			// reserved in a helper that takes (and therefore releases) the lock itself
			if rs.Parent() != ap.Parent() {
				for _, c := range allCalls(rs.Parent()) {
					if _, id, isLk := lockOp(c); isLk && id == lk {
						ok, why = false, "the position is reserved in a helper that takes and releases poolLk on its own, before the caller takes it again to append"
					}
				}
			}
			// no unlock on any path from the reservation to the append
			for _, u := range unl {
				if _, isDefer := u.(*ssa.Defer); isDefer {
					continue
				}
				r1, _ := Search{Fn: fn, From: rs, Target: isInstr(u), Avoid: isInstr(ap)}.Run()
				r2, _ := Search{Fn: fn, From: u, Target: isInstr(ap)}.Run()
				if r1 && r2 {
					ok, why = false, "poolLk is released between reserving the position and appending the record"
				}
			}
		}
		r.Check(ok, rule, "MultihashPrimary.Put/reserve-and-append", instrPos(ap), "position reservation and pool append share one exclusive poolLk section",
			why+": concurrent writers (or a writer and a pool swap) enter the pool in a different order than their reserved positions — Flush writes records at offsets the index attributes to other keys; once the pools rotate out those keys read as absent and their entries are deleted as bad")
	}
	r.Min(rule, 1)
}

// R-BUCKETS-BOUNDS: Buckets.Put/Get reject exactly the indexes >= len(b).
func ruleBucketsBounds(r *Report) {
	const rule = "buckets-bounds"
	for _, name := range []string{"(Buckets).Put", "(Buckets).Get"} {
		fn := r.need(rule, "I", name)
		if fn == nil {
			continue
		}
		env := linEnv{Canon: func(v ssa.Value) (string, bool) {
			if c, ok := v.(*ssa.Call); ok && cname(c) == "builtin.len" {
				return "LEN", true
			}
			if len(fn.Params) > 1 && v == ssa.Value(fn.Params[1]) {
				return "IDX", true
			}
			return "", false
		}}
		found := false
		for _, b := range fn.Blocks {
			ifi, ok := lastInstr(b).(*ssa.If)
			if !ok {
				continue
			}
			cond, neg := stripNot(ifi.Cond)
			bo, ok := cond.(*ssa.BinOp)
			if !ok {
				continue
			}
			op, l, rr, ok := cmpNorm(env, bo)
			if !ok {
				continue
			}
			d := l.add(rr, -1) // l op r  <=>  d op 0
			if d.T["IDX"] == 0 || d.T["LEN"] == 0 {
				continue
			}
			found = true
			// which edge is the rejection (returns ErrOutOfBounds)? the one that reaches a failure return
			_, fails := classifyReturns(fn)
			tIdx := 0
			if neg {
				tIdx = 1
			}
			rejectOnTrue := false
			for _, f := range fails {
				if g, _ := guarded(fn, f, edgeSet{Edge{b, tIdx}: true}, nil); g {
					rejectOnTrue = true
				}
			}
			// normalise to: reject iff IDX - LEN + k >= 0 ... exact iff k == 0
			// d = s*(IDX - LEN) + c with s = ±1
			s := d.T["IDX"]
			c := d.C
			okForm := false
			if s == 1 && d.T["LEN"] == -1 {
				// IDX - LEN + c op 0 rejects on true
				switch op {
				case ">":
					okForm = rejectOnTrue && c == 1
				case ">=":
					okForm = rejectOnTrue && c == 0
				case "<":
					okForm = !rejectOnTrue && c == 0
				case "<=":
					okForm = !rejectOnTrue && c == 1
				}
			} else if s == -1 && d.T["LEN"] == 1 {
				// LEN - IDX + c op 0
				switch op {
				case "<":
					okForm = rejectOnTrue && c == -1
				case "<=":
					okForm = rejectOnTrue && c == 0
				case ">":
					okForm = !rejectOnTrue && c == 0
				case ">=":
					okForm = !rejectOnTrue && c == -1
				}
			}
			r.Check(okForm, rule, name+"/rejects-exactly-out-of-range", instrPos(ifi), "rejects exactly index >= len",
				fmt.Sprintf("the bounds test [%s %s 0, reject on true: %v] does not reject exactly the indexes >= len: the last bucket (digests starting ff ff ff) is refused — its keys are served from the pool until the next flush fails at the bucket-table update and every later call errors", d, op, rejectOnTrue))
		}
		if !found {
			r.Bad(rule, name+"/rejects-exactly-out-of-range", fn.Pos(), "no bounds test found")
		}
	}
	r.Min(rule, 2)
}

// R-REAP-TRUE-MEANS-EMPTY: a reap function answers "this file is empty now"
// only where the whole file was free (truncated at offset 0, or size 0): the
// caller removes the file and moves the header past it on that answer.
func ruleReapTrueMeansEmpty(r *Report) {
	const rule = "reap-true-means-empty"
	for _, t := range [][2]string{{"I", "(*Index).reapIndexRecords"}, {"M", "(*primaryGC).reapRecords"}} {
		fn := r.need(rule, t[0], t[1])
		if fn == nil {
			continue
		}
		// evidence: a comparison `x == 0` where x is the truncation offset or a file size
		var truncOffs []ssa.Value
		for _, c := range callSites(fn, "(*os.File).Truncate", "os.Truncate") {
			a := c.Common().Args
			truncOffs = append(truncOffs, stripIntConv(a[len(a)-1]))
		}
		ev := condEdges(fn, func(cond ssa.Value) (bool, bool) {
			bo, ok := cond.(*ssa.BinOp)
			if !ok || (bo.Op != token.EQL && bo.Op != token.NEQ) {
				return false, false
			}
			var x ssa.Value
			switch {
			case isZeroConst(bo.Y):
				x = stripIntConv(bo.X)
			case isZeroConst(bo.X):
				x = stripIntConv(bo.Y)
			default:
				return false, false
			}
			okX := false
			for _, tv := range truncOffs {
				if sameValue(x, tv) {
					okX = true
				}
			}
			if c, isCall := x.(*ssa.Call); isCall && strings.HasSuffix(cname(c), "FileInfo).Size") {
				okX = true
			}
			if !okX {
				return false, false
			}
			if bo.Op == token.EQL {
				return true, false
			}
			return false, true
		})
		n := 0
		for _, ret := range returnsOf(fn) {
			b, isC := boolConst(retVal(ret, 0))
			if isC && !b {
				continue
			}
			n++
			ok, path := guarded(fn, ret, mkEdgeSet(ev), nil)
			if ok && len(ev) > 0 && isC {
				r.Ok(rule, shortFunc(fn)+"/true", ret.Pos(), "reports 'empty' only where the file was cut at offset 0 or has size 0")
			} else {
				r.BadPath(rule, shortFunc(fn)+"/true", ret.Pos(), "the reap function can report the file as empty without having cut it at offset 0 (or found size 0): the collector removes the file and advances the header's first file although live records remain in it", path)
			}
		}
		if n == 0 {
			r.Bad(rule, shortFunc(fn)+"/true", fn.Pos(), "no 'empty' outcome found")
		}
	}
	r.Min(rule, 2)
}

// R-FLUSH-NOWORK: a component Flush takes the "nothing to do" exit only when
// the pool it would swap out is empty (len(nextPool) == 0) — not on the
// strength of a work counter that some writers of the pool do not maintain.
func ruleFlushNoWork(r *Report) {
	const rule = "flush-nowork"
	for _, c := range []struct{ alias, typ, pool string }{{"I", "Index", "Index.nextPool"}, {"M", "MultihashPrimary", "MultihashPrimary.nextPool"}, {"Cd", "CIDPrimary", "CIDPrimary.nextPool"}, {"F", "FreeList", "FreeList.blockPool"}} {
		fn := r.need(rule, c.alias, "(*"+c.typ+").Flush")
		if fn == nil {
			continue
		}
		ev := condEdges(fn, func(cond ssa.Value) (bool, bool) {
			bo, ok := cond.(*ssa.BinOp)
			if !ok || (bo.Op != token.EQL && bo.Op != token.NEQ) {
				return false, false
			}
			isLenPool := func(v ssa.Value) bool {
				call, ok := v.(*ssa.Call)
				if !ok || cname(call) != "builtin.len" {
					return false
				}
				a := call.Call.Args[0]
				return fieldOfLoad(a) == c.pool || outerField(a) == c.pool || derives(a, flowOpts{}, isFieldLoad(c.pool))
			}
			if !(isLenPool(bo.X) && isZeroConst(bo.Y)) && !(isLenPool(bo.Y) && isZeroConst(bo.X)) {
				return false, false
			}
			if bo.Op == token.EQL {
				return true, false
			}
			return false, true
		})
		// the swap: a store to the pool field; success returns that do not pass it are "no work" exits
		swaps := instrSet(fieldStores(fn, c.pool))
		succ, _ := classifyReturns(fn)
		n := 0
		for _, ret := range succ {
			early, _ := Search{Fn: fn, Target: isInstr(ret), Avoid: anyOf(swaps)}.Run()
			if !early {
				continue
			}
			n++
			// every way to this return that does not pass the swap passes the "pool is empty" edge
			reach, path := Search{Fn: fn, Target: isInstr(ret), Avoid: anyOf(swaps), AvoidEdges: expandFlagEdges(fn, mkEdgeSet(ev), nil)}.Run()
			ok := !reach
			if ok && len(ev) > 0 {
				r.Ok(rule, c.typ+".Flush/no-work-exit", ret.Pos(), "the early exit is taken only when the pool is empty")
			} else {
				r.BadPath(rule, c.typ+".Flush/no-work-exit", ret.Pos(), "Flush can take its 'nothing to do' exit although the pool may hold entries (the test is not len(pool) == 0): entries put into the pool by a path that does not maintain the work counter — the repaired record lists installed by the legacy upgrade — are never written", path)
			}
		}
		if n == 0 {
			r.Ok(rule, c.typ+".Flush/no-work-exit", fn.Pos(), "no early exit")
		}
	}
	r.Min(rule, 4)
}

// R-MARK-FILE-MATCHES: when the collector applies a batch of freelist entries
// it keeps one primary file open at a time; an entry that belongs to another
// file than the one currently open must lead to that file being opened before
// anything is written — otherwise the entry's local offset is applied to the
// wrong file and a live record of the same size there is marked deleted.
func ruleMarkFileMatches(r *Report) {
	const rule = "mark-file-matches"
	fn := r.need(rule, "M", "deleteRecords")
	if fn == nil {
		return
	}
	// this entry's file number: a result of localizePrimaryPos taken directly (the remembered
	// current file number is a loop-carried phi)
	isEntryFile := func(v ssa.Value) bool {
		ex, ok := stripIntConv(v).(*ssa.Extract)
		if !ok {
			return false
		}
		c, ok := ex.Tuple.(*ssa.Call)
		return ok && cname(c) == "mhprimary.localizePrimaryPos"
	}
	diff := condEdges(fn, func(cond ssa.Value) (bool, bool) {
		bo, ok := cond.(*ssa.BinOp)
		if !ok || (bo.Op != token.NEQ && bo.Op != token.EQL) {
			return false, false
		}
		_, xPhi := stripIntConv(bo.X).(*ssa.Phi)
		_, yPhi := stripIntConv(bo.Y).(*ssa.Phi)
		if !(isEntryFile(bo.X) && yPhi && !isEntryFile(bo.Y)) && !(isEntryFile(bo.Y) && xPhi && !isEntryFile(bo.X)) {
			return false, false
		}
		if bo.Op == token.NEQ {
			return true, false
		}
		return false, true
	})
	writes := callSites(fn, "(*os.File).WriteAt")
	if len(diff) == 0 || len(writes) == 0 {
		r.Bad(rule, "deleteRecords/file-switch", fn.Pos(), fmt.Sprintf("found %d 'entry belongs to another file' tests and %d writes", len(diff), len(writes)))
		return
	}
	for _, ed := range diff {
		ed := ed
		for _, w := range writes {
			reach, path := Search{Fn: fn, FromEdge: &ed, Target: isInstr(w), Avoid: isCallNamed("os.OpenFile")}.Run()
			if reach {
				r.BadPath(rule, "deleteRecords/file-switch", w.Pos(), "an entry that belongs to another primary file than the one currently open can reach the write without that file having been opened: its local offset is applied to the wrong file, marking a live record of the same size deleted (the key is lost)", path)
			} else {
				r.Ok(rule, "deleteRecords/file-switch", w.Pos(), "a file switch always opens the entry's file before writing")
			}
		}
	}
	r.Min(rule, 1)
}

// R-SLICE-GUARD: in Index.Put a prefix `key[:n+1]` is cut only where n is known
// to be below len(key): either n was clamped with min(…, len(key)-1) or the
// path passed the `n >= len(key)` test on its false side. (The test doubles as
// "the key is already there": without it two concurrent Puts of one new key
// slice past the end — a panic — or store a stray duplicate.)
func ruleSliceGuard(r *Report) {
	const rule = "slice-guard"
	fn := r.need(rule, "I", "(*Index).Put")
	if fn == nil {
		return
	}
	n := 0
	eachInstr(fn, func(in ssa.Instruction) {
		sl, ok := in.(*ssa.Slice)
		if !ok || sl.High == nil || sl.Low != nil {
			return
		}
		add, ok := sl.High.(*ssa.BinOp)
		if !ok || add.Op != token.ADD {
			return
		}
		if k, isC := intConst(add.Y); !isC || k != 1 {
			return
		}
		idx := add.X
		base := sl.X
		isLenBase := func(v ssa.Value) bool {
			c, ok := v.(*ssa.Call)
			return ok && cname(c) == "builtin.len" && sameValue(c.Call.Args[0], base)
		}
		n++
		// clamped: idx = min(x, len(base)-1) (builtin or the package's helper)
		clamped := false
		if c, ok := idx.(*ssa.Call); ok {
			name := cname(c)
			if strings.HasSuffix(name, ".min") || name == "builtin.min" {
				for _, a := range c.Call.Args {
					if bo, ok := a.(*ssa.BinOp); ok && bo.Op == token.SUB && isLenBase(bo.X) {
						if k, isC := intConst(bo.Y); isC && k >= 1 {
							clamped = true
						}
					}
				}
			}
		}
		ev := condEdges(fn, func(cond ssa.Value) (bool, bool) {
			bo, ok := cond.(*ssa.BinOp)
			if !ok {
				return false, false
			}
			switch {
			case sameValue(bo.X, idx) && isLenBase(bo.Y):
				switch bo.Op {
				case token.LSS:
					return true, false
				case token.GEQ:
					return false, true
				}
			case sameValue(bo.Y, idx) && isLenBase(bo.X):
				switch bo.Op {
				case token.GTR:
					return true, false
				case token.LEQ:
					return false, true
				}
			}
			return false, false
		})
		g := false
		if len(ev) > 0 {
			g, _ = guarded(fn, sl, mkEdgeSet(ev), nil)
		}
		r.Check(clamped || g, rule, "(*Index).Put/prefix-cut", sl.Pos(), "the cut position is known to be below the key's length",
			"a prefix key[:n+1] is cut without n having been shown to be below len(key) (the 'key is already in the index' test is gone): two concurrent Puts of the same new key slice past the end of the key — a panic — or store a stray duplicate record")
	})
	if n < 2 {
		r.Bad(rule, "(*Index).Put/inventory", fn.Pos(), "prefix cuts not found in Index.Put")
	}
	r.Min(rule, 2)
}

// R-BUCKET-SCAN-COVERS: the scan that builds the set of index files still in
// use runs its cursor up to the number of buckets (1 << sizeBits, or
// len(buckets)) — a bound computed by dividing that number (a chunk count) is
// zero for small tables, the busy set stays empty and every non-current index
// file is deleted.
func ruleBucketScanCovers(r *Report) {
	const rule = "bucket-scan-covers"
	fn := r.need(rule, "I", "(*Index).truncateFreeFiles")
	if fn == nil {
		return
	}
	found := false
	for _, g := range scopeOf(fn) {
		for _, b := range g.Blocks {
			ifi, ok := lastInstr(b).(*ssa.If)
			if !ok {
				continue
			}
			cond, _ := stripNot(ifi.Cond)
			bo, ok := cond.(*ssa.BinOp)
			if !ok {
				continue
			}
			fromBuckets := func(v ssa.Value) bool {
				return derives(v, flowOpts{Arith: true}, func(x ssa.Value) bool {
					if fieldOfLoad(x) == "Index.sizeBits" {
						return true
					}
					c, ok := x.(*ssa.Call)
					return ok && cname(c) == "builtin.len" && (fieldOfLoad(c.Call.Args[0]) == "Index.buckets" || outerField(c.Call.Args[0]) == "Index.buckets")
				})
			}
			var bound ssa.Value
			_, xPhi := stripIntConv(bo.X).(*ssa.Phi)
			_, yPhi := stripIntConv(bo.Y).(*ssa.Phi)
			switch {
			case xPhi && fromBuckets(bo.Y):
				bound = bo.Y
			case yPhi && fromBuckets(bo.X):
				bound = bo.X
			default:
				continue
			}
			found = true
			divided := derives(bound, flowOpts{Arith: true}, func(x ssa.Value) bool {
				q, ok := x.(*ssa.BinOp)
				return ok && (q.Op == token.QUO || q.Op == token.REM || q.Op == token.SHR)
			})
			r.Check(!divided, rule, "truncateFreeFiles/scan-bound", instrPos(ifi), "the bucket scan runs up to the number of buckets",
				"the bucket scan's bound is the number of buckets divided by a chunk size: for index bit sizes whose table is smaller than one chunk the bound is zero, no bucket is scanned, no file is marked busy and the collector deletes every index file before the current one")
		}
	}
	if !found {
		r.Bad(rule, "truncateFreeFiles/scan-bound", fn.Pos(), "no loop bounded by the number of buckets found")
	}
	r.Min(rule, 1)
}

// R-BOUNDS-FROM-SAME-FILE: where an offset into a file is checked against a
// file size before the file is read or written at that offset, the size is
// that of the SAME file (Stat of that handle, or of the path it was opened
// from) — not of another file that happens to be at hand.
func ruleBoundsFromSameFile(r *Report) {
	const rule = "bounds-from-same-file"
	n := 0
	for _, fn := range moduleFuncs(r.E) {
		for _, io := range callSites(fn, "(*os.File).ReadAt", "(*os.File).WriteAt") {
			a := io.Common().Args
			file, off := a[0], stripIntConv(a[2])
			// conditions that compare this offset with a FileInfo.Size()
			for _, b := range fn.Blocks {
				ifi, ok := lastInstr(b).(*ssa.If)
				if !ok {
					continue
				}
				cond, _ := stripNot(ifi.Cond)
				bo, ok := cond.(*ssa.BinOp)
				if !ok {
					continue
				}
				var szSide ssa.Value
				switch {
				case sameValue(stripIntConv(bo.X), off):
					szSide = bo.Y
				case sameValue(stripIntConv(bo.Y), off):
					szSide = bo.X
				default:
					continue
				}
				var sizeCall *ssa.Call
				derives(szSide, flowOpts{Arith: true}, func(x ssa.Value) bool {
					if c, ok := x.(*ssa.Call); ok && strings.HasSuffix(cname(c), "FileInfo).Size") {
						sizeCall = c
					}
					return false
				})
				if sizeCall == nil {
					continue
				}
				// only when the check dominates the access
				if !b.Dominates(io.Block()) {
					continue
				}
				n++
				// where does the FileInfo come from?
				var fiVal ssa.Value
				if sizeCall.Call.IsInvoke() {
					fiVal = sizeCall.Call.Value
				} else if len(sizeCall.Call.Args) > 0 {
					fiVal = sizeCall.Call.Args[0]
				}
				same := false
				if fiVal != nil {
					derives(fiVal, flowOpts{}, func(x ssa.Value) bool {
						c, ok := x.(*ssa.Call)
						if !ok {
							return false
						}
						switch cname(c) {
						case "(*os.File).Stat":
							recv := c.Call.Args[0]
							if sameValue(recv, file) || sameOpen(recv, file) ||
								derives(file, flowOpts{}, func(y ssa.Value) bool { return y == recv }) ||
								derives(recv, flowOpts{}, func(y ssa.Value) bool { return y == file }) {
								same = true
							}
						case "os.Stat":
							// the path the accessed file was opened from
							for _, oc := range openFileCallsOf(r.E, file, 0, map[ssa.Value]bool{}) {
								if sameValue(oc.Call.Args[0], c.Call.Args[0]) {
									same = true
								}
							}
						}
						return false
					})
				}
				r.Check(same, rule, shortFunc(fn)+"/"+cname(io), io.Pos(), "the offset is checked against the size of the file that is accessed",
					"the offset used for this "+cname(io)+" is range-checked against the size of a DIFFERENT file: valid entries are skipped as out of range (or invalid ones pass) — e.g. the pending freelist of a legacy primary is thrown away and removed keys come back as live records after the upgrade")
			}
		}
	}
	if n == 0 {
		r.Bad(rule, "inventory", token.NoPos, "no range-checked file access found")
	}
	r.Min(rule, 1)
}

// sameOpen: both values are the result of the same open call (through phis).
func sameOpen(a, b ssa.Value) bool {
	root := func(v ssa.Value) ssa.Value {
		for i := 0; i < 6; i++ {
			switch x := v.(type) {
			case *ssa.Extract:
				v = x.Tuple
				continue
			}
			break
		}
		return v
	}
	return root(a) == root(b)
}

// R-ENTRY-APPLIED: every freelist entry the collector reads is applied (the
// record is marked) unless one of the stated reasons holds: its file cannot be
// opened/stat'ed/read, its offset is beyond the file, the record is already
// deleted, or its size does not match. No other way round the loop skips the
// write.
func ruleEntryApplied(r *Report) {
	const rule = "entry-applied"
	fn := r.need(rule, "M", "deleteRecords")
	if fn == nil {
		return
	}
	heads := callSites(fn, "mhprimary.localizePrimaryPos")
	writes := instrSet(callSites(fn, "(*os.File).WriteAt"))
	if len(heads) == 0 || len(writes) == 0 {
		r.Bad(rule, "deleteRecords/skip-reasons", fn.Pos(), "loop head or write not found")
		return
	}
	var allowed []Edge
	for _, c := range allCalls(fn) {
		if cc := asCall(c); cc != nil {
			allowed = append(allowed, failureEdges(cc)...)
		}
	}
	for _, sw := range findSizeWords(fn) {
		for ed := range sw.edges {
			if !sw.live[ed] {
				allowed = append(allowed, ed)
			}
		}
	}
	allowed = append(allowed, condEdges(fn, func(cond ssa.Value) (bool, bool) {
		bo, ok := cond.(*ssa.BinOp)
		if !ok {
			return false, false
		}
		fromSize := func(v ssa.Value) bool {
			return derives(v, flowOpts{Arith: true}, func(x ssa.Value) bool {
				c, ok := x.(*ssa.Call)
				return ok && strings.HasSuffix(cname(c), "FileInfo).Size")
			})
		}
		isEntrySize := func(v ssa.Value) bool {
			return derives(v, flowOpts{}, isFieldLoad("Block.Size"))
		}
		switch {
		case fromSize(bo.X) || fromSize(bo.Y):
			return true, true // range check, either polarity
		case (bo.Op == token.NEQ || bo.Op == token.EQL) && (isEntrySize(bo.X) || isEntrySize(bo.Y)):
			if bo.Op == token.NEQ {
				return true, false
			}
			return false, true
		}
		return false, false
	})...)
	for _, h := range heads {
		// a skip reason excuses THIS entry, not the rest of the batch: from inside the loop body the
		// function is left only through the loop header (the range being exhausted)
		var hdr *ssa.BasicBlock
		for b := h.Block(); b != nil; b = b.Idom() {
			isHeader := false
			for _, pr := range b.Preds {
				if b.Dominates(pr) {
					isHeader = true
				}
			}
			if isHeader {
				hdr = b
				break
			}
		}
		if hdr != nil {
			inHdr := map[ssa.Instruction]bool{}
			for _, in := range hdr.Instrs {
				inHdr[in] = true
			}
			if reach, path := (Search{Fn: fn, From: h, Target: isReturn, Avoid: anyOf(inHdr)}).Run(); reach {
				r.BadPath(rule, "deleteRecords/batch-not-abandoned", h.Pos(), "the loop over a batch of freelist entries can be left from inside its body (break/return) instead of moving on to the next entry: the remaining entries of the batch are not applied, yet the hand-over file is consumed — those locations are never marked deleted and never reclaimed (the batch is sorted by absolute position, so entries of later files follow an out-of-range one)", path)
			} else {
				r.Ok(rule, "deleteRecords/batch-not-abandoned", h.Pos(), "the batch loop is only left when the batch is exhausted")
			}
		}
		reach, path := Search{Fn: fn, From: h, Target: isInstr(h), Avoid: anyOf(writes), AvoidEdges: mkEdgeSet(allowed)}.Run()
		if reach {
			r.BadPath(rule, "deleteRecords/skip-reasons", h.Pos(), "a freelist entry can be passed over without being applied and without any of the stated reasons (file unreadable, offset out of range, already deleted, size mismatch): the hand-over file is consumed all the same, so that location is never presented to the collector again and its space is never reclaimed", path)
		} else {
			r.Ok(rule, "deleteRecords/skip-reasons", h.Pos(), "an entry is skipped only for a stated reason")
		}
	}
	r.Min(rule, 2)
}
