package main

import (
	"fmt"
	"go/token"
	"os"
	"sort"
	"strings"

	"golang.org/x/tools/go/ssa"
)

// Thread roots (DESIGN C16). FG is the set of public calls the statement
// lists; they may run concurrently with each other. The background goroutines
// are found from the `go` statements and named here.
var fgStore = []string{"Put", "Get", "Has", "GetSize", "Remove", "Flush", "Err",
	"IndexStorageSize", "PrimaryStorageSize", "FreelistStorageSize", "StorageSize", "SetFileCacheSize"}
var fgAdapter = []string{"DeleteBlock", "Has", "Get", "GetSize", "Put", "PutMany"}

type rootTable struct {
	roots   []ThreadRoot
	missing []string
}

func buildRoots(e *Engine) rootTable {
	var rt rootTable
	fg := ThreadRoot{Name: "FG", SelfConcurrent: true}
	for _, m := range fgStore {
		f := e.Func("S", "(*Store)."+m)
		if f == nil {
			rt.missing = append(rt.missing, "store.(*Store)."+m)
			continue
		}
		fg.Funcs = append(fg.Funcs, f)
	}
	for _, m := range fgAdapter {
		f := e.Func("R", "(*HashedBlockstore)."+m)
		if f == nil {
			rt.missing = append(rt.missing, "storethehash.(*HashedBlockstore)."+m)
			continue
		}
		fg.Funcs = append(fg.Funcs, f)
	}
	rt.roots = append(rt.roots, fg)
	add := func(name string, f *ssa.Function, what string) {
		if f == nil {
			rt.missing = append(rt.missing, what)
			return
		}
		rt.roots = append(rt.roots, ThreadRoot{Name: name, Funcs: []*ssa.Function{f}})
	}
	add("FL", e.Func("S", "(*Store).run"), "store.(*Store).run")
	ig := e.Func("I", "(*Index).garbageCollector")
	add("IG", ig, "index.(*Index).garbageCollector")
	if ig != nil {
		add("IGc", goClosureIn(ig), "index GC cycle closure")
	}
	pg := e.Func("M", "(*primaryGC).run")
	add("PG", pg, "mhprimary.(*primaryGC).run")
	if pg != nil {
		add("PGc", goClosureIn(pg), "primary GC cycle closure")
	}
	return rt
}

// goClosureIn returns the anonymous function started by a go statement in fn.
func goClosureIn(fn *ssa.Function) *ssa.Function {
	var out *ssa.Function
	eachInstr(fn, func(in ssa.Instruction) {
		g, ok := in.(*ssa.Go)
		if !ok {
			return
		}
		if mc, ok := g.Call.Value.(*ssa.MakeClosure); ok {
			if f, ok := mc.Fn.(*ssa.Function); ok && out == nil {
				out = f
			}
		} else if f := g.Call.StaticCallee(); f != nil && f.Blocks != nil && out == nil {
			out = f // `go gc.runCycle(ctx, …)`: the cycle is a method instead of a closure
		}
	})
	return out
}

// runLockAnalysis walks all roots and returns the analysis.
func runLockAnalysis(r *Report, rule string) (*LockAnalysis, rootTable) {
	e := r.E
	rt := buildRoots(e)
	for _, m := range rt.missing {
		r.Undecided(rule, "thread root "+m+" not found")
	}
	la := newLockAnalysis(e)
	rootOf := map[*ssa.Function]string{}
	for _, root := range rt.roots {
		for _, f := range root.Funcs {
			if root.Name != "FG" {
				rootOf[f] = root.Name
			}
		}
	}
	for _, root := range rt.roots {
		for _, f := range root.Funcs {
			la.Walk(root.Name, f, LockSet{})
		}
	}
	// every go statement reached must start a listed root; unknown targets
	// become additional, self-concurrent roots (conservative)
	for changed := true; changed; {
		changed = false
		var targets []*ssa.Function
		for f := range la.goTargets {
			targets = append(targets, f)
		}
		sort.Slice(targets, func(i, j int) bool { return targets[i].String() < targets[j].String() })
		for _, f := range targets {
			if _, ok := rootOf[f]; ok {
				continue
			}
			name := "go:" + shortFunc(f)
			rootOf[f] = name
			rt.roots = append(rt.roots, ThreadRoot{Name: name, SelfConcurrent: true, Funcs: []*ssa.Function{f}})
			r.Info = append(r.Info, "lockset: go statement starts "+shortFunc(f)+", not in the root table; analysed as an extra self-concurrent root")
			la.Walk(name, f, LockSet{})
			changed = true
		}
	}
	for f := range la.reached {
		r.fn(f)
	}
	return la, rt
}

func locShort(loc string) string {
	if i := strings.Index(loc, "."); i >= 0 {
		return loc[i+1:]
	}
	return loc
}

func accessDesc(e *Engine, a Access) string {
	return fmt.Sprintf("%s %s %s held=%s root=%s", rw(a.Write), e.Pos(a.Instr.Pos()), shortFunc(a.Fn), a.Held.key(), a.Root)
}

// reportRaces emits one obligation per written location: discharged when no
// unprotected conflicting pair exists among the given roots.
func reportRaces(r *Report, la *LockAnalysis, rt rootTable, rule string, rootFilter func(string) bool, locFilter func(string) bool) {
	e := r.E
	var roots []ThreadRoot
	for _, root := range rt.roots {
		if rootFilter == nil || rootFilter(root.Name) {
			roots = append(roots, root)
		}
	}
	saved := la.accesses
	var filtered []Access
	for _, a := range saved {
		if rootFilter != nil && !rootFilter(a.Root) {
			continue
		}
		if locFilter != nil && !locFilter(a.Loc) {
			continue
		}
		filtered = append(filtered, a)
	}
	la.accesses = filtered
	races := la.Races(roots)
	la.accesses = saved
	racy := map[string][]Race{}
	for _, rc := range races {
		racy[rc.Loc] = append(racy[rc.Loc], rc)
	}
	type locInfo struct {
		writes, reads int
		pos           token.Pos
		locks         map[string]int
	}
	locs := map[string]*locInfo{}
	for _, a := range filtered {
		li := locs[a.Loc]
		if li == nil {
			li = &locInfo{locks: map[string]int{}}
			locs[a.Loc] = li
		}
		if a.Write {
			li.writes++
			if li.pos == token.NoPos {
				li.pos = a.Instr.Pos()
			}
		} else {
			li.reads++
		}
		for l := range a.Held {
			li.locks[l]++
		}
	}
	var names []string
	for l := range locs {
		names = append(names, l)
	}
	sort.Strings(names)
	frozen := 0
	pairs := 0
	for _, loc := range names {
		li := locs[loc]
		if li.writes == 0 {
			frozen++
			continue
		}
		pairs += (li.writes + li.reads) * li.writes
		if rs := racy[loc]; len(rs) > 0 {
			for _, rc := range rs {
				r.Bad(rule, raceKey(loc, rc.A, rc.B), rc.A.Instr.Pos(),
					fmt.Sprintf("unsynchronised conflicting accesses to %s: [%s] vs [%s] — no common lock held exclusively by one side", loc, accessDesc(e, rc.A), accessDesc(e, rc.B)))
			}
			continue
		}
		var ls []string
		for l := range li.locks {
			ls = append(ls, locShort(l))
		}
		sort.Strings(ls)
		r.Ok(rule, loc, li.pos, fmt.Sprintf("%d writes, %d reads from concurrent roots; every conflicting pair shares a lock (locks seen: %s)", li.writes, li.reads, strings.Join(ls, ",")))
	}
	r.Info = append(r.Info, fmt.Sprintf("%s %s: %d locations accessed, %d written (checked), %d frozen (no write reachable from any root), %d accesses, ~%d pairs", r.Property, rule, len(names), len(names)-frozen, frozen, len(filtered), pairs))
}

func reportLockOrder(r *Report, la *LockAnalysis, rule string) {
	var edges [][2]string
	for e := range la.order {
		edges = append(edges, e)
	}
	sort.Slice(edges, func(i, j int) bool {
		if edges[i][0] != edges[j][0] {
			return edges[i][0] < edges[j][0]
		}
		return edges[i][1] < edges[j][1]
	})
	cycles := la.OrderCycles()
	inCycle := map[[2]string]bool{}
	for _, c := range cycles {
		for i := range c {
			inCycle[[2]string{c[i], c[(i+1)%len(c)]}] = true
		}
	}
	for _, ed := range edges {
		w := la.order[ed]
		key := locShort(ed[0]) + "->" + locShort(ed[1])
		if inCycle[ed] {
			r.Bad(rule, key, w.pos, fmt.Sprintf("lock %s is acquired while holding %s in %s, and the reverse order also occurs: lock-order cycle (possible deadlock between callers/collectors)", ed[1], ed[0], shortFunc(w.fn)))
		} else {
			r.Ok(rule, key, w.pos, fmt.Sprintf("%s acquired while holding %s in %s; relation acyclic", ed[1], ed[0], shortFunc(w.fn)))
		}
	}
	for _, p := range la.problems {
		if strings.Contains(p.key, "/reacquire/") || strings.Contains(p.key, "/recursive-rlock/") {
			r.Bad(rule, p.key, p.pos, p.detail)
		}
	}
}

// reportBalanced checks every module function that touches a lock, from an
// empty entry lockset: each lock acquired is released on every path to every
// return, and no function releases a lock it did not acquire.
func reportBalanced(r *Report, rule string) {
	e := r.E
	for _, fn := range e.ModFuncs {
		var acquires []ssa.CallInstruction
		has := false
		eachInstr(fn, func(in ssa.Instruction) {
			ci, ok := in.(ssa.CallInstruction)
			if !ok {
				return
			}
			op, _, ok := lockOp(ci)
			if !ok {
				return
			}
			has = true
			if _, isDefer := in.(*ssa.Defer); !isDefer && (op == "Lock" || op == "RLock") {
				acquires = append(acquires, ci)
			}
		})
		if !has {
			continue
		}
		r.fn(fn)
		fi := lockFlow(fn, LockSet{})
		bad := map[string][]lockProblem{}
		for _, p := range fi.problems {
			parts := strings.SplitN(p.key, "/", 2)
			bad[parts[1]] = append(bad[parts[1]], p)
		}
		sortByPos(acquires)
		for _, a := range acquires {
			_, id, _ := lockOp(a)
			key := shortFunc(fn) + "/" + locShort(id)
			if ps := bad[id]; len(ps) > 0 {
				for _, p := range ps {
					r.Bad(rule, key, p.pos, p.detail)
				}
				delete(bad, id)
			} else {
				r.Ok(rule, key, a.Pos(), "acquired here; released on every path to every return (explicitly or by defer)")
			}
		}
		var rest []string
		for id := range bad {
			rest = append(rest, id)
		}
		sort.Strings(rest)
		for _, id := range rest {
			for _, p := range bad[id] {
				r.Bad(rule, shortFunc(fn)+"/"+locShort(id), p.pos, p.detail)
			}
		}
	}
}

func init() {
	register("C16", func(r *Report) {
		la, rt := runLockAnalysis(r, "race")
		reportRaces(r, la, rt, "race", nil, nil)
		r.Min("race", 25)
		reportLockOrder(r, la, "lock-order")
		r.Min("lock-order", 5)
		reportBalanced(r, "lock-balanced")
		r.Min("lock-balanced", 40)
		ruleLockPaths(r)
		// assumption (2) of the race check is itself checked: slices published
		// into the primary's pool are not written again
		ruleRetain(r)
		rulePublishedBytes(r)
		// the collectors' single-threadedness (roots IGc/PGc are not self-concurrent) is itself checked
		tmp := newReport(r.E, r.Property)
		ruleGoHandshake(tmp)
		for _, o := range tmp.Obls {
			if strings.Contains(o.Key, "one-cycle-at-a-time") || strings.Contains(o.Key, "spawn-once") {
				o.Rule = "single-cycle"
				o.Key = "single-cycle" + strings.TrimPrefix(o.Key, "go-handshake")
				r.Obls = append(r.Obls, o)
			}
		}
		r.Min("single-cycle", 2)
		if os.Getenv("STHLINT_TIER") == "thorough" {
			extendedRootsInfo(r)
		}
		r.Sites = len(la.accesses)
	},
		"Decides a structural necessary condition of data-race freedom, not the behaviour: an interprocedural must-hold lockset analysis over go/ssa from the thread roots named in the statement (public calls FG, flusher FL, index GC supervisor+cycle, primary GC supervisor+cycle). For every struct field of the store's shared types (map/slice contents merged into the field) and every pair of accesses with at least one write reachable from concurrently runnable roots, a common lock must be held, exclusively on one side. Also: lock acquire/release balanced on every path, and the acquired-while-holding relation is acyclic. Not covered: happens-before through channels, aliasing the field abstraction does not see, Open/Close/iterator entry points.",
		"ownership: each root reaches one instance of each component through fields that are never written after construction, so (type, field) identifies a lock",
		"byte slices published into pools are not modified after publication",
		"happens-before through channels is not modelled; captured local variables of goroutine closures are not tracked",
		"calls into packages outside the module are effect-free except the table of bufio/container-list methods; function values passed to them are called synchronously")
}
