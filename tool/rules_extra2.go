package main

import (
	"fmt"
	"go/token"
	"strings"

	"golang.org/x/tools/go/ssa"
)

// R-POS-CODEC: encoders and decoders of (file number, local offset) positions
// are inverse to each other for every record start below the size limit.
func rulePosCodec(r *Report) {
	const rule = "pos-codec"
	type codec struct {
		alias, enc, fileOf, dec   string
		k                         int64 // offset of the encoded position relative to the record start
		encLocal, encFile, encMax int
	}
	codecs := []codec{
		{"I", "localPosToBucketPos", "bucketPosToFileNum", "localizeBucketPos", 4, 0, 1, 2},
		{"M", "absolutePrimaryPos", "primaryPosToFileNum", "localizePrimaryPos", 0, 0, 1, 2},
	}
	env := linEnv{}
	for _, c := range codecs {
		enc := r.need(rule, c.alias, c.enc)
		dec := r.need(rule, c.alias, c.dec)
		if enc == nil || dec == nil {
			continue
		}
		// the file-number function may have been folded into the decoder
		fileOf := r.E.Func(c.alias, c.fileOf)
		if fileOf != nil && fileOf.Blocks == nil {
			fileOf = nil
		}
		if fileOf != nil {
			r.fn(fileOf)
		}
		var wantF Lin
		if c.k == 0 {
			wantF = linAtom("(p0)/(p1)")
		} else {
			wantF = linAtom(fmt.Sprintf("(p0 + %d)/(p1)", -c.k))
		}
		// divisions by the limit parameter inside the decoder itself
		var decDivs []*ssa.BinOp
		eachInstr(dec, func(in ssa.Instruction) {
			if bo, ok := in.(*ssa.BinOp); ok && bo.Op == token.QUO && env.lin(bo.Y).equal(linAtom("p1")) {
				decDivs = append(decDivs, bo)
			}
		})
		if fileOf == nil && len(decDivs) == 0 {
			r.Undecided(rule, "anchor "+c.alias+"."+c.fileOf+" not found and "+c.dec+" does not divide by its limit parameter")
			continue
		}
		for _, d := range decDivs {
			l := env.lin(d)
			if l.equal(wantF) {
				r.Ok(rule, c.fileOf+"/file-of-record-start", d.Pos(), fmt.Sprintf("file number = (position − %d) / limit: decided by where the record STARTS", c.k))
			} else {
				r.Bad(rule, c.fileOf+"/file-of-record-start", d.Pos(), fmt.Sprintf("the file number is computed as [%s], expected [%s]: the rollover rule guarantees only that a record STARTS below the limit", l, wantF))
			}
		}
		isFileValue := func(v ssa.Value) bool {
			if fileOf != nil && isCallTo(typeQualifierOf(c.alias)+"."+c.fileOf)(v) {
				return true
			}
			for _, d := range decDivs {
				if v == ssa.Value(d) {
					return true
				}
			}
			return false
		}
		// encoder: file*max + local
		want := linAtom(fmt.Sprintf("(p%d)*(p%d)", c.encFile, c.encMax)).add(linAtom(fmt.Sprintf("p%d", c.encLocal)), 1)
		okEnc := false
		var encPos token.Pos = enc.Pos()
		for _, ret := range returnsOf(enc) {
			l := env.lin(retVal(ret, 0))
			encPos = ret.Pos()
			if l.equal(want) {
				okEnc = true
			} else {
				okEnc = false
				r.Bad(rule, c.enc+"/encode", ret.Pos(), fmt.Sprintf("the absolute position is computed as [%s], expected file*limit + local [%s]", l, want))
			}
		}
		if okEnc {
			r.Ok(rule, c.enc+"/encode", encPos, "absolute position = file number × size limit + local offset")
		}
		// file number of a position: (pos - k) / max, k = distance of the encoded position from the record start
		okFile := false
		var fileRets []*ssa.Return
		if fileOf != nil {
			fileRets = returnsOf(fileOf)
		}
		for _, ret := range fileRets {
			if b, isC := boolConst(retVal(ret, 0)); isC && !b {
				continue
			}
			l := env.lin(retVal(ret, 1))
			if l.equal(wantF) {
				okFile = true
				r.Ok(rule, c.fileOf+"/file-of-record-start", ret.Pos(), fmt.Sprintf("file number = (position − %d) / limit: decided by where the record STARTS", c.k))
			} else {
				r.Bad(rule, c.fileOf+"/file-of-record-start", ret.Pos(), fmt.Sprintf("the file number is computed as [%s], expected [%s]: the rollover rule guarantees only that a record STARTS below the limit; the stored position lies %d bytes after the start, so for a record starting in the last %d bytes before the limit the position would be attributed to the next file and the record list / record becomes unreachable", l, wantF, c.k, c.k))
			}
		}
		if fileOf != nil && !okFile && len(fileRets) == 0 {
			r.Undecided(rule, c.fileOf+": no return")
		}
		// decoder: local = pos - file*max with file from fileOf(pos, max)
		okDec := false
		for _, ret := range returnsOf(dec) {
			v := retVal(ret, 0)
			if k, isC := intConst(v); isC && k == 0 {
				continue
			}
			bo, ok := stripIntConv(v).(*ssa.BinOp)
			if !ok || bo.Op != token.SUB {
				r.Bad(rule, c.dec+"/decode", ret.Pos(), "the local offset is not position − file×limit")
				continue
			}
			_, posIsParam := stripIntConv(bo.X).(*ssa.Parameter)
			mul, isMul := stripIntConv(bo.Y).(*ssa.BinOp)
			fileFrom := isMul && mul.Op == token.MUL &&
				(derives(mul.X, flowOpts{}, isFileValue) || derives(mul.Y, flowOpts{}, isFileValue)) &&
				(isParamValue(stripIntConv(mul.X), dec, 1) || isParamValue(stripIntConv(mul.Y), dec, 1))
			if posIsParam && fileFrom {
				okDec = true
				r.Ok(rule, c.dec+"/decode", ret.Pos(), "local offset = position − (file number of that position) × limit")
			} else {
				r.Bad(rule, c.dec+"/decode", ret.Pos(), "the local offset is not position − fileOf(position)×limit with the same limit: decoding is not the inverse of encoding")
			}
		}
		_ = okDec
	}
	ruleLimitDivision(r, rule)
	r.Min(rule, 8)
}

func typeQualifierOf(alias string) string {
	switch alias {
	case "I":
		return "index"
	case "M":
		return "mhprimary"
	}
	return alias
}

func isParamValue(v ssa.Value, fn *ssa.Function, idx int) bool {
	p, ok := v.(*ssa.Parameter)
	return ok && p.Parent() == fn && paramIndex(p) == idx
}

// R-ITERATE-ALL: whole-store iteration visits every bucket once and yields
// what the primary holds at the indexed location.
func ruleIterateAll(r *Report) {
	const rule = "iterate-all"
	if fn := r.need(rule, "I", "(*Iterator).Next"); fn != nil {
		// stores to bucketIndex advance by exactly one
		n := 0
		for _, st := range fieldStores(fn, "Iterator.bucketIndex") {
			n++
			l := linEnv{}.lin(st.Val).add(linAtom("F:Iterator.bucketIndex"), -1)
			k, isC := l.isConst()
			r.Check(isC && k == 1, rule, "index.Iterator.Next/advance-by-one", instrPos(st), "the bucket cursor advances by one", fmt.Sprintf("the bucket cursor advances by [%s]: buckets are skipped or revisited", l))
		}
		if n == 0 {
			r.Bad(rule, "index.Iterator.Next/advance-by-one", fn.Pos(), "the bucket cursor is never advanced")
		}
		// done is reported only when the cursor reached len(buckets)
		end := condEdges(fn, func(cond ssa.Value) (bool, bool) {
			bo, ok := cond.(*ssa.BinOp)
			if !ok {
				return false, false
			}
			isLen := func(v ssa.Value) bool {
				c, ok := v.(*ssa.Call)
				return ok && cname(c) == "builtin.len" && fieldOfLoad(c.Call.Args[0]) == "Index.buckets"
			}
			isCur := func(v ssa.Value) bool { return fieldOfLoad(stripIntConv(v)) == "Iterator.bucketIndex" }
			switch {
			case isCur(bo.X) && isLen(bo.Y):
				switch bo.Op {
				case token.GEQ:
					return true, false
				case token.LSS:
					return false, true
				}
			case isLen(bo.X) && isCur(bo.Y):
				switch bo.Op {
				case token.LEQ:
					return true, false
				case token.GTR:
					return false, true
				}
			}
			return false, false
		})
		for _, ret := range returnsOf(fn) {
			if b, isC := boolConst(retVal(ret, 1)); !isC || !b {
				continue
			}
			ok, path := guarded(fn, ret, mkEdgeSet(end), nil)
			if ok && len(end) > 0 {
				r.Ok(rule, "index.Iterator.Next/done-only-at-end", ret.Pos(), "done is reported only when the cursor reached len(buckets)")
			} else {
				r.BadPath(rule, "index.Iterator.Next/done-only-at-end", ret.Pos(), "the index iterator can report done before the cursor reached the number of buckets (or with an off-by-one bound): the last bucket(s) are never iterated, e.g. when translating the index", path)
			}
		}
		// the iterator holds flushLock, so the pools are not swapped under it
		fi := lockFlow(fn, LockSet{})
		for _, c := range callSites(fn, "(*index.Index).readCached") {
			_, held := fi.at[c]["index.Index.flushLock"]
			r.Check(held, rule, "index.Iterator.Next/pools-stable", c.Pos(), "pools are read with flushLock held (no swap in between)", "the iterator reads the pools without flushLock: a concurrent flush can swap them between the bucket scan and the lookup")
		}
	}
	if fn := r.need(rule, "S", "(*Iterator).Next"); fn != nil {
		var get *ssa.Call
		for _, c := range callSites(fn, "(primary.PrimaryStorage).Get") {
			get = asCall(c)
		}
		if get == nil {
			r.Bad(rule, "store.Iterator.Next/reads-primary", fn.Pos(), "the store iterator does not read the primary")
		} else {
			fromRec := derives(get.Call.Args[0], flowOpts{}, isCallTo("(*index.Iterator).Next"))
			r.Check(fromRec, rule, "store.Iterator.Next/location-from-index-record", get.Pos(), "the primary is read at the index record's location", "the primary is not read at the location of the index record being iterated")
			for _, ret := range returnsOf(fn) {
				if isNilConst(retVal(ret, 0)) {
					continue
				}
				ok := derives(retVal(ret, 0), flowOpts{}, func(v ssa.Value) bool { return v == ssa.Value(get) }) && derives(retVal(ret, 1), flowOpts{}, func(v ssa.Value) bool { return v == ssa.Value(get) })
				r.Check(ok, rule, "store.Iterator.Next/yields-primary-record", ret.Pos(), "yields the key and value read from the primary", "the iterator yields something other than the key/value read from the primary")
			}
		}
	}
	if fn := r.need(rule, "S", "(*Store).NewIterator"); fn != nil {
		flushed := len(callSites(fn, "(*store.Store).Flush")) > 0
		r.Check(flushed, rule, "Store.NewIterator/flushes-first", fn.Pos(), "pending writes are flushed before iterating", "NewIterator does not flush first: unflushed buckets whose table entry is still empty are invisible to the iterator")
	}
	r.Min(rule, 6)
}

// R-CONFIG-WIRING: each option reaches the component parameter it names.
func ruleConfigWiring(r *Report) {
	const rule = "config-wiring"
	e := r.E
	sp := e.SSAPkg[pkgAlias["S"]]
	if sp == nil {
		r.Undecided(rule, "store package")
		return
	}
	// option constructors: the closure stores its own parameter into the field of the same meaning
	opts := map[string]string{
		"FileCacheSize": "config.fileCacheSize", "IndexBitSize": "config.indexSizeBits", "IndexFileSize": "config.indexFileSize",
		"PrimaryFileSize": "config.primaryFileSize", "SyncInterval": "config.syncInterval", "BurstRate": "config.burstRate",
		"GCInterval": "config.gcInterval", "GCTimeLimit": "config.gcTimeLimit", "SyncOnFlush": "config.syncOnFlush",
	}
	for name, field := range opts {
		fn := sp.Func(name)
		if fn == nil || len(fn.AnonFuncs) != 1 {
			r.Bad(rule, "option/"+name, token.NoPos, "option constructor "+name+" not found (or not a single closure)")
			continue
		}
		cl := fn.AnonFuncs[0]
		var stored []string
		okVal := true
		eachInstr(cl, func(in ssa.Instruction) {
			st, ok := in.(*ssa.Store)
			if !ok {
				return
			}
			fa, ok := st.Addr.(*ssa.FieldAddr)
			if !ok {
				return
			}
			stored = append(stored, fieldName(fa.X.Type(), fa.Field))
			if !derives(st.Val, flowOpts{}, func(v ssa.Value) bool {
				if fv, ok := v.(*ssa.FreeVar); ok {
					return fv.Parent() == cl
				}
				p, ok := v.(*ssa.Parameter)
				return ok && p.Parent() == fn
			}) {
				okVal = false
			}
		})
		r.Check(len(stored) == 1 && stored[0] == field && okVal, rule, "option/"+name, fn.Pos(), name+" sets "+field+" from its argument",
			fmt.Sprintf("%s sets %v (expected exactly %s, from its argument): the option silently configures something else", name, stored, field))
	}
	// OpenStore passes each config field to the parameter it means
	open := r.need(rule, "S", "OpenStore")
	if open == nil {
		return
	}
	type wire struct {
		callee string
		arg    int
		field  string
	}
	wires := []wire{
		{"index.Open", 3, "config.indexSizeBits"}, {"index.Open", 4, "config.indexFileSize"}, {"index.Open", 5, "config.gcInterval"}, {"index.Open", 6, "config.gcTimeLimit"},
		{"mhprimary.Open", 3, "config.primaryFileSize"}, {"filecache.New", 0, "config.fileCacheSize"},
		{"store.translateIndex", 3, "config.indexSizeBits"}, {"store.translateIndex", 4, "config.indexFileSize"},
		{"(*mhprimary.MultihashPrimary).StartGC", 2, "config.gcInterval"}, {"(*mhprimary.MultihashPrimary).StartGC", 3, "config.gcTimeLimit"},
	}
	for _, w := range wires {
		sites := callSites(open, w.callee)
		if len(sites) == 0 {
			r.Bad(rule, "OpenStore/"+w.callee, open.Pos(), "OpenStore does not call "+w.callee)
			continue
		}
		for _, s := range sites {
			a := s.Common().Args[w.arg]
			r.Check(fieldOfLoad(stripConv(a)) == w.field, rule, fmt.Sprintf("OpenStore/%s/arg%d", w.callee, w.arg), s.Pos(), w.field+" is passed here",
				fmt.Sprintf("argument %d of %s is %s, expected %s: a configured size/interval reaches the wrong component", w.arg, w.callee, describeValue(a), w.field))
		}
	}
	// the components are wired to each other: the one freelist, the one file cache and the primary that
	// OpenStore opened are what the other components are given (not nil, not a second instance)
	type owire struct {
		callee   string
		arg      int
		producer []string
		what     string
	}
	for _, w := range []owire{
		{"mhprimary.Open", 1, []string{"freelist.Open"}, "the freelist (the legacy upgrade applies its pending entries to the old primary before splitting it)"},
		{"mhprimary.Open", 2, []string{"filecache.New"}, "the file cache"},
		{"index.Open", 2, []string{"mhprimary.Open", "cidprimary.Open"}, "the primary"},
		{"index.Open", 7, []string{"filecache.New"}, "the file cache"},
		{"(*mhprimary.MultihashPrimary).StartGC", 0, []string{"freelist.Open"}, "the freelist"},
	} {
		for _, sCall := range callSites(open, w.callee) {
			a := sCall.Common().Args
			idx := w.arg
			if sCall.Common().Signature().Recv() != nil && !sCall.Common().IsInvoke() {
				idx++ // receiver is args[0] of a static method call
			}
			if idx >= len(a) {
				continue
			}
			ok := derivesUp(a[idx], isCallTo(w.producer...), 0)
			r.Check(ok, rule, fmt.Sprintf("OpenStore/%s/arg%d-object", w.callee, w.arg), sCall.Pos(), w.what+" opened by OpenStore is passed here",
				fmt.Sprintf("argument %d of %s is not %s that OpenStore opened (it is %s): the component works without it or on a different instance", w.arg, w.callee, w.what, describeValue(a[idx])))
		}
	}
	// the collector's index callback is always the index's Update: without it the collector neither
	// truncates nor relocates (it cannot re-point the index), so nothing is ever reclaimed
	for _, sCall := range callSites(open, "(*mhprimary.MultihashPrimary).StartGC") {
		a := sCall.Common().Args
		cb := a[len(a)-1]
		var neverNil func(v ssa.Value, seen map[ssa.Value]bool) bool
		neverNil = func(v ssa.Value, seen map[ssa.Value]bool) bool {
			if seen[v] {
				return true
			}
			seen[v] = true
			switch x := v.(type) {
			case *ssa.MakeClosure, *ssa.Function:
				return true
			case *ssa.ChangeType:
				return neverNil(x.X, seen)
			case *ssa.Phi:
				for _, e := range x.Edges {
					if !neverNil(e, seen) {
						return false
					}
				}
				return len(x.Edges) > 0
			}
			return false
		}
		r.Check(neverNil(cb, map[ssa.Value]bool{}), rule, "OpenStore/StartGC/index-callback-set", sCall.Pos(), "the primary collector is always given an index callback",
			"the primary collector can be started without an index callback (nil on some path, e.g. for immutable stores): reapRecords then returns before truncating or relocating, so no primary space is ever reclaimed for such a store")
	}
	for field, cf := range map[string]string{"Store.syncInterval": "config.syncInterval", "Store.burstRate": "config.burstRate", "Store.syncOnFlush": "config.syncOnFlush"} {
		ok := false
		for _, st := range fieldStores(open, field) {
			if fieldOfLoad(stripConv(st.Val)) == cf {
				ok = true
			}
		}
		r.Check(ok, rule, "OpenStore/"+field, open.Pos(), field+" = "+cf, field+" is not initialised from "+cf)
	}
	// the immutable flag
	ok := false
	for _, st := range fieldStores(open, "Store.immutable") {
		if p, isP := st.Val.(*ssa.Parameter); isP && p.Parent() == open && shortType(p.Type()) == "bool" {
			ok = true
		}
	}
	r.Check(ok, rule, "OpenStore/Store.immutable", open.Pos(), "immutable mode comes from the parameter", "Store.immutable is not the immutable parameter")
	r.Min(rule, 26)
}

func describeValue(v ssa.Value) string {
	if f := fieldOfLoad(stripConv(v)); f != "" {
		return f
	}
	return strings.TrimSpace(v.String())
}

// R-INDEX-NAMES-NEW-LOCATION: Store.Put indexes the location the primary just returned.
func ruleIndexNamesNewLocation(r *Report) {
	const rule = "index-names-new-location"
	fn := r.need(rule, "S", "(*Store).Put")
	if fn == nil {
		return
	}
	var pput *ssa.Call
	for _, c := range callSites(fn, "(primary.PrimaryStorage).Put") {
		pput = asCall(c)
	}
	if pput == nil {
		r.Bad(rule, "(*Store).Put/primary.Put", fn.Pos(), "Store.Put does not store the value in the primary")
		return
	}
	locs := map[ssa.Value]bool{}
	for _, v := range resultValues(pput, 0) {
		locs[v] = true
	}
	// the primary receives the caller's key and value
	a := pput.Call.Args
	r.Check(isParamValue(a[0], fn, 1) && isParamValue(a[1], fn, 2), rule, "(*Store).Put/primary-gets-key-and-value", pput.Pos(), "the primary stores the caller's key and value", "the primary is not given the caller's key and value")
	for _, s := range callSites(fn, "(*index.Index).Put", "(*index.Index).Update") {
		r.Check(locs[s.Common().Args[2]], rule, "(*Store).Put/"+cname(s)+"/location", s.Pos(), "the index is pointed at the location the primary just returned", "the index is pointed at a location other than the one the primary returned for this value (e.g. the previous location)")
		ok, path := successGuard(fn, s, pput)
		if ok {
			r.Ok(rule, "(*Store).Put/"+cname(s)+"/after-primary", s.Pos(), "indexed only after the primary accepted the record")
		} else {
			r.BadPath(rule, "(*Store).Put/"+cname(s)+"/after-primary", s.Pos(), "the index can be updated without the primary having accepted the record", path)
		}
		// the key indexed is the index key of the caller's key
		r.Check(derives(s.Common().Args[1], throughIndexKey(), isParam(fn, 1)), rule, "(*Store).Put/"+cname(s)+"/key", s.Pos(), "indexed under IndexKey(key)", "the index is updated under something other than IndexKey(key)")
	}
	r.Min(rule, 7)
}

// R-POOL-VALUES-FRESH: byte slices stored into the index pools are freshly
// built, never views of a reused buffer.
func rulePoolValuesFresh(r *Report) {
	const rule = "pool-values-fresh"
	n := 0
	for _, fn := range moduleFuncs(r.E) {
		eachInstr(fn, func(in ssa.Instruction) {
			mu, ok := in.(*ssa.MapUpdate)
			// the live pool of an open index; the upgrade-time work pool of
			// remapIndex (a local map flushed before the index is handed out) is
			// out of scope: its loop-carried value needs loop-count reasoning
			if !ok || fieldOfLoad(mu.Map) != "Index.nextPool" {
				return
			}
			n++
			if freshSlice(mu.Value, map[ssa.Value]bool{}) {
				r.Ok(rule, shortFunc(fn)+"/bucketPool-store", instrPos(mu), "the record list stored into the pool is freshly built (PutKeys/EncodeKeyPosition)")
			} else {
				r.Bad(rule, shortFunc(fn)+"/bucketPool-store", instrPos(mu), "the byte slice stored into an index pool is not a freshly built list (it may be a view of a scratch/read buffer that is overwritten later): the pooled record list would change underneath readers and the flush")
			}
		})
	}
	if n < 4 {
		r.Bad(rule, "inventory", token.NoPos, fmt.Sprintf("found %d stores into index pools, expected at least 4", n))
	}
	r.Min(rule, 4)
}

// freshSlice: v is built by make/append-on-fresh (possibly through module
// functions all of whose returns are fresh), on every phi edge.
func freshSlice(v ssa.Value, seen map[ssa.Value]bool) bool {
	if seen[v] {
		return true
	}
	seen[v] = true
	switch x := v.(type) {
	case *ssa.MakeSlice:
		return true
	case *ssa.Phi:
		for _, e := range x.Edges {
			if !freshSlice(e, seen) {
				return false
			}
		}
		return len(x.Edges) > 0
	case *ssa.ChangeType:
		return freshSlice(x.X, seen)
	case *ssa.Convert:
		return freshSlice(x.X, seen)
	case *ssa.Slice:
		if al, ok := x.X.(*ssa.Alloc); ok && al.Heap {
			return true // slice of a fresh array literal
		}
		return freshSlice(x.X, seen)
	case *ssa.Call:
		if cname(x) == "builtin.append" {
			return freshSlice(x.Call.Args[0], seen)
		}
		f := x.Call.StaticCallee()
		if f == nil || f.Blocks == nil {
			return false
		}
		rets := returnsOf(f)
		if len(rets) == 0 {
			return false
		}
		for _, ret := range rets {
			if len(ret.Results) != 1 {
				return false
			}
			rv := retVal(ret, 0)
			// appending to a parameter is fresh only if the caller's argument is
			if !freshOrParam(rv, f, x, seen) {
				return false
			}
		}
		return true
	}
	return false
}

func freshOrParam(v ssa.Value, f *ssa.Function, call *ssa.Call, seen map[ssa.Value]bool) bool {
	switch x := v.(type) {
	case *ssa.Parameter:
		i := paramIndex(x)
		if i >= 0 && i < len(call.Call.Args) {
			return freshSlice(call.Call.Args[i], seen)
		}
		return false
	case *ssa.Call:
		if cname(x) == "builtin.append" {
			return freshOrParam(x.Call.Args[0], f, call, seen)
		}
	case *ssa.ChangeType:
		return freshOrParam(x.X, f, call, seen)
	}
	return freshSlice(v, seen)
}

// derivesUp: derives, continued through the parameters of a helper into the
// arguments at every one of its static call sites (all of them must derive).
func derivesUp(v ssa.Value, pred func(ssa.Value) bool, depth int) bool {
	var params []*ssa.Parameter
	if derives(v, flowOpts{}, func(x ssa.Value) bool {
		if p, ok := x.(*ssa.Parameter); ok {
			params = append(params, p)
		}
		return pred(x)
	}) {
		return true
	}
	if depth > 3 {
		return false
	}
	for _, p := range params {
		f := p.Parent()
		idx := -1
		for i, q := range f.Params {
			if q == p {
				idx = i
			}
		}
		callers := staticCallers[f]
		if idx < 0 || len(callers) == 0 || usedAsValue[f] {
			continue
		}
		all := true
		for _, c := range callers {
			if idx >= len(c.Call.Args) || !derivesUp(c.Call.Args[idx], pred, depth+1) {
				all = false
			}
		}
		if all {
			return true
		}
	}
	return false
}
