package main

import (
	"fmt"
	"go/token"
	"go/types"
	"strings"

	"golang.org/x/tools/go/ssa"
)

// C14: file cache. entryOf returns the *entry value whose field is addressed.
func entryFieldLoad(v ssa.Value, field string) (ssa.Value, bool) {
	u, ok := v.(*ssa.UnOp)
	if !ok || u.Op != token.MUL {
		return nil, false
	}
	fa, ok := u.X.(*ssa.FieldAddr)
	if !ok || fieldName(fa.X.Type(), fa.Field) != "entry."+field {
		return nil, false
	}
	return fa.X, true
}

// sameEntry: two *entry values denote the same entry (same SSA value, or both
// type assertions of loads of the same list element's Value).
func sameEntry(a, b ssa.Value) bool {
	if a == b {
		return true
	}
	unwrap := func(v ssa.Value) ssa.Value {
		if ex, ok := v.(*ssa.Extract); ok && ex.Index == 0 {
			if _, isTA := ex.Tuple.(*ssa.TypeAssert); isTA {
				return ex.Tuple
			}
		}
		return v
	}
	ta, ok1 := unwrap(a).(*ssa.TypeAssert)
	tb, ok2 := unwrap(b).(*ssa.TypeAssert)
	if !ok1 || !ok2 {
		return false
	}
	la, ok1 := ta.X.(*ssa.UnOp)
	lb, ok2 := tb.X.(*ssa.UnOp)
	if !ok1 || !ok2 {
		return false
	}
	fa, ok1 := la.X.(*ssa.FieldAddr)
	fb, ok2 := lb.X.(*ssa.FieldAddr)
	return ok1 && ok2 && fa.X == fb.X && fa.Field == fb.Field
}

// lookupOn returns the map lookups in fn on field "FileCache.<field>".
func lookupsOn(fn *ssa.Function, field string) []*ssa.Lookup {
	var out []*ssa.Lookup
	eachInstr(fn, func(in ssa.Instruction) {
		if lk, ok := in.(*ssa.Lookup); ok && lk.CommaOk && fieldOfLoad(lk.X) == "FileCache."+field {
			out = append(out, lk)
		}
	})
	return out
}

func okEdges(fn *ssa.Function, lk *ssa.Lookup, want bool) []Edge {
	set := map[ssa.Value]bool{}
	for _, v := range extractOf(lk, 1) {
		set[v] = true
	}
	return condEdges(fn, func(cond ssa.Value) (bool, bool) {
		if set[cond] {
			return want, !want
		}
		return false, false
	})
}

// cmpConstEdges: edges where v == k is known.
func cmpConstEdges(fn *ssa.Function, isV func(ssa.Value) bool, k int64, wantEq bool) []Edge {
	return condEdges(fn, func(cond ssa.Value) (bool, bool) {
		bo, ok := cond.(*ssa.BinOp)
		if !ok || (bo.Op != token.EQL && bo.Op != token.NEQ) {
			return false, false
		}
		var other ssa.Value
		if isV(bo.X) {
			other = bo.Y
		} else if isV(bo.Y) {
			other = bo.X
		} else {
			return false, false
		}
		c, isC := intConst(other)
		if !isC || c != k {
			return false, false
		}
		eqOnTrue := bo.Op == token.EQL
		if eqOnTrue == wantEq {
			return true, false
		}
		return false, true
	})
}

func ruleFCCloseGuard(r *Report) {
	const rule = "fc-close-guard"
	e := r.E
	n := 0
	for _, fn := range funcsCalling(e, []string{"FC"}, "(*os.File).Close") {
		r.fn(fn)
		for _, s := range callSites(fn, "(*os.File).Close") {
			n++
			r.Sites++
			f := s.Common().Args[0]
			key := shortFunc(fn) + "/os.File.Close"
			// Form A: ent.file closed on ent.refs == 0
			if ent, ok := entryFieldLoad(f, "file"); ok {
				es := cmpConstEdges(fn, func(v ssa.Value) bool {
					e2, ok := entryFieldLoad(v, "refs")
					return ok && sameEntry(e2, ent)
				}, 0, true)
				if ok, path := guarded(fn, s, mkEdgeSet(es), nil); ok && len(es) > 0 {
					r.Ok(rule, key, s.Pos(), "form A: an entry's file is closed only on the refs == 0 edge of the same entry")
				} else {
					r.BadPath(rule, key, s.Pos(), "a cached entry's file can be closed without its reference count having been found zero: a handle that is still lent out gets closed", path)
				}
				continue
			}
			p, isParam := f.(*ssa.Parameter)
			if !isParam {
				r.Bad(rule, key, s.Pos(), "the closed handle is neither an entry's file nor the caller's handle: unrecognised close in the file cache")
				continue
			}
			// Forms B and C need the removed[file] lookup keyed by the same handle
			var rem *ssa.Lookup
			for _, lk := range lookupsOn(fn, "removed") {
				if lk.Index == ssa.Value(p) {
					rem = lk
				}
			}
			if rem == nil {
				r.Bad(rule, key, s.Pos(), "the caller's handle is closed without consulting FileCache.removed for that handle")
				continue
			}
			refsVals := map[ssa.Value]bool{}
			for _, v := range extractOf(rem, 0) {
				refsVals[v] = true
			}
			// B: present in removed with count 1
			bEdges := cmpConstEdges(fn, func(v ssa.Value) bool { return refsVals[v] }, 1, true)
			okB1, _ := guarded(fn, s, mkEdgeSet(okEdges(fn, rem, true)), nil)
			okB2, _ := guarded(fn, s, mkEdgeSet(bEdges), nil)
			if okB1 && okB2 && len(bEdges) > 0 {
				r.Ok(rule, key, s.Pos(), "form B: a removed handle is closed only when its remaining count is 1 (last holder)")
				continue
			}
			// C: not in removed, and not the cached entry (no entry by that name, or the entry holds a different File)
			okC1, _ := guarded(fn, s, mkEdgeSet(okEdges(fn, rem, false)), nil)
			var alt []Edge
			for _, lk := range lookupsOn(fn, "cache") {
				alt = append(alt, okEdges(fn, lk, false)...)
			}
			alt = append(alt, condEdges(fn, func(cond ssa.Value) (bool, bool) {
				bo, ok := cond.(*ssa.BinOp)
				if !ok || (bo.Op != token.EQL && bo.Op != token.NEQ) {
					return false, false
				}
				_, isEF1 := entryFieldLoad(bo.X, "file")
				_, isEF2 := entryFieldLoad(bo.Y, "file")
				if !(isEF1 && bo.Y == ssa.Value(p)) && !(isEF2 && bo.X == ssa.Value(p)) {
					return false, false
				}
				if bo.Op == token.EQL {
					return false, true
				}
				return true, false
			})...)
			okC2, path := guarded(fn, s, mkEdgeSet(alt), nil)
			if okC1 && okC2 && len(alt) > 0 {
				r.Ok(rule, key, s.Pos(), "form C: an unmanaged handle (not in removed, and not the File held by the cache entry of that name) is closed directly")
				continue
			}
			r.BadPath(rule, key, s.Pos(), "the caller's handle can be closed although it may still be shared: it is neither the last reference of a removed handle nor shown to be unmanaged (absent from removed AND not the cached File)", path)
		}
	}
	if n < 3 {
		r.Bad(rule, "inventory", token.NoPos, fmt.Sprintf("found %d os.File.Close sites in the file cache, expected 3 (evict/clear, last removed holder, unmanaged)", n))
	}
	r.Min(rule, 3)
}

func ruleFCIdentity(r *Report) {
	const rule = "fc-identity"
	fn := r.need(rule, "FC", "(*FileCache).Close")
	if fn == nil {
		return
	}
	if len(fn.Params) < 2 {
		r.Undecided(rule, "FileCache.Close has no file parameter")
		return
	}
	p := fn.Params[1]
	n := 0
	for _, st := range fieldStores(fn, "entry.refs") {
		n++
		ent := st.Addr.(*ssa.FieldAddr).X
		id := condEdges(fn, func(cond ssa.Value) (bool, bool) {
			bo, ok := cond.(*ssa.BinOp)
			if !ok || (bo.Op != token.EQL && bo.Op != token.NEQ) {
				return false, false
			}
			e1, ok1 := entryFieldLoad(bo.X, "file")
			e2, ok2 := entryFieldLoad(bo.Y, "file")
			match := (ok1 && sameEntry(e1, ent) && bo.Y == ssa.Value(p)) || (ok2 && sameEntry(e2, ent) && bo.X == ssa.Value(p))
			if !match {
				return false, false
			}
			if bo.Op == token.EQL {
				return true, false
			}
			return false, true
		})
		ok, path := guarded(fn, st, mkEdgeSet(id), nil)
		if ok && len(id) > 0 {
			r.Ok(rule, "(*FileCache).Close/refs-write-identity", instrPos(st), "an entry's count is changed only after the entry was shown to hold this very *os.File")
		} else {
			r.BadPath(rule, "(*FileCache).Close/refs-write-identity", instrPos(st), "Close changes the reference count of a cache entry found by NAME without checking that it holds the handle being released: with the name reopened meanwhile (capacity 0 → n), releasing the old handle decrements the new entry, the old descriptor leaks and the new handle is closed by the next eviction while lent out", path)
		}
	}
	if n == 0 {
		r.Bad(rule, "(*FileCache).Close/refs-write", fn.Pos(), "FileCache.Close never decrements an entry's reference count")
	}
	r.Min(rule, 1)
}

func ruleFCRefs(r *Report) {
	const rule = "fc-refs"
	open := r.need(rule, "FC", "(*FileCache).Open")
	cl := r.need(rule, "FC", "(*FileCache).Close")
	re := r.need(rule, "FC", "(*FileCache).removeElement")
	if open == nil || cl == nil || re == nil {
		return
	}
	// Open: returning a cached entry's file requires refs++ first
	hit := 0
	for _, ret := range returnsOf(open) {
		v := retVal(ret, 0)
		ent, ok := entryFieldLoad(v, "file")
		if !ok {
			continue
		}
		hit++
		incs := map[ssa.Instruction]bool{}
		for _, st := range fieldStores(open, "entry.refs") {
			if !sameEntry(st.Addr.(*ssa.FieldAddr).X, ent) {
				continue
			}
			l := linEnv{}.lin(st.Val)
			if l.C == 1 && l.T["F:entry.refs"] == 1 {
				incs[st] = true
			}
		}
		ok2, path := precededBy(open, ret, incs, nil)
		if ok2 && len(incs) > 0 {
			r.Ok(rule, "Open/hit-increments", ret.Pos(), "a cached handle is handed out only after its entry's count was incremented")
		} else {
			r.BadPath(rule, "Open/hit-increments", ret.Pos(), "a cached handle can be handed out without incrementing its reference count: the next eviction closes it while lent out", path)
		}
	}
	if hit == 0 {
		r.Bad(rule, "Open/hit-increments", open.Pos(), "Open never returns a cached entry's file: the rule cannot be evaluated")
	}
	// Open: a new entry starts with count 1 and holds the returned file
	created := false
	eachInstr(open, func(in ssa.Instruction) {
		al, ok := in.(*ssa.Alloc)
		if !ok || !isNamed(al.Type(), "entry") {
			return
		}
		var refs1 bool
		var fileVal ssa.Value
		for _, ref := range *al.Referrers() {
			fa, ok := ref.(*ssa.FieldAddr)
			if !ok {
				continue
			}
			for _, rr := range *fa.Referrers() {
				st, ok := rr.(*ssa.Store)
				if !ok || st.Addr != ssa.Value(fa) {
					continue
				}
				switch fieldName(fa.X.Type(), fa.Field) {
				case "entry.refs":
					if k, isC := intConst(st.Val); isC && k == 1 {
						refs1 = true
					}
				case "entry.file":
					fileVal = st.Val
				}
			}
		}
		created = true
		retOK := false
		for _, ret := range returnsOf(open) {
			if fileVal != nil && sameValue(retVal(ret, 0), fileVal) {
				retOK = true
			}
		}
		r.Check(refs1 && retOK, rule, "Open/miss-creates-refs-1", al.Pos(), "a new entry is created with count 1 for the handle that is returned", "a new cache entry is not created with count 1 for the returned handle")
	})
	if !created {
		r.Bad(rule, "Open/miss-creates-refs-1", open.Pos(), "Open never creates a cache entry")
	}
	// decrements: only in Close, behind the refs == 0 rejection
	for _, fn := range funcsCalling(r.E, []string{"FC"}, "(*sync.Mutex).Lock") {
		for _, st := range fieldStores(fn, "entry.refs") {
			l := linEnv{}.lin(st.Val)
			if !(l.C == -1 && l.T["F:entry.refs"] == 1) {
				continue
			}
			ent := st.Addr.(*ssa.FieldAddr).X
			nz := cmpConstEdges(fn, func(v ssa.Value) bool {
				e2, ok := entryFieldLoad(v, "refs")
				return ok && sameEntry(e2, ent)
			}, 0, false)
			ok, path := guarded(fn, st, mkEdgeSet(nz), nil)
			inClose := fn == cl
			if ok && inClose && len(nz) > 0 {
				r.Ok(rule, "Close/decrement-behind-zero-check", instrPos(st), "counts are decremented only in Close and only when non-zero (never negative)")
			} else {
				r.BadPath(rule, shortFunc(fn)+"/decrement-behind-zero-check", instrPos(st), "an entry's count can be decremented without having been found non-zero, or outside FileCache.Close: counts may go negative and the handle is then never closed (or closed early)", path)
			}
		}
	}
	// removed map: decrement only when > 1 handled by close-guard form B; here: eviction keeps referenced handles
	nzEdges := cmpConstEdges(re, func(v ssa.Value) bool { _, ok := entryFieldLoad(v, "refs"); return ok }, 0, false)
	if len(nzEdges) == 0 {
		r.Bad(rule, "removeElement/referenced-kept", re.Pos(), "removeElement does not branch on the entry's reference count")
	}
	for _, ed := range nzEdges {
		ed := ed
		moved := func(in ssa.Instruction) bool {
			mu, ok := in.(*ssa.MapUpdate)
			if !ok || fieldOfLoad(mu.Map) != "FileCache.removed" {
				return false
			}
			_, k := entryFieldLoad(mu.Key, "file")
			_, v := entryFieldLoad(mu.Value, "refs")
			return k && v
		}
		ok, path := followedBy(re, nil, &ed, moved, nil)
		if ok {
			r.Ok(rule, "removeElement/referenced-kept", re.Pos(), "an evicted entry that is still referenced is moved to removed[file] with its count")
		} else {
			r.BadPath(rule, "removeElement/referenced-kept", re.Pos(), "an evicted entry that is still referenced is not recorded in removed with its count: its handle is never closed (leak) or its later Close hits the wrong branch", path)
		}
	}
	r.Min(rule, 4)
}

func ruleFCLocked(r *Report) {
	const rule = "fc-locked"
	e := r.E
	la := newLockAnalysis(e)
	fcType := e.NamedType("FC", "FileCache")
	if fcType == nil {
		r.Undecided(rule, "type filecache.FileCache not found")
		return
	}
	root := ThreadRoot{Name: "FCapi", SelfConcurrent: true}
	ms := e.Prog.MethodSets.MethodSet(types.NewPointer(fcType))
	for i := 0; i < ms.Len(); i++ {
		sel := ms.At(i)
		if !sel.Obj().Exported() {
			continue
		}
		if f := e.Prog.MethodValue(sel); f != nil && f.Blocks != nil {
			root.Funcs = append(root.Funcs, f)
			r.fn(f)
		}
	}
	for _, f := range root.Funcs {
		la.Walk(root.Name, f, LockSet{})
	}
	rt := rootTable{roots: []ThreadRoot{root}}
	reportRaces(r, la, rt, rule, nil, func(loc string) bool { return strings.HasPrefix(loc, "filecache.") })
	for _, p := range la.problems {
		r.Bad(rule, "balance/"+p.key, p.pos, p.detail)
	}
	r.Min(rule, 6)
}

// escapes lists how a handle value leaves the function or is closed directly.
func handleEscapes(v ssa.Value, seen map[ssa.Value]bool) []string {
	if seen[v] {
		return nil
	}
	seen[v] = true
	var out []string
	refs := v.Referrers()
	if refs == nil {
		return nil
	}
	for _, ref := range *refs {
		switch x := ref.(type) {
		case *ssa.Phi:
			out = append(out, handleEscapes(x, seen)...)
		case *ssa.Store:
			if x.Val == v {
				if _, isFA := x.Addr.(*ssa.FieldAddr); isFA {
					if !isLocalAlloc(x.Addr.(*ssa.FieldAddr).X) {
						out = append(out, "stored into a struct field")
					}
				} else if _, isAlloc := x.Addr.(*ssa.Alloc); !isAlloc {
					out = append(out, "stored through a pointer")
				}
			}
		case *ssa.Send:
			if x.X == v {
				out = append(out, "sent on a channel")
			}
		case *ssa.Return:
			out = append(out, "returned to the caller")
		case *ssa.MakeClosure:
			// captured by a closure (e.g. deferred cleanup): inspect uses there
		case ssa.CallInstruction:
			if cname(x) == "(*os.File).Close" && len(x.Common().Args) > 0 && x.Common().Args[0] == v {
				out = append(out, "closed with os.File.Close instead of FileCache.Close")
			}
		case *ssa.MakeInterface:
			out = append(out, handleEscapes(x, seen)...)
		}
	}
	return out
}

func ruleFCClient(r *Report) {
	const rule = "fc-client"
	e := r.E
	n := 0
	for _, fn := range moduleFuncs(e) {
		root := fn
		for root.Parent() != nil {
			root = root.Parent()
		}
		if root.Pkg != nil && root.Pkg.Pkg.Path() == pkgAlias["FC"] {
			continue
		}
		for _, o := range callSites(fn, "(*filecache.FileCache).Open") {
			oc := asCall(o)
			if oc == nil {
				continue
			}
			n++
			r.Sites++
			r.fn(fn)
			key := shortFunc(fn) + "/fileCache.Open"
			files := resultValues(oc, 0)
			isFile := func(v ssa.Value) bool {
				for _, f := range files {
					if v == f {
						return true
					}
				}
				return false
			}
			cacheField := receiverField(o)
			release := func(in ssa.Instruction) bool {
				ci, ok := in.(ssa.CallInstruction)
				if !ok || cname(ci) != "(*filecache.FileCache).Close" {
					return false
				}
				a := ci.Common().Args
				return len(a) == 2 && isFile(a[1]) && fieldOfLoad(a[0]) == cacheField
			}
			okAll := true
			var bad []*ssa.BasicBlock
			ses := successEdges(oc)
			if len(ses) == 0 {
				okAll = false
			}
			for _, se := range ses {
				se := se
				if ok, path := followedBy(fn, nil, &se, release, nil); !ok {
					okAll = false
					bad = path
				}
			}
			if okAll {
				r.Ok(rule, key+"/released", o.Pos(), "on success the handle is given back to the same cache (FileCache.Close, deferred or explicit) on every path")
			} else {
				r.BadPath(rule, key+"/released", o.Pos(), "a handle obtained from the file cache is not released through FileCache.Close of the same cache on every path: its entry's count never returns to zero, so the descriptor is never closed (and capacity+lent bound is exceeded)", bad)
			}
			// ... and at most once: an explicit release next to a deferred one, or two
			// explicit releases on one path, hand back a reference another holder owns
			var rels []ssa.Instruction
			deferred := false
			eachInstr(fn, func(in ssa.Instruction) {
				if release(in) {
					rels = append(rels, in)
					if _, isD := in.(*ssa.Defer); isD {
						deferred = true
					}
				}
			})
			double := false
			if deferred && len(rels) > 1 {
				double = true
			}
			for _, a := range rels {
				if _, isD := a.(*ssa.Defer); isD {
					continue
				}
				for _, b := range rels {
					if _, isD := b.(*ssa.Defer); isD {
						continue
					}
					if reach, _ := (Search{Fn: fn, From: a, Target: isInstr(b)}).Run(); reach {
						// the same call reached again round a loop is a new Open only if the Open is passed again
						if again, _ := (Search{Fn: fn, From: a, Target: isInstr(b), Avoid: isInstr(o)}).Run(); again {
							double = true
						}
					}
				}
			}
			r.Check(!double, rule, key+"/released-once", o.Pos(), "the handle is released exactly once per Open",
				"the handle obtained here can be released twice (an explicit FileCache.Close in addition to the deferred one, or two on one path): the second release consumes the reference of another holder of the same cached file — the next eviction, Remove or Clear closes the descriptor while that holder still uses it")
			var esc []string
			for _, f := range files {
				esc = append(esc, handleEscapes(f, map[ssa.Value]bool{})...)
			}
			if len(esc) == 0 {
				r.Ok(rule, key+"/no-escape", o.Pos(), "the lent handle is not closed directly, stored, sent or returned")
			} else {
				r.Bad(rule, key+"/no-escape", o.Pos(), "the lent handle is "+strings.Join(esc, ", ")+": a shared cached handle would be closed under other holders, or outlive its release")
			}
		}
	}
	if n < 3 {
		r.Bad(rule, "inventory", token.NoPos, fmt.Sprintf("found %d FileCache.Open client sites, expected at least 3", n))
	}
	r.Min(rule, 9)
}

func init() {
	register("C14", func(r *Report) {
		ruleFCCloseGuard(r)
		ruleFCIdentity(r)
		ruleFCRefs(r)
		ruleFCRemovedWrites(r)
		ruleFCShrink(r)
		ruleFCLocked(r)
		ruleFCClient(r)
		ruleFCListNonNil(r)
		ruleFCUnknownClosed(r)
		ruleFCDropAll(r)
		ruleFCOpenReturns(r)
		// the collectors remove and truncate files the cache may have lent out
		r.support([]string{"gc-not-current", "header-before-remove"})
	},
		"Decides structural necessary conditions of 'never closes a lent handle', not the behaviour over all operation sequences: every os.File.Close in package filecache (inventory, min 3) is dominated by last-holder evidence (entry refs == 0; removed-count == 1; or the handle is unmanaged: absent from removed and not the File held by the cached entry); FileCache.Close changes an entry's count only after showing the entry holds this very *os.File; counts are incremented exactly where a cached handle is handed out, decremented only behind a non-zero check, evicted-but-referenced entries move to removed with their count; every access to FileCache/entry fields holds FileCache.lock (lockset analysis with all exported methods as self-concurrent roots); every client Open outside the package is paired with FileCache.Close of the same cache on all success paths and the handle does not escape. Not covered: descriptor-count bound, behaviour under arbitrary operation orders beyond these guards.",
		"entries reached through container/list elements are identified by (element, Value) loads; list internals are external code")
}
