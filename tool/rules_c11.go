package main

import (
	"go/token"
	"go/types"
	"strings"

	"golang.org/x/tools/go/ssa"
)

// C11: "GC actually reclaims space, in bounded cycles". The behaviour (byte
// counts, number of cycles, fixed point) is a quantity of executions and is
// NOT decided. What is decided is the *shape* progress rests on — each rule a
// necessary condition: if it is violated there is a history ending in a set of
// files without live data that no number of cycles releases.
//
//   progress-rescheduled   the supervisor re-arms its timer after every finished cycle and every cycle
//                          goroutine runs the collector and signals completion
//   progress-affected      files in which the freelist pass marked records are taken out of the visited
//                          set before the file loop; deleteRecords records every file it marked in
//   progress-file-loop     the file loops start at the header's first file (or the resume point), advance
//                          by one, and pass over a file only for a stated reason
//   progress-unlink        an empty oldest file is unlinked (and the header advanced) in the same pass
//   progress-empty-true    a zero-length file and a file cut at offset 0 are reported empty
//   progress-truncate      a trailing free span found by a completed scan is cut off
//   progress-mark          an index record no bucket refers to is marked free in the same pass
//   progress-lowuse        a file at or above the low-use threshold has its last live records relocated
//   progress-resume        an index GC pass stopped by the time limit resumes at the file it stopped at

// ---------------------------------------------------------------------------

func ruleProgressRescheduled(r *Report) {
	const rule = "progress-rescheduled"
	for _, t := range []struct{ alias, fn, gc string }{
		{"M", "(*primaryGC).run", "(*mhprimary.primaryGC).gc"},
		{"I", "(*Index).garbageCollector", "(*index.Index).gc"},
	} {
		sup := r.need(rule, t.alias, t.fn)
		if sup == nil {
			continue
		}
		key := shortFunc(sup)
		sel, stopIdx, _ := stopSelect(sup)
		if sel == nil {
			r.Bad(rule, key+"/select", sup.Pos(), "supervisor select not found")
			continue
		}
		resets := instrSet(callSites(sup, "(*time.Timer).Reset"))
		var gos []*ssa.Go
		eachInstr(sup, func(in ssa.Instruction) {
			if g, ok := in.(*ssa.Go); ok {
				gos = append(gos, g)
			}
		})
		spawnOrReset := func(in ssa.Instruction) bool {
			if resets[in] {
				return true
			}
			_, isGo := in.(*ssa.Go)
			return isGo
		}
		for i := range sel.States {
			if i == stopIdx {
				continue
			}
			for _, ed := range selectCaseEdges(sup, sel, i) {
				ed := ed
				reach, path := Search{Fn: sup, FromEdge: &ed, Target: isInstr(sel), Avoid: spawnOrReset}.Run()
				if reach {
					r.BadPath(rule, key+"/case-rearms-or-spawns", instrPos(sel), "a case of the supervisor's select goes back to waiting without starting a cycle and without re-arming the timer: after that the timer never fires again and no further GC cycle runs — space freed later is never reclaimed", path)
				} else {
					r.Ok(rule, key+"/case-rearms-or-spawns", instrPos(sel), "every non-stop case either starts a cycle or re-arms the timer before waiting again")
				}
			}
		}
		if len(resets) == 0 {
			r.Bad(rule, key+"/timer-rearmed", sup.Pos(), "the cycle timer is never re-armed")
		}
		if len(gos) == 0 {
			r.Bad(rule, key+"/cycle", sup.Pos(), "the supervisor starts no cycle goroutine")
		}
		for _, g := range gos {
			var cl *ssa.Function
			switch v := g.Call.Value.(type) {
			case *ssa.MakeClosure:
				cl, _ = v.Fn.(*ssa.Function)
			case *ssa.Function:
				cl = v
			}
			if cl == nil {
				r.Undecided(rule, key+": cycle goroutine target not resolved")
				continue
			}
			r.fn(cl)
			gcCalls := instrSet(callSites(cl, t.gc))
			if len(gcCalls) == 0 {
				r.Bad(rule, key+"/cycle-runs-collector", cl.Pos(), "the cycle goroutine does not call the collector")
				continue
			}
			bad := false
			for _, ret := range returnsOf(cl) {
				if cl.Recover != nil && ret.Block() == cl.Recover {
					continue
				}
				if ok, path := precededBy(cl, ret, gcCalls, nil); !ok {
					bad = true
					r.BadPath(rule, key+"/cycle-runs-collector", ret.Pos(), "a GC cycle can end without having called the collector: the cycle counts as finished and the timer is re-armed, but nothing was reclaimed", path)
				}
			}
			if !bad {
				r.Ok(rule, key+"/cycle-runs-collector", cl.Pos(), "every cycle calls the collector before it ends")
			}
			isClose := func(in ssa.Instruction) bool {
				switch c := in.(type) {
				case *ssa.Call:
					return cname(c) == "builtin.close"
				case *ssa.Defer:
					return cname(c) == "builtin.close"
				}
				return false
			}
			if ok, path := followedBy(cl, nil, nil, isClose, nil); ok {
				r.Ok(rule, key+"/cycle-signals-completion", cl.Pos(), "every exit of the cycle closes its completion channel")
			} else {
				r.BadPath(rule, key+"/cycle-signals-completion", cl.Pos(), "a GC cycle can end without closing its completion channel: the supervisor never re-arms the timer and no further cycle runs", path)
			}
		}
	}
	r.Min(rule, 6)
}

// ---------------------------------------------------------------------------

func isMapOfField(v ssa.Value, field string) bool {
	return fieldOfLoad(v) == field || derives(v, flowOpts{}, isFieldLoad(field))
}

func ruleProgressAffected(r *Report) {
	const rule = "progress-affected"
	if fn := r.need(rule, "M", "(*primaryGC).gc"); fn != nil {
		pfl := callSites(fn, "mhprimary.processFreeList")
		reaps := callSites(fn, "(*mhprimary.primaryGC).reapRecords")
		var dels []ssa.CallInstruction
		for _, d := range callSites(fn, "builtin.delete") {
			if isMapOfField(d.Common().Args[0], "primaryGC.visited") {
				dels = append(dels, d)
			}
		}
		key := "(*primaryGC).gc/affected-files-unvisited"
		switch {
		case len(pfl) == 0 || len(reaps) == 0:
			r.Bad(rule, key, fn.Pos(), "freelist pass or reap call not found")
		case len(dels) == 0:
			r.Bad(rule, key, pfl[0].Pos(), "the files the freelist pass marked records in are not taken out of the visited set: a file that was visited before its records were freed is never looked at again, so its space is never reclaimed")
		default:
			okAll := true
			for _, d := range dels {
				// the deleted key comes from iterating over the affected set
				k := d.Common().Args[1]
				var next *ssa.Next
				derives(k, flowOpts{}, func(v ssa.Value) bool {
					if ex, ok := v.(*ssa.Extract); ok {
						if n, ok := ex.Tuple.(*ssa.Next); ok {
							next = n
							return true
						}
					}
					return false
				})
				if next == nil {
					okAll = false
					r.Bad(rule, key, d.Pos(), "the key taken out of the visited set is not an element of the affected set")
					continue
				}
				rng, _ := next.Iter.(*ssa.Range)
				fromPFL := false
				if rng != nil {
					pc := asCall(pfl[0])
					fromPFL = derives(rng.X, flowOpts{}, func(v ssa.Value) bool {
						if pc != nil && (v == ssa.Value(pc)) {
							return true
						}
						if ex, ok := v.(*ssa.Extract); ok && pc != nil && ex.Tuple == ssa.Value(pc) && ex.Index == 0 {
							return true
						}
						_, isParam := v.(*ssa.Parameter)
						return isParam && d.Parent() != fn
					})
				}
				if !fromPFL {
					okAll = false
					r.Bad(rule, key, d.Pos(), "the loop that un-visits files does not iterate over the set returned by the freelist pass")
					continue
				}
				// every element is un-visited: from the `ok` edge of next back to next, delete is passed
				for _, ed := range boolEdges(d.Parent(), firstOr(extractOf(next, 0)), true) {
					ed := ed
					if reach, path := (Search{Fn: d.Parent(), FromEdge: &ed, Target: isInstr(next), Avoid: isInstr(d)}).Run(); reach {
						okAll = false
						r.BadPath(rule, key, d.Pos(), "an element of the affected set can be passed over without being taken out of the visited set", path)
					}
				}
				// and the un-visiting happens before the file loop
				if d.Parent() == fn && rng != nil {
					for _, rp := range reaps {
						if ok, path := precededBy(fn, rp, map[ssa.Instruction]bool{rng: true}, nil); !ok {
							okAll = false
							r.BadPath(rule, key, rp.Pos(), "the file loop can be reached without un-visiting the affected files first", path)
						}
					}
				}
			}
			if okAll {
				r.Ok(rule, key, dels[0].Pos(), "every file of the affected set is taken out of the visited set before the file loop")
			}
		}
		// a file is marked visited only after it was reaped successfully
		var marks []ssa.Instruction
		eachInstrScope(fn, func(in ssa.Instruction) {
			if mu, ok := in.(*ssa.MapUpdate); ok && isMapOfField(mu.Map, "primaryGC.visited") {
				marks = append(marks, mu)
			}
		})
		key = "(*primaryGC).gc/visited-after-reap"
		for _, m := range marks {
			okOne := false
			var path []*ssa.BasicBlock
			for _, rp := range reaps {
				if c := asCall(rp); c != nil && m.Parent() == fn {
					if ok, p := successGuard(fn, m, c); ok {
						okOne = true
					} else {
						path = p
					}
				}
			}
			if okOne {
				r.Ok(rule, key, m.Pos(), "a file is marked visited only after its reap succeeded")
			} else {
				r.BadPath(rule, key, m.Pos(), "a file can be marked visited without having been reaped successfully: it is not looked at again until the freelist touches it, so free space in it is never reclaimed", path)
			}
		}
	}
	if fn := r.need(rule, "M", "(*primaryGC).gc"); fn != nil {
		// a file that was reaped is recorded as visited even when the time limit then ends the pass
		key := "(*primaryGC).gc/reaped-file-recorded-before-time-check"
		var marks []ssa.Instruction
		eachInstrScope(fn, func(in ssa.Instruction) {
			if mu, ok := in.(*ssa.MapUpdate); ok && isMapOfField(mu.Map, "primaryGC.visited") {
				marks = append(marks, mu)
			}
		})
		var allowed []Edge
		for _, oc := range allCalls(fn) {
			if cc := asCall(oc); cc != nil && cname(cc) != "(context.Context).Err" {
				allowed = append(allowed, failureEdges(cc)...)
			}
		}
		for _, rp := range callSites(fn, "(*mhprimary.primaryGC).reapRecords") {
			c := asCall(rp)
			if c == nil {
				continue
			}
			bad := false
			for _, se := range successEdges(c) {
				se := se
				if reach, path := (Search{Fn: fn, FromEdge: &se, Target: isReturn, Avoid: anyOf(instrSet(marks)), AvoidEdges: mkEdgeSet(allowed)}).Run(); reach {
					bad = true
					r.BadPath(rule, key, rp.Pos(), "after a file was reaped successfully the pass can end (time limit) without recording the file as visited: with a time limit shorter than one pass every cycle starts over at the same oldest file and never reaches the files behind it", path)
				}
			}
			if !bad {
				r.Ok(rule, key, rp.Pos(), "a reaped file is recorded as visited before the pass can end")
			}
		}
	}
	if fn := r.need(rule, "M", "deleteRecords"); fn != nil {
		key := "deleteRecords/marked-files-recorded"
		var affected *ssa.Parameter
		for _, p := range fn.Params {
			if _, ok := p.Type().Underlying().(*types.Map); ok {
				affected = p
			}
		}
		var updates []ssa.Instruction
		eachInstrScope(fn, func(in ssa.Instruction) {
			if mu, ok := in.(*ssa.MapUpdate); ok && affected != nil && (mu.Map == ssa.Value(affected) || derives(mu.Map, flowOpts{}, func(v ssa.Value) bool { return v == ssa.Value(affected) })) {
				updates = append(updates, mu)
			}
		})
		writes := callSites(fn, "(*os.File).WriteAt")
		if affected == nil || len(updates) == 0 || len(writes) == 0 {
			r.Bad(rule, key, fn.Pos(), "deleteRecords does not record the files it marked records in (affected set): the collector does not revisit those files and their space is never reclaimed")
		} else {
			// ways round the map update: the comparison of the two counters, the "no file open" test —
			// each only in the polarity that goes round the update
			allowed := bypassEdges(fn, instrSet(updates), func(cond ssa.Value) bool {
				bo, ok := cond.(*ssa.BinOp)
				if !ok {
					return false
				}
				if (bo.Op == token.NEQ || bo.Op == token.EQL) && (isNilConst(bo.X) || isNilConst(bo.Y)) {
					v := bo.X
					if isNilConst(v) {
						v = bo.Y
					}
					return strings.HasSuffix(v.Type().String(), "os.File")
				}
				isCounter := func(v ssa.Value) bool {
					b, ok := v.Type().Underlying().(*types.Basic)
					if !ok || b.Kind() != types.Int {
						return false
					}
					if c, isCall := v.(*ssa.Call); isCall && cname(c) == "builtin.len" {
						return false // the range loop's own bound
					}
					_, isConst := v.(*ssa.Const)
					return !isConst
				}
				switch bo.Op {
				case token.GTR, token.LSS, token.GEQ, token.LEQ:
					return isCounter(bo.X) && isCounter(bo.Y)
				}
				return false
			})
			okAll := true
			for _, w := range writes {
				reach, path := Search{Fn: fn, From: w, Target: isReturn, Avoid: anyOf(instrSet(updates)), AvoidEdges: mkEdgeSet(allowed)}.Run()
				if reach {
					okAll = false
					r.BadPath(rule, key, w.Pos(), "after a record was marked deleted the function can return without entering that file in the affected set (other than through the marked-count comparison): the collector does not revisit the file", path)
				}
			}
			for _, u := range updates {
				mu := u.(*ssa.MapUpdate)
				if !derives(mu.Key, flowOpts{}, func(v ssa.Value) bool {
					ex, ok := v.(*ssa.Extract)
					if !ok {
						return false
					}
					c, ok := ex.Tuple.(*ssa.Call)
					return ok && cname(c) == "mhprimary.localizePrimaryPos" && ex.Index == 1
				}) {
					okAll = false
					r.Bad(rule, key, mu.Pos(), "the file number entered in the affected set is not the file number decoded from a freelist entry")
				}
			}
			// the file entered is the one that was open while the counted records were marked: the
			// loop-carried file number (decided before this iteration's entry was decoded), not the
			// file number of the entry that causes the switch
			for _, u := range updates {
				mu := u.(*ssa.MapUpdate)
				phi, isPhi := stripIntConv(mu.Key).(*ssa.Phi)
				carried := false
				if isPhi {
					for _, lc := range callSites(fn, "mhprimary.localizePrimaryPos") {
						if lc.Parent() == phi.Parent() && phi.Block().Dominates(lc.Block()) {
							carried = true
						}
					}
				}
				if !carried {
					okAll = false
					r.Bad(rule, key, mu.Pos(), "the file number entered in the affected set is the one of the freelist entry being looked at, not the loop-carried number of the file that was open while the counted records were marked: on a file switch the marks are credited to the file being entered, the file just finished stays in the visited set and its freed space is never reclaimed")
				}
			}
			if okAll {
				r.Ok(rule, key, updates[0].Pos(), "every file in which a record was marked is entered in the affected set")
			}
		}
	}
	r.Min(rule, 3)
}

// bypassEdges: for every If of fn whose (negation-stripped) condition satisfies
// isReason, the out-edge that goes round the work — the edge whose target does
// not dominate (or contain) a work instruction while the other edge's target
// does. Only that polarity is a "stated reason" for not doing the work.
func bypassEdges(fn *ssa.Function, work map[ssa.Instruction]bool, isReason func(cond ssa.Value) bool) []Edge {
	leads := func(b *ssa.BasicBlock) bool {
		for w := range work {
			if w.Parent() == fn && b.Dominates(w.Block()) {
				return true
			}
		}
		return false
	}
	var out []Edge
	for _, b := range fn.Blocks {
		ifi, ok := lastInstr(b).(*ssa.If)
		if !ok {
			continue
		}
		cond, _ := stripNot(ifi.Cond)
		if !isReason(cond) {
			continue
		}
		l0, l1 := leads(b.Succs[0]) && len(b.Succs[0].Preds) == 1, leads(b.Succs[1]) && len(b.Succs[1].Preds) == 1
		if !l0 && !l1 {
			// join blocks: fall back to plain dominance
			l0, l1 = leads(b.Succs[0]), leads(b.Succs[1])
		}
		switch {
		case l0 && !l1:
			out = append(out, Edge{b, 1})
		case l1 && !l0:
			out = append(out, Edge{b, 0})
		}
	}
	return out
}

func firstOr(vs []ssa.Value) ssa.Value {
	if len(vs) == 0 {
		return nil
	}
	return vs[0]
}

// ---------------------------------------------------------------------------

// loopPhi finds the file-number loop variable of a collector: a uint32 phi
// compared (!=) with a value loaded from fileField.
func fileLoopPhi(fn *ssa.Function, fileField string) (*ssa.Phi, *ssa.If) {
	var phi *ssa.Phi
	var hdr *ssa.If
	for _, b := range fn.Blocks {
		ifi, ok := lastInstr(b).(*ssa.If)
		if !ok {
			continue
		}
		cond, _ := stripNot(ifi.Cond)
		bo, ok := cond.(*ssa.BinOp)
		if !ok || (bo.Op != token.NEQ && bo.Op != token.EQL && bo.Op != token.LSS) {
			continue
		}
		for _, pr := range [][2]ssa.Value{{bo.X, bo.Y}, {bo.Y, bo.X}} {
			p, ok := pr[0].(*ssa.Phi)
			if !ok || p.Block() != b {
				continue
			}
			if derives(pr[1], flowOpts{}, isFieldLoad(fileField)) {
				if phi == nil {
					phi, hdr = p, ifi
				}
			}
		}
	}
	return phi, hdr
}

func ruleProgressFileLoop(r *Report) {
	const rule = "progress-file-loop"
	type spec struct {
		alias, fn, fileField string
		work                 []string
		resume               string
		wrap                 bool
	}
	for _, s := range []spec{
		{"M", "(*primaryGC).gc", "MultihashPrimary.fileNum", []string{"(*mhprimary.primaryGC).reapRecords"}, "", false},
		{"I", "(*Index).gc", "Index.fileNum", []string{"(*index.Index).reapIndexRecords"}, "Index.gcResumeAt", true},
		{"I", "(*Index).truncateFreeFiles", "Index.fileNum", []string{"os.Remove", "os.Truncate", "(*os.File).Truncate"}, "", false},
	} {
		fn := r.need(rule, s.alias, s.fn)
		if fn == nil {
			continue
		}
		key := shortFunc(fn)
		phi, hdr := fileLoopPhi(fn, s.fileField)
		if phi == nil {
			r.Bad(rule, key+"/loop", fn.Pos(), "file loop (a counter compared with the current file number) not found")
			continue
		}
		// start value(s) and step
		hdrBlock := phi.Block()
		startOK, stepOK := true, true
		nStart := 0
		for i, ev := range phi.Edges {
			pred := hdrBlock.Preds[i]
			inLoop := hdrBlock.Dominates(pred)
			if !inLoop {
				nStart++
				ok := derives(ev, flowOpts{}, func(v ssa.Value) bool {
					f := fieldOfLoad(v)
					return f == "Header.FirstFile" || (s.resume != "" && f == s.resume)
				})
				if !ok {
					startOK = false
				}
				continue
			}
			if !stepOfPhi(ev, phi, s.wrap, map[ssa.Value]bool{}) {
				stepOK = false
			}
		}
		r.Check(startOK && nStart > 0, rule, key+"/starts-at-first-file", phi.Pos(), "the file loop starts at the header's first file (or the resume point)", "the collector's file loop does not start at the header's first file: older files are never visited and never reclaimed")
		r.Check(stepOK, rule, key+"/advances-by-one", phi.Pos(), "the file counter advances by one file per iteration", "the collector's file counter does not advance by exactly one per iteration: files are skipped (never reclaimed) or the loop does not move past a file")
		// skip reasons
		work := instrSet(callSites(fn, s.work...))
		if len(work) == 0 {
			r.Bad(rule, key+"/every-file-processed", fn.Pos(), "no reap/remove/truncate call in the file loop")
			continue
		}
		var allowed []Edge
		allowed = append(allowed, condEdges(fn, func(cond ssa.Value) (bool, bool) {
			// `_, ok := set[fileNum]` with the loop counter as key
			ex, ok := cond.(*ssa.Extract)
			if !ok || ex.Index != 1 {
				return false, false
			}
			lk, ok := ex.Tuple.(*ssa.Lookup)
			if !ok || !lk.CommaOk {
				return false, false
			}
			if stripIntConv(lk.Index) != ssa.Value(phi) {
				return false, false
			}
			return true, false
		})...)
		if len(s.work) > 1 { // truncateFreeFiles: stat/truncate failures and "already empty"
			for _, c := range allCalls(fn) {
				if cc := asCall(c); cc != nil {
					n := cname(cc)
					if n == "os.Stat" || n == "os.Truncate" || n == "(*os.File).Truncate" {
						allowed = append(allowed, failureEdges(cc)...)
					}
				}
			}
			allowed = append(allowed, condEdges(fn, func(cond ssa.Value) (bool, bool) {
				bo, ok := cond.(*ssa.BinOp)
				if !ok || (bo.Op != token.EQL && bo.Op != token.NEQ) {
					return false, false
				}
				var x ssa.Value
				switch {
				case isZeroConst(bo.Y):
					x = bo.X
				case isZeroConst(bo.X):
					x = bo.Y
				default:
					return false, false
				}
				c, isCall := stripIntConv(x).(*ssa.Call)
				if !isCall || !strings.HasSuffix(cname(c), "FileInfo).Size") {
					return false, false
				}
				return bo.Op == token.EQL, bo.Op == token.NEQ
			})...)
		}
		enter := Edge{hdr.Block(), 0}
		if c, neg := stripNot(hdr.Cond); neg || c.(*ssa.BinOp).Op == token.EQL {
			enter = Edge{hdr.Block(), 1}
		}
		// the work may sit in a helper shared with a sibling loop (Search walks through it): match by callee
		isWork := isCallNamed(s.work...)
		reach, path := Search{Fn: fn, FromEdge: &enter, Target: isInstr(hdr), Avoid: func(in ssa.Instruction) bool { return work[in] || isWork(in) }, AvoidEdges: mkEdgeSet(allowed)}.Run()
		if reach {
			r.BadPath(rule, key+"/every-file-processed", hdr.Pos(), "the collector can pass over a file without processing it and without a stated reason (already visited / still referenced / unreadable / already empty): that file is never reclaimed however many cycles run", path)
		} else {
			r.Ok(rule, key+"/every-file-processed", hdr.Pos(), "a file is passed over only for a stated reason")
		}
	}
	r.Min(rule, 9)
}

// stepOfPhi: v is phi+1, or (wrap) a merge of phi+1 and the header's first file.
func stepOfPhi(v ssa.Value, phi *ssa.Phi, wrap bool, seen map[ssa.Value]bool) bool {
	v = stripIntConv(v)
	if seen[v] {
		return true
	}
	seen[v] = true
	switch x := v.(type) {
	case *ssa.BinOp:
		if x.Op != token.ADD {
			return false
		}
		if k, ok := intConst(x.Y); ok && k == 1 && stripIntConv(x.X) == ssa.Value(phi) {
			return true
		}
		if k, ok := intConst(x.X); ok && k == 1 && stripIntConv(x.Y) == ssa.Value(phi) {
			return true
		}
		return false
	case *ssa.Phi:
		if !wrap {
			return false
		}
		for _, e := range x.Edges {
			if !stepOfPhi(e, phi, wrap, seen) {
				return false
			}
		}
		return true
	case *ssa.UnOp:
		return wrap && fieldOfLoad(x) == "Header.FirstFile"
	}
	return false
}

// ---------------------------------------------------------------------------

func ruleProgressUnlink(r *Report) {
	const rule = "progress-unlink"
	for _, s := range []struct{ alias, fn, reap string }{
		{"M", "(*primaryGC).gc", "(*mhprimary.primaryGC).reapRecords"},
		{"I", "(*Index).gc", "(*index.Index).reapIndexRecords"},
	} {
		fn := r.need(rule, s.alias, s.fn)
		if fn == nil {
			continue
		}
		key := shortFunc(fn) + "/empty-oldest-file-unlinked"
		removes := instrSet(callSites(fn, "os.Remove"))
		if len(removes) == 0 {
			r.Bad(rule, key, fn.Pos(), "the collector never unlinks a file")
			continue
		}
		for _, rc := range callSites(fn, s.reap) {
			c := asCall(rc)
			if c == nil {
				continue
			}
			var allowed []Edge
			// reap said "not empty"
			for _, v := range resultValues(c, 0) {
				allowed = append(allowed, boolEdges(fn, v, false)...)
			}
			// not the header's first file
			allowed = append(allowed, condEdges(fn, func(cond ssa.Value) (bool, bool) {
				bo, ok := cond.(*ssa.BinOp)
				if !ok || (bo.Op != token.EQL && bo.Op != token.NEQ) {
					return false, false
				}
				if fieldOfLoad(bo.X) != "Header.FirstFile" && fieldOfLoad(bo.Y) != "Header.FirstFile" {
					return false, false
				}
				return bo.Op == token.NEQ, bo.Op == token.EQL
			})...)
			for _, oc := range allCalls(fn) {
				if cc := asCall(oc); cc != nil {
					allowed = append(allowed, failureEdges(cc)...)
				}
			}
			target := func(in ssa.Instruction) bool { return in == ssa.Instruction(c) || isReturn(in) }
			isRemove := isCallNamed("os.Remove")
			reach, path := Search{Fn: fn, From: c, Target: target, Avoid: func(in ssa.Instruction) bool { return removes[in] || isRemove(in) }, AvoidEdges: mkEdgeSet(allowed)}.Run()
			if reach {
				r.BadPath(rule, key, c.Pos(), "a file that was reaped empty and is the header's first file can be left in place (the pass moves on without unlinking it): the oldest file is never released", path)
			} else {
				r.Ok(rule, key, c.Pos(), "an empty file that is the header's first file is unlinked in the same pass")
			}
		}
	}
	r.Min(rule, 2)
}

// ---------------------------------------------------------------------------

func ruleProgressEmptyTrue(r *Report) {
	const rule = "progress-empty-true"
	for _, t := range [][2]string{{"I", "(*Index).reapIndexRecords"}, {"M", "(*primaryGC).reapRecords"}} {
		fn := r.need(rule, t[0], t[1])
		if fn == nil {
			continue
		}
		var truncOffs []ssa.Value
		for _, c := range callSites(fn, "(*os.File).Truncate", "os.Truncate") {
			a := c.Common().Args
			truncOffs = append(truncOffs, stripIntConv(a[len(a)-1]))
		}
		for _, kind := range []string{"size-zero", "cut-at-zero"} {
			kind := kind
			ev := condEdges(fn, func(cond ssa.Value) (bool, bool) {
				bo, ok := cond.(*ssa.BinOp)
				if !ok || (bo.Op != token.EQL && bo.Op != token.NEQ) {
					return false, false
				}
				var x ssa.Value
				switch {
				case isZeroConst(bo.Y):
					x = stripIntConv(bo.X)
				case isZeroConst(bo.X):
					x = stripIntConv(bo.Y)
				default:
					return false, false
				}
				match := false
				if kind == "cut-at-zero" {
					for _, tv := range truncOffs {
						if sameValue(x, tv) {
							match = true
						}
					}
				} else if c, isCall := x.(*ssa.Call); isCall && strings.HasSuffix(cname(c), "FileInfo).Size") {
					match = true
				}
				if !match {
					return false, false
				}
				return bo.Op == token.EQL, bo.Op == token.NEQ
			})
			key := shortFunc(fn) + "/" + kind + "-reports-empty"
			if len(ev) == 0 {
				r.Bad(rule, key, fn.Pos(), "the reap function has no '"+kind+"' test: a file that is (or was just made) empty is not reported empty, so the collector never unlinks it and never advances past it")
				continue
			}
			for _, ed := range ev {
				ed := ed
				if kind == "cut-at-zero" {
					// only meaningful behind the truncation
					behind := false
					for _, c := range callSites(fn, "(*os.File).Truncate", "os.Truncate") {
						if c.Block().Dominates(ed.From) {
							behind = true
						}
					}
					if !behind {
						continue
					}
				}
				notTrue := func(in ssa.Instruction) bool {
					ret, ok := in.(*ssa.Return)
					if !ok || (fn.Recover != nil && ret.Block() == fn.Recover) {
						return false
					}
					b, isC := boolConst(retVal(ret, 0))
					return !(isC && b)
				}
				reach, path := Search{Fn: fn, FromEdge: &ed, Target: notTrue}.Run()
				if reach {
					r.BadPath(rule, key, instrPos(lastInstr(ed.From)), "a file found empty ("+kind+") is not reported empty on every path: the collector neither unlinks it nor advances the header past it, so the files behind it can never become the oldest file", path)
				} else {
					r.Ok(rule, key, instrPos(lastInstr(ed.From)), "an empty file is reported empty")
				}
			}
		}
	}
	r.Min(rule, 4)
}

// ---------------------------------------------------------------------------

// eofEdges: edges on which `err == io.EOF` holds for a read of the scanned file.
func eofEdges(fn *ssa.Function) []Edge {
	return condEdges(fn, func(cond ssa.Value) (bool, bool) {
		bo, ok := cond.(*ssa.BinOp)
		if !ok || (bo.Op != token.EQL && bo.Op != token.NEQ) {
			return false, false
		}
		isEOF := func(v ssa.Value) bool {
			u, ok := v.(*ssa.UnOp)
			if !ok {
				return false
			}
			g, ok := u.X.(*ssa.Global)
			return ok && g.Name() == "EOF" && g.Pkg != nil && g.Pkg.Pkg.Path() == "io"
		}
		if !isEOF(bo.X) && !isEOF(bo.Y) {
			if c, ok := cond.(*ssa.Call); ok && cname(c) == "errors.Is" && len(c.Call.Args) == 2 && isEOF(c.Call.Args[1]) {
				return true, false
			}
			return false, false
		}
		return bo.Op == token.EQL, bo.Op == token.NEQ
	})
}

func ruleProgressTruncate(r *Report) {
	const rule = "progress-truncate"
	for _, t := range [][2]string{{"I", "(*Index).reapIndexRecords"}, {"M", "(*primaryGC).reapRecords"}} {
		fn := r.need(rule, t[0], t[1])
		if fn == nil {
			continue
		}
		key := shortFunc(fn) + "/trailing-free-span-cut"
		truncs := callSites(fn, "(*os.File).Truncate", "os.Truncate")
		eof := eofEdges(fn)
		if len(truncs) == 0 || len(eof) == 0 {
			r.Bad(rule, key, fn.Pos(), "the reap function never truncates the file (or has no end-of-file edge): free space at the end of a file is never released")
			continue
		}
		var truncOffs []ssa.Value
		for _, c := range truncs {
			a := c.Common().Args
			truncOffs = append(truncOffs, stripIntConv(a[len(a)-1]))
		}
		allowed := bypassEdges(fn, instrSet(truncs), func(cond ssa.Value) bool {
			bo, ok := cond.(*ssa.BinOp)
			if !ok {
				return false
			}
			// the span test: the truncation offset compared with another (non-constant) position
			switch bo.Op {
			case token.GTR, token.LSS, token.GEQ, token.LEQ:
				for _, tv := range truncOffs {
					for _, pr := range [][2]ssa.Value{{bo.X, bo.Y}, {bo.Y, bo.X}} {
						if sameValue(stripIntConv(pr[0]), tv) {
							if _, isC := pr[1].(*ssa.Const); !isC {
								return true
							}
						}
					}
				}
			case token.EQL, token.NEQ:
				// no way to re-point the index: relocation and truncation are off
				for _, v := range []ssa.Value{bo.X, bo.Y} {
					if fieldOfLoad(v) == "primaryGC.updateIndex" {
						return true
					}
				}
			}
			return false
		})
		for _, oc := range allCalls(fn) {
			if cc := asCall(oc); cc != nil {
				allowed = append(allowed, failureEdges(cc)...)
			}
		}
		bad := false
		for _, ed := range eof {
			ed := ed
			reach, path := Search{Fn: fn, FromEdge: &ed, Target: isReturn, Avoid: anyOf(instrSet(truncs)), AvoidEdges: mkEdgeSet(allowed)}.Run()
			if reach {
				bad = true
				r.BadPath(rule, key, instrPos(lastInstr(ed.From)), "after a completed scan the function can return without cutting off a trailing free span, for a reason other than 'the file does not end in a free span': free space at the end of the file is never released", path)
			}
		}
		if !bad {
			r.Ok(rule, key, truncs[0].Pos(), "a completed scan that found a trailing free span always truncates")
		}
	}
	r.Min(rule, 2)
}

// ---------------------------------------------------------------------------

func ruleProgressMark(r *Report) {
	const rule = "progress-mark"
	fn := r.need(rule, "I", "(*Index).reapIndexRecords")
	if fn == nil {
		return
	}
	key := "reapIndexRecords/unreferenced-record-marked"
	busy := callSites(fn, "(*index.Index).busy")
	writes := instrSet(callSites(fn, "(*os.File).WriteAt"))
	if len(busy) == 0 || len(writes) == 0 {
		r.Bad(rule, key, fn.Pos(), "reference test or marking write not found")
		return
	}
	for _, bc := range busy {
		c := asCall(bc)
		if c == nil {
			continue
		}
		var allowed []Edge
		for _, v := range resultValues(c, 0) {
			allowed = append(allowed, boolEdges(fn, v, true)...)
		}
		for _, oc := range allCalls(fn) {
			if cc := asCall(oc); cc != nil {
				allowed = append(allowed, failureEdges(cc)...)
			}
		}
		target := func(in ssa.Instruction) bool { return in == ssa.Instruction(c) || isReturn(in) }
		reach, path := Search{Fn: fn, From: c, Target: target, Avoid: anyOf(writes), AvoidEdges: mkEdgeSet(allowed)}.Run()
		if reach {
			r.BadPath(rule, key, c.Pos(), "a record that no bucket refers to can be passed over without being marked free: it is never merged into a free span and the file never shrinks", path)
		} else {
			r.Ok(rule, key, c.Pos(), "every record found unreferenced is marked free in the same pass")
		}
	}
	r.Min(rule, 1)
}

// ---------------------------------------------------------------------------

func ruleProgressLowUse(r *Report) {
	const rule = "progress-lowuse"
	fn := r.need(rule, "M", "(*primaryGC).reapRecords")
	if fn == nil {
		return
	}
	key := "reapRecords/low-use-file-drained"
	puts := callSites(fn, "(*mhprimary.MultihashPrimary).Put")
	eof := eofEdges(fn)
	if len(puts) == 0 || len(eof) == 0 {
		r.Bad(rule, key, fn.Pos(), "the reap function never relocates a record: a file with a few live records among free space is never drained")
		return
	}
	var pct *ssa.Parameter
	for _, p := range fn.Params {
		if b, ok := p.Type().Underlying().(*types.Basic); ok && b.Kind() == types.Int64 {
			pct = p
		}
	}
	var truncOffs []ssa.Value
	for _, c := range callSites(fn, "(*os.File).Truncate", "os.Truncate") {
		a := c.Common().Args
		truncOffs = append(truncOffs, stripIntConv(a[len(a)-1]))
	}
	// the position of the last live record: what the relocation loop reads at
	var busyVals []ssa.Value
	for _, p := range puts {
		for _, rd := range callSites(fn, "(*os.File).ReadAt") {
			if rd.Block().Dominates(p.Block()) && rd.Block() != fn.Blocks[0] {
				off := stripIntConv(rd.Common().Args[len(rd.Common().Args)-1])
				if phi, ok := off.(*ssa.Phi); ok {
					busyVals = append(busyVals, phi)
					for _, e := range phi.Edges {
						busyVals = append(busyVals, stripIntConv(e))
					}
				}
			}
		}
	}
	isBusyPos := func(v ssa.Value) bool {
		v = stripIntConv(v)
		for _, b := range busyVals {
			if v == b {
				return true
			}
		}
		return false
	}
	thresholdSeen := false
	thresholdOK := true
	allowed := bypassEdges(fn, instrSet(puts), func(cond ssa.Value) bool {
		bo, ok := cond.(*ssa.BinOp)
		if !ok {
			return false
		}
		usesPct := func(v ssa.Value) bool {
			return pct != nil && derives(v, flowOpts{Arith: true}, func(x ssa.Value) bool { return x == ssa.Value(pct) })
		}
		switch bo.Op {
		case token.GTR, token.LSS, token.GEQ, token.LEQ:
			if usesPct(bo.X) != usesPct(bo.Y) {
				// threshold: 100*free >= pct*(free+busy)
				thresholdSeen = true
				free, whole := bo.X, bo.Y
				op := bo.Op
				if usesPct(bo.X) {
					free, whole = bo.Y, bo.X
					op = map[token.Token]token.Token{token.GTR: token.LSS, token.LSS: token.GTR, token.GEQ: token.LEQ, token.LEQ: token.GEQ}[op]
				}
				_ = whole
				// the edge on which relocation happens: 100*free >= percent*(…) — either polarity of the test
				if ifb := condBlockOf(fn, cond); ifb != nil {
					leads := func(b *ssa.BasicBlock) bool {
						for _, p := range puts {
							if b.Dominates(p.Block()) {
								return true
							}
						}
						return false
					}
					onTrue, onFalse := leads(ifb.Succs[0]), leads(ifb.Succs[1])
					if neg := condNegated(ifb); neg {
						onTrue, onFalse = onFalse, onTrue
					}
					switch {
					case (op == token.GEQ || op == token.GTR) && onTrue && !onFalse:
					case (op == token.LSS || op == token.LEQ) && onFalse && !onTrue:
					default:
						thresholdOK = false
					}
				} else if op != token.GEQ && op != token.GTR {
					thresholdOK = false
				}
				if m, ok := stripIntConv(free).(*ssa.BinOp); !ok || m.Op != token.MUL {
					thresholdOK = false
				} else if k, ok := intConst(m.X); ok && k != 100 {
					thresholdOK = false
				} else if k, ok := intConst(m.Y); ok && k != 100 {
					thresholdOK = false
				}
				return true
			}
			// loop condition on the last live position (busyAt >= 0), span test
			if isBusyPos(bo.X) || isBusyPos(bo.Y) {
				return true
			}
			for _, tv := range truncOffs {
				if sameValue(stripIntConv(bo.X), tv) || sameValue(stripIntConv(bo.Y), tv) {
					return true
				}
			}
		case token.EQL, token.NEQ:
			for _, v := range []ssa.Value{bo.X, bo.Y} {
				if fieldOfLoad(v) == "primaryGC.updateIndex" {
					return true
				}
			}
			// busyAt == -1, freeAt == 0
			if isBusyPos(bo.X) || isBusyPos(bo.Y) {
				return true
			}
			for _, tv := range truncOffs {
				if (sameValue(stripIntConv(bo.X), tv) && isZeroConst(bo.Y)) || (sameValue(stripIntConv(bo.Y), tv) && isZeroConst(bo.X)) {
					return true
				}
			}
		}
		return false
	})
	for _, oc := range allCalls(fn) {
		if cc := asCall(oc); cc != nil {
			allowed = append(allowed, failureEdges(cc)...)
		}
	}
	bad := false
	for _, ed := range eof {
		ed := ed
		reach, path := Search{Fn: fn, FromEdge: &ed, Target: isReturn, Avoid: anyOf(instrSet(puts)), AvoidEdges: mkEdgeSet(allowed)}.Run()
		if reach {
			bad = true
			r.BadPath(rule, key, instrPos(lastInstr(ed.From)), "after a completed scan the function can return without relocating, for a reason other than the stated ones (no index callback, file emptied, no live record known, below the low-use threshold): low-use files are never drained", path)
		}
	}
	if !bad {
		r.Ok(rule, key, puts[0].Pos(), "relocation is skipped only for the stated reasons")
	}
	r.Check(thresholdSeen && thresholdOK, rule, "reapRecords/threshold-shape", fn.Pos(), "the low-use test has the form 100*free >= percent*(…)", "the low-use test is not of the form 100*free >= percent*(free+busy): files above the threshold are not drained (or the comparison is inverted)")
	r.Min(rule, 2)
}

// ---------------------------------------------------------------------------

func ruleProgressResume(r *Report) {
	const rule = "progress-resume"
	fn := r.need(rule, "I", "(*Index).gc")
	if fn == nil {
		return
	}
	key := "(*Index).gc/time-limit-resumes"
	reaps := callSites(fn, "(*index.Index).reapIndexRecords")
	atStores := fieldStores(fn, "Index.gcResumeAt")
	flagStores := fieldStores(fn, "Index.gcResume")
	if len(reaps) == 0 {
		r.Bad(rule, key, fn.Pos(), "reap call not found")
		return
	}
	phi, _ := fileLoopPhi(fn, "Index.fileNum")
	var setTrue []*ssa.Store
	for _, s := range flagStores {
		if b, isC := boolConst(s.Val); isC && b {
			setTrue = append(setTrue, s)
		}
	}
	var atOK []*ssa.Store
	for _, s := range atStores {
		if phi != nil && stripIntConv(s.Val) == ssa.Value(phi) {
			atOK = append(atOK, s)
		}
	}
	// the edge: the reap failed with DeadlineExceeded
	dl := condEdges(fn, func(cond ssa.Value) (bool, bool) {
		bo, ok := cond.(*ssa.BinOp)
		if !ok || (bo.Op != token.EQL && bo.Op != token.NEQ) {
			return false, false
		}
		isDL := func(v ssa.Value) bool {
			u, ok := v.(*ssa.UnOp)
			if !ok {
				return false
			}
			g, ok := u.X.(*ssa.Global)
			return ok && g.Name() == "DeadlineExceeded"
		}
		if !isDL(bo.X) && !isDL(bo.Y) {
			return false, false
		}
		return bo.Op == token.EQL, bo.Op == token.NEQ
	})
	n := 0
	for _, ed := range dl {
		ed := ed
		behind := false
		for _, rp := range reaps {
			if rp.Block().Dominates(ed.From) {
				behind = true
			}
		}
		if !behind {
			continue
		}
		n++
		for _, what := range []struct {
			name   string
			stores []*ssa.Store
		}{{"resume position (the file the pass stopped at)", atOK}, {"resume flag", setTrue}} {
			reach, path := Search{Fn: fn, FromEdge: &ed, Target: isReturn, Avoid: anyOf(instrSet(what.stores))}.Run()
			if reach || len(what.stores) == 0 {
				r.BadPath(rule, key, instrPos(lastInstr(ed.From)), "a pass stopped by the time limit can return without recording the "+what.name+": the next cycle starts over at the first file, and with a time limit shorter than one full pass the later files are never reached", path)
			} else {
				r.Ok(rule, key, instrPos(lastInstr(ed.From)), "a pass stopped by the time limit records the "+what.name)
			}
		}
	}
	if n == 0 {
		r.Bad(rule, key, fn.Pos(), "no time-limit branch behind the reap call")
	}
	// the resume request is consumed when it is honoured: the flag is cleared before the first file is
	// reaped, so a pass that fails (the recorded file has meanwhile been removed) does not make every
	// later pass start at the same missing file
	var clear []*ssa.Store
	for _, s := range flagStores {
		if b, isC := boolConst(s.Val); isC && !b {
			clear = append(clear, s)
		}
	}
	flagTrue := flagEdges(fn, []string{"Index.gcResume"}, true)
	if len(flagTrue) == 0 {
		r.Bad(rule, "(*Index).gc/resume-consumed", fn.Pos(), "no test of the resume flag")
	}
	for _, ed := range flagTrue {
		ed := ed
		reach, path := Search{Fn: fn, FromEdge: &ed, Target: anyOf(instrSet(reaps)), Avoid: anyOf(instrSet(clear))}.Run()
		if reach || len(clear) == 0 {
			r.BadPath(rule, "(*Index).gc/resume-consumed", instrPos(lastInstr(ed.From)), "a resumed pass starts reaping without having cleared the resume flag: if that pass fails (the recorded file was removed by the free-file scan in the meantime) every later cycle resumes at the same missing file and fails the same way — record reaping never runs again", path)
		} else {
			r.Ok(rule, "(*Index).gc/resume-consumed", instrPos(lastInstr(ed.From)), "the resume flag is cleared before the resumed pass starts")
		}
	}
	// the recorded position is where the next pass starts
	if phi != nil {
		used := false
		for i, ev := range phi.Edges {
			if phi.Block().Dominates(phi.Block().Preds[i]) {
				continue
			}
			if derives(ev, flowOpts{}, isFieldLoad("Index.gcResumeAt")) {
				used = true
			}
		}
		r.Check(used, rule, "(*Index).gc/resume-position-used", phi.Pos(), "a resumed pass starts at the recorded file", "the recorded resume position is never used as the start of the next pass")
	}
	r.Min(rule, 4)
}

// progress-timelimit: a time limit of 0 means "no limit". Every
// context.WithTimeout whose duration is a configured limit (a parameter or a
// captured variable, not a constant) is guarded by `limit != 0`; otherwise a
// store opened with GCTimeLimit(0) runs every cycle under a context that has
// already expired and never reclaims anything.
func ruleProgressTimeLimit(r *Report) {
	const rule = "progress-timelimit"
	n := 0
	for _, fn := range moduleFuncs(r.E) {
		for _, c := range callSites(fn, "context.WithTimeout") {
			if c.Parent() != fn {
				continue
			}
			d := stripIntConv(c.Common().Args[1])
			if _, isC := d.(*ssa.Const); isC {
				continue
			}
			n++
			r.fn(fn)
			// the same value, or two loads of the same captured variable (a parameter of the enclosing
			// function that the closure reads)
			same := func(a, b ssa.Value) bool {
				if sameValue(a, b) {
					return true
				}
				la, ok1 := a.(*ssa.UnOp)
				lb, ok2 := b.(*ssa.UnOp)
				if !ok1 || !ok2 || la.Op != token.MUL || lb.Op != token.MUL || la.X != lb.X {
					return false
				}
				if _, isFV := la.X.(*ssa.FreeVar); !isFV {
					return false
				}
				if refs := la.X.Referrers(); refs != nil {
					for _, rf := range *refs {
						if st, isSt := rf.(*ssa.Store); isSt && st.Addr == la.X {
							return false
						}
					}
				}
				return true
			}
			ev := condEdges(fn, func(cond ssa.Value) (bool, bool) {
				bo, ok := cond.(*ssa.BinOp)
				if !ok || (bo.Op != token.NEQ && bo.Op != token.EQL && bo.Op != token.GTR && bo.Op != token.LEQ) {
					return false, false
				}
				if !(same(stripIntConv(bo.X), d) && isZeroConst(bo.Y)) {
					if same(stripIntConv(bo.Y), d) && isZeroConst(bo.X) && (bo.Op == token.NEQ || bo.Op == token.EQL) {
						return bo.Op == token.NEQ, bo.Op == token.EQL
					}
					return false, false
				}
				switch bo.Op {
				case token.NEQ, token.GTR:
					return true, false
				default:
					return false, true
				}
			})
			ok, path := guarded(fn, c, mkEdgeSet(ev), nil)
			root := fn
			for root.Parent() != nil {
				root = root.Parent()
			}
			if ok && len(ev) > 0 {
				r.Ok(rule, shortFunc(root)+"/limit-zero-means-unlimited", c.Pos(), "the deadline is only set when the limit is not 0")
			} else {
				r.BadPath(rule, shortFunc(root)+"/limit-zero-means-unlimited", c.Pos(), "the cycle's deadline is set from the configured time limit without testing it against 0: with a limit of 0 (\"no limit\") every cycle runs under a context that has already expired, logs 'stopped at time limit', is rescheduled and never reclaims anything", path)
			}
		}
	}
	r.Min(rule, 2)
}

func init() {
	register("C11", func(r *Report) {
		ruleProgressRescheduled(r)
		ruleProgressAffected(r)
		ruleProgressFileLoop(r)
		ruleProgressUnlink(r)
		ruleProgressEmptyTrue(r)
		ruleProgressTruncate(r)
		ruleProgressMark(r)
		ruleProgressLowUse(r)
		ruleProgressResume(r)
		ruleProgressTimeLimit(r)
		r.support([]string{"gc-flush-first", "togc", "freelist-consume", "entry-applied", "free-after-index", "gc-mark-guard", "scan-framing", "merge-framing", "span-pair",
			"cancel-not-completion", "completion", "reap-true-means-empty", "bucket-scan-covers", "mark-file-matches", "scan-complete-before-truncate", "go-handshake", "config-wiring", "primary-mark", "flush-nowork", "race", "handover-owners", "errors-not-dropped", "flush-waits"})
	},
		"Decides only the SHAPE progress of the collectors rests on, each rule a necessary condition (if it is violated some history ending in files without live data is never reclaimed however many cycles run): the supervisors re-arm their timer after every finished cycle and every cycle calls the collector and signals completion; files in which the freelist pass marked records leave the visited set, and deleteRecords records every file it marked in; the three file loops start at the header's first file (or the resume point), advance by one file and pass over a file only for a stated reason (visited / still referenced / unreadable / already empty); an empty oldest file is unlinked in the same pass; zero-length files and files cut at offset 0 are reported empty; a completed scan that found a trailing free span truncates; unreferenced index records are marked in the same pass; relocation of the last live records is skipped only for the stated reasons and the low-use test has the form 100*free >= percent*(...); an index pass stopped by the time limit records and later uses its resume point. NOT decided: the number of cycles, byte counts, the fixed point, 'GC never increases storage', or that these shapes suffice for progress.")
}

// condBlockOf: the block whose If tests cond (possibly negated).
func condBlockOf(fn *ssa.Function, cond ssa.Value) *ssa.BasicBlock {
	for _, b := range fn.Blocks {
		if ifi, ok := lastInstr(b).(*ssa.If); ok {
			if c, _ := stripNot(ifi.Cond); c == cond {
				return b
			}
		}
	}
	return nil
}

func condNegated(b *ssa.BasicBlock) bool {
	ifi, ok := lastInstr(b).(*ssa.If)
	if !ok {
		return false
	}
	_, neg := stripNot(ifi.Cond)
	return neg
}
