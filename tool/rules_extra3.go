package main

import (
	"fmt"
	"go/token"

	"golang.org/x/tools/go/ssa"
)

// R-FC-SHRINK: the loop that evicts entries when the capacity shrinks runs
// often enough: its bound is not itself reduced by the evictions.
func ruleFCShrink(r *Report) {
	const rule = "fc-shrink"
	fn := r.need(rule, "FC", "(*FileCache).SetCacheSize")
	if fn == nil {
		return
	}
	n := 0
	for _, b := range fn.Blocks {
		ifi, ok := lastInstr(b).(*ssa.If)
		if !ok {
			continue
		}
		bo, ok := ifi.Cond.(*ssa.BinOp)
		if !ok || (bo.Op != token.LSS && bo.Op != token.GTR && bo.Op != token.LEQ && bo.Op != token.GEQ) {
			continue
		}
		// a counted loop: one side is an induction phi stepped by a constant in a block this If dominates
		var ind *ssa.Phi
		var bound ssa.Value
		asInd := func(v ssa.Value) *ssa.Phi {
			if p, ok := v.(*ssa.Phi); ok && isCountedPhi(p) {
				return p
			}
			// `for range n`: the tested value is counter+1
			if b2, ok := v.(*ssa.BinOp); ok && b2.Op == token.ADD {
				if k, isC := intConst(b2.Y); isC && k == 1 {
					if p, ok := b2.X.(*ssa.Phi); ok && isCountedPhi(p) {
						return p
					}
				}
			}
			return nil
		}
		if p := asInd(bo.X); p != nil {
			ind, bound = p, bo.Y
		} else if p := asInd(bo.Y); p != nil {
			ind, bound = p, bo.X
		}
		if ind == nil {
			continue
		}
		// does the loop body evict?
		evicts := false
		for _, c := range callSites(fn, "(*filecache.FileCache).removeOldest", "(*filecache.FileCache).removeElement") {
			if in, _ := (Search{Fn: fn, From: ifi, Target: isInstr(c)}).Run(); in {
				if back, _ := (Search{Fn: fn, From: c, Target: isInstr(ifi)}).Run(); back {
					evicts = true
				}
			}
		}
		if !evicts {
			continue
		}
		n++
		// the bound must not depend on the number of cached entries (which the body reduces)
		dep := derives(bound, flowOpts{Arith: true, ThroughAllCalls: true}, func(v ssa.Value) bool {
			f := fieldOfLoad(v)
			return f == "FileCache.ll" || f == "FileCache.cache"
		})
		// the bound is the capacity the cache had when the call began: a load of the capacity field that the
		// assignment of the new capacity can reach reads the new value, and the loop then runs zero times
		stale := false
		for _, v := range []ssa.Value{bound, ind.Edges[0], ind.Edges[len(ind.Edges)-1]} {
			derives(v, flowOpts{Arith: true}, func(x ssa.Value) bool {
				if fieldOfLoad(x) != "FileCache.capacity" {
					return false
				}
				ld, _ := x.(*ssa.UnOp)
				for _, st := range fieldStores(fn, "FileCache.capacity") {
					if ld != nil {
						if reach, _ := (Search{Fn: fn, From: st, Target: isInstr(ld)}).Run(); reach {
							stale = true
						}
					}
				}
				return false
			})
		}
		if stale {
			r.Bad(rule, "SetCacheSize/evict-loop-counts-old-capacity", instrPos(ifi), "the eviction loop counts between the new capacity and a capacity field that has already been overwritten with the new capacity: it runs zero times, the excess entries stay cached and more descriptors than the new capacity stay open")
		} else {
			r.Ok(rule, "SetCacheSize/evict-loop-counts-old-capacity", instrPos(ifi), "the eviction loop reads the capacity field before it is overwritten")
		}
		if dep {
			r.Bad(rule, "SetCacheSize/evict-loop-bound-invariant", instrPos(ifi), "the eviction loop counts up to a bound that shrinks as entries are evicted (e.g. ll.Len()): only about half of the excess entries are evicted, so more descriptors than the new capacity stay open")
		} else {
			r.Ok(rule, "SetCacheSize/evict-loop-bound-invariant", instrPos(ifi), "the eviction loop's bound does not change while it evicts")
		}
	}
	if n == 0 {
		// a `for len > capacity` loop is fine too: look for it
		ok := false
		for _, b := range fn.Blocks {
			if ifi, isIf := lastInstr(b).(*ssa.If); isIf {
				if derives(ifi.Cond, flowOpts{Arith: true, ThroughAllCalls: true}, func(v ssa.Value) bool { return fieldOfLoad(v) == "FileCache.ll" }) {
					ok = true
				}
			}
		}
		r.Check(ok, rule, "SetCacheSize/evict-loop", fn.Pos(), "evicts while the cache is larger than the new capacity", "SetCacheSize has no loop that evicts the excess entries when the capacity shrinks")
	}
	r.Min(rule, 1)
}

func isCountedPhi(p *ssa.Phi) bool {
	for _, e := range p.Edges {
		if bo, ok := e.(*ssa.BinOp); ok && (bo.Op == token.ADD || bo.Op == token.SUB) && bo.X == ssa.Value(p) {
			if _, isC := intConst(bo.Y); isC {
				return true
			}
		}
	}
	return false
}

// R-LIMIT-DIVISION: a file number is derived from a position only by the codec
// functions (which account for where the record starts).
func ruleLimitDivision(r *Report, rule string) {
	// the decoders are allowed too: pos-codec checks any division they contain
	// against (position − k) / limit (file-of-record-start)
	allowed := map[string]bool{"index.bucketPosToFileNum": true, "mhprimary.primaryPosToFileNum": true,
		"index.localizeBucketPos": true, "mhprimary.localizePrimaryPos": true}
	// limit values: the size-limit fields, and (transitively) parameters that
	// receive a limit value at some call site in the module
	limitParams := map[*ssa.Parameter]bool{}
	isLimit := func(v ssa.Value) bool {
		return derives(v, flowOpts{}, func(x ssa.Value) bool {
			switch fieldOfLoad(x) {
			case "Index.maxFileSize", "MultihashPrimary.maxFileSize", "Header.MaxFileSize", "IndexRemapper.maxFileSize":
				return true
			}
			if p, ok := x.(*ssa.Parameter); ok && limitParams[p] {
				return true
			}
			return false
		})
	}
	for changed := true; changed; {
		changed = false
		for _, fn := range moduleFuncs(r.E) {
			for _, c := range allCalls(fn) {
				callee := c.Common().StaticCallee()
				if callee == nil || callee.Blocks == nil || !r.E.InModule(callee) {
					continue
				}
				for i, a := range c.Common().Args {
					if i < len(callee.Params) && !limitParams[callee.Params[i]] && shortType(a.Type()) == "uint32" && isLimit(a) {
						limitParams[callee.Params[i]] = true
						changed = true
					}
				}
			}
		}
	}
	n := 0
	for _, fn := range moduleFuncs(r.E) {
		eachInstr(fn, func(in ssa.Instruction) {
			bo, ok := in.(*ssa.BinOp)
			if !ok || (bo.Op != token.QUO && bo.Op != token.REM && bo.Op != token.SHR) || !isLimit(bo.Y) {
				return
			}
			n++
			if allowed[shortFunc(fn)] {
				r.Ok(rule, "limit-division/"+shortFunc(fn), bo.Pos(), "division by the file-size limit inside the position codec")
			} else {
				r.Bad(rule, "limit-division/"+shortFunc(fn), bo.Pos(), "a position is divided by the file-size limit outside the codec functions: the codec decides the file by where the record STARTS (bucket positions lie 4 bytes after the start), an inline division attributes a record list that starts in the last bytes before the limit to the next file — GC then considers its real file unreferenced and truncates/removes it")
			}
		})
	}
	if n < 2 {
		r.Bad(rule, "limit-division/inventory", token.NoPos, fmt.Sprintf("found %d divisions by the file-size limit, expected the two codec functions", n))
	}
}

// R-SPAN-PAIR: in the GC scanners the start and the size of the current free
// span are updated together.
func ruleSpanPair(r *Report) {
	const rule = "span-pair"
	for _, t := range [][2]string{{"I", "(*Index).reapIndexRecords"}, {"M", "(*primaryGC).reapRecords"}} {
		fn := r.need(rule, t[0], t[1])
		if fn == nil {
			continue
		}
		sws := findSizeWords(fn)
		if len(sws) == 0 {
			continue
		}
		sw := sws[0]
		var cursor *ssa.Phi
		for _, ra := range callSites(fn, "(*os.File).ReadAt") {
			if rootBuffer(ra.Common().Args[1]) == sw.buf && instrDominates(ra, sw.call) {
				cursor, _ = stripIntConv(ra.Common().Args[2]).(*ssa.Phi)
			}
		}
		// span start: offset of the merge WriteAt; span size: value OR-ed with the deleted bit
		var startV, sizeV ssa.Value
		for _, w := range callSites(fn, "(*os.File).WriteAt") {
			startV = stripIntConv(w.Common().Args[2])
		}
		for _, pu := range callSites(fn, "(encoding/binary.littleEndian).PutUint32") {
			if bo, ok := stripIntConv(pu.Common().Args[2]).(*ssa.BinOp); ok && bo.Op == token.OR {
				if k, isC := intConst(stripIntConv(bo.Y)); isC && k == deletedBitValue {
					sizeV = stripIntConv(bo.X)
				}
			}
		}
		if cursor == nil || startV == nil || sizeV == nil {
			r.Undecided(rule, shortFunc(fn)+": cursor / span start / span size not identified")
			continue
		}
		sp := &spanChecker{fn: fn, cursor: cursor, sw: sw, seen: map[[2]ssa.Value]bool{}}
		// start from the loop-header phis of both variables
		a := headerPhiOf(startV, cursor.Block(), cursor)
		s := headerPhiOf(sizeV, cursor.Block(), cursor)
		if a == nil || s == nil {
			r.Undecided(rule, shortFunc(fn)+": span variables are not loop-carried")
			continue
		}
		sp.aHead, sp.sHead = a, s
		bad := sp.check(a, s)
		if bad == "" {
			r.Ok(rule, shortFunc(fn)+"/start-and-size-together", instrPos(a), "the free span's start and size are always updated together (new span: start=cursor,size=record size; merge: start kept,size grows; otherwise both kept)")
		} else {
			r.Bad(rule, shortFunc(fn)+"/start-and-size-together", instrPos(a), "the current free span's start and size are not updated in lock-step ("+bad+"): a later merge writes a size word that does not frame the span, the next scan misparses the file and truncates live records")
		}
	}
	r.Min(rule, 2)
}

func headerPhiOf(v ssa.Value, header *ssa.BasicBlock, exclude *ssa.Phi) *ssa.Phi {
	seen := map[ssa.Value]bool{ssa.Value(exclude): true}
	var walk func(x ssa.Value) *ssa.Phi
	walk = func(x ssa.Value) *ssa.Phi {
		x = stripIntConv(x)
		if seen[x] {
			return nil
		}
		seen[x] = true
		switch y := x.(type) {
		case *ssa.Phi:
			if y.Block() == header {
				return y
			}
			for _, e := range y.Edges {
				if p := walk(e); p != nil {
					return p
				}
			}
		case *ssa.BinOp:
			if p := walk(y.X); p != nil {
				return p
			}
			return walk(y.Y)
		}
		return nil
	}
	return walk(v)
}

type spanChecker struct {
	fn           *ssa.Function
	cursor       *ssa.Phi
	sw           *sizeWord
	aHead, sHead *ssa.Phi
	seen         map[[2]ssa.Value]bool
}

// classify values: "init" constant, "new" (cursor / record size), "keep" (the
// header phi itself), "grow" (header phi + something), or "?".
func (sp *spanChecker) classA(v ssa.Value) string {
	v = stripIntConv(v)
	switch {
	case v == ssa.Value(sp.cursor):
		return "new"
	case v == ssa.Value(sp.aHead):
		return "keep"
	}
	if _, ok := v.(*ssa.Const); ok {
		return "init"
	}
	return "?"
}

func (sp *spanChecker) classS(v ssa.Value) string {
	v = stripIntConv(v)
	if v == ssa.Value(sp.sHead) {
		return "keep"
	}
	if _, ok := v.(*ssa.Const); ok {
		return "init"
	}
	if isSizeOfRecord(v, sp.sw, map[ssa.Value]bool{}) {
		return "new"
	}
	if bo, ok := v.(*ssa.BinOp); ok && bo.Op == token.ADD && stripIntConv(bo.X) == ssa.Value(sp.sHead) {
		return "grow"
	}
	return "?"
}

// check walks the two variables' merge phis pairwise, from the loop-carried
// incoming values of the header phis.
func (sp *spanChecker) check(a, s *ssa.Phi) string {
	for i := range a.Edges {
		pred := a.Block().Preds[i]
		if !a.Block().Dominates(pred) {
			continue // loop entry
		}
		var sv ssa.Value
		for j := range s.Edges {
			if s.Block().Preds[j] == pred {
				sv = s.Edges[j]
			}
		}
		if sv == nil {
			return "the two variables are not merged at the same points"
		}
		if msg := sp.pair(a.Edges[i], sv); msg != "" {
			return msg
		}
	}
	return ""
}

func (sp *spanChecker) pair(av, sv ssa.Value) string {
	av, sv = stripIntConv(av), stripIntConv(sv)
	k := [2]ssa.Value{av, sv}
	if sp.seen[k] {
		return ""
	}
	sp.seen[k] = true
	ap, aPhi := av.(*ssa.Phi)
	spp, sPhi := sv.(*ssa.Phi)
	if aPhi && sPhi && ap.Block() == spp.Block() && ap != sp.aHead && spp != sp.sHead {
		for i := range ap.Edges {
			if msg := sp.pair(ap.Edges[i], spp.Edges[i]); msg != "" {
				return msg
			}
		}
		return ""
	}
	// one of them is merged here and the other is not: expand the merged one only
	if aPhi && ap != sp.aHead && ap != sp.cursor {
		for i := range ap.Edges {
			if msg := sp.pair(ap.Edges[i], sv); msg != "" {
				return msg
			}
		}
		return ""
	}
	if sPhi && spp != sp.sHead && !isSizeOfRecord(spp, sp.sw, map[ssa.Value]bool{}) {
		for i := range spp.Edges {
			if msg := sp.pair(av, spp.Edges[i]); msg != "" {
				return msg
			}
		}
		return ""
	}
	ca, cs := sp.classA(av), sp.classS(sv)
	switch ca + "/" + cs {
	case "new/new", "keep/keep", "keep/grow", "init/init", "init/keep", "init/new":
		return ""
	case "new/keep", "new/grow":
		return "a new span is started at the cursor while the span size keeps its old value"
	case "keep/new":
		return "the span size is reset to the record size while the span start is kept"
	}
	return fmt.Sprintf("unrecognised update (start: %s %s, size: %s %s)", ca, av.Name()+"="+av.String(), cs, sv.Name()+"="+sv.String())
}

// ruleChunkWritesEveryPath: every byte a chunker counts is written on every path.
func ruleChunkWritesEveryPath(r *Report, rule string) {
	for _, c := range []struct{ alias, fn string }{{"I", "chunkOldIndex"}, {"M", "chunkOldPrimary"}} {
		fn := r.need(rule, c.alias, c.fn)
		if fn == nil {
			continue
		}
		sws := findSizeWords(fn)
		if len(sws) == 0 {
			continue
		}
		limit := fn.Params[len(fn.Params)-1]
		var test ssa.Instruction
		for _, b := range fn.Blocks {
			if ifi, ok := lastInstr(b).(*ssa.If); ok {
				if bo, ok := ifi.Cond.(*ssa.BinOp); ok && (stripIntConv(bo.Y) == ssa.Value(limit) || stripIntConv(bo.X) == ssa.Value(limit)) {
					test = ifi
				}
			}
		}
		if test == nil {
			continue
		}
		for _, w := range callSites(fn, "(*bufio.Writer).Write", "io.CopyN") {
			// ... to the limit test, or round the loop to the next record's size word
			next := sws[0].call
			reach, path := Search{Fn: fn, From: sws[0].call, Target: func(in ssa.Instruction) bool { return in == test || in == ssa.Instruction(next) }, Avoid: isInstr(w)}.Run()
			if reach {
				r.BadPath(rule, shortFunc(fn)+"/every-counted-byte-written", w.Pos(), "this write is skipped on some path (to the limit test or on to the next record) although every later record's offset counts its bytes: the chunk files are no longer byte-identical to the old file (e.g. deleted records dropped instead of copied as dead space), so remapped offsets point at the wrong bytes", path)
			} else {
				r.Ok(rule, shortFunc(fn)+"/every-counted-byte-written", w.Pos(), "written on every path through the iteration")
			}
		}
	}
}

// ruleRemapCutsDescending: unusable entries are cut out of a record list from
// the highest position down (earlier cuts would shift later positions).
func ruleRemapCutsDescending(r *Report, rule string) {
	fn := r.need(rule, "I", "remapIndex")
	if fn == nil {
		return
	}
	n := 0
	for _, p := range callSites(fn, "(index.RecordList).PutKeys") {
		a := p.Common().Args
		// positions loaded from a []int list
		idx := func(v ssa.Value) *ssa.Phi {
			ld, ok := v.(*ssa.UnOp)
			if !ok {
				return nil
			}
			ia, ok := ld.X.(*ssa.IndexAddr)
			if !ok {
				return nil
			}
			var phi *ssa.Phi
			derives(ia.Index, flowOpts{Arith: true}, func(x ssa.Value) bool {
				if q, ok := x.(*ssa.Phi); ok && isCountedPhi(q) {
					phi = q
					return true
				}
				return false
			})
			return phi
		}
		ph := idx(a[2])
		if ph == nil {
			ph = idx(a[3])
		}
		if ph == nil {
			continue
		}
		n++
		desc := false
		for _, e := range ph.Edges {
			if bo, ok := e.(*ssa.BinOp); ok && bo.X == ssa.Value(ph) {
				k, _ := intConst(bo.Y)
				if (bo.Op == token.SUB && k > 0) || (bo.Op == token.ADD && k < 0) {
					desc = true
				}
			}
		}
		r.Check(desc, rule, "remapIndex/cuts-from-highest-position-down", p.Pos(), "recorded cut positions are applied from the end of the list backwards (earlier positions stay valid)",
			"the recorded cut positions are applied front to back: after the first cut every later recorded position is stale, so a live neighbour is cut out and the unusable entry stays (pointing at offset 0)")
	}
	if n == 0 {
		r.Bad(rule, "remapIndex/cuts-from-highest-position-down", fn.Pos(), "the loop that cuts unusable entries out of a record list was not found")
	}
}
