package main

import (
	"fmt"
	"go/token"

	"golang.org/x/tools/go/ssa"
)

var primaryFlushCalls = []string{
	"(primary.PrimaryStorage).Flush", "(primary.PrimaryStorage).Close",
	"(*mhprimary.MultihashPrimary).Flush", "(*mhprimary.MultihashPrimary).Close",
	"(*cidprimary.CIDPrimary).Flush", "(*cidprimary.CIDPrimary).Close",
}
var indexFlushCalls = []string{"(*index.Index).Flush", "(*index.Index).Close"}
var freelistFlushCalls = []string{"(*freelist.FreeList).Flush", "(*freelist.FreeList).Close"}

// R-COMMIT-ORDER: primary data reaches its file before the index records that
// name it; freelist after the index.
func ruleCommitOrder(r *Report) {
	const rule = "commit-order"
	e := r.E
	// Exception (1): translateIndex closes two temporary indexes; it only
	// re-indexes records that are already in primary files (OpenStore has not
	// handed out the store yet, the primary has no pending records).
	exceptions := map[string]string{"store.translateIndex": "re-indexes records already on disk during OpenStore"}
	n := 0
	for _, fn := range funcsCalling(e, []string{"S", "R"}, indexFlushCalls...) {
		if reason, ok := exceptions[shortFunc(fn)]; ok {
			r.Info = append(r.Info, "commit-order: "+shortFunc(fn)+" excepted: "+reason)
			continue
		}
		r.fn(fn)
		n++
		pf := instrSet(callSites(fn, primaryFlushCalls...))
		idxSites := callSites(fn, indexFlushCalls...)
		for _, s := range idxSites {
			key := shortFunc(fn) + "/primary-before-" + cname(s)
			if len(pf) == 0 {
				r.Bad(rule, key, s.Pos(), "the index is flushed here but this function never flushes the primary first: index records naming unwritten primary bytes can reach disk")
				continue
			}
			ok, path := precededBy(fn, s, pf, nil)
			if ok {
				r.Ok(rule, key, s.Pos(), "a primary flush/close precedes the index flush on every path")
			} else {
				r.BadPath(rule, key, s.Pos(), "the index is flushed on a path where the primary was not flushed before: a crash in between leaves index records on disk that name primary bytes never written (the key then reads as an error and is dropped)", path)
			}
			// where the function propagates errors, the index flush must depend on primary success
			if fn.Signature.Results().Len() > 0 && errResultIndex(fn) >= 0 {
				for p := range pf {
					pc, isCall := p.(*ssa.Call)
					if !isCall || len(successEdges(pc)) == 0 {
						continue
					}
					okS, pathS := successGuard(fn, s, pc)
					if okS {
						r.Ok(rule, shortFunc(fn)+"/primary-success-before-"+cname(s), s.Pos(), "index flush only after the primary flush succeeded")
					} else if len(failureEdges(pc)) > 0 && returnsOnFailure(fn, pc) {
						r.BadPath(rule, shortFunc(fn)+"/primary-success-before-"+cname(s), s.Pos(), "index flush reachable although the primary flush failed", pathS)
					}
				}
			}
		}
		idxSet := instrSet(idxSites)
		for _, s := range callSites(fn, freelistFlushCalls...) {
			ok, path := precededBy(fn, s, idxSet, nil)
			key := shortFunc(fn) + "/index-before-" + cname(s)
			if ok {
				r.Ok(rule, key, s.Pos(), "the freelist is flushed after the index on every path")
			} else {
				r.BadPath(rule, key, s.Pos(), "the freelist can be flushed before the index: after a crash a location would be on the freelist (and reclaimed by GC) while the index on disk still names it", path)
			}
		}
		// Sync order mirrors the flush order
		ps := instrSet(callSites(fn, "(primary.PrimaryStorage).Sync"))
		for _, s := range callSites(fn, "(*index.Index).Sync") {
			ok, path := precededBy(fn, s, ps, nil)
			if ok {
				r.Ok(rule, shortFunc(fn)+"/primary-sync-before-index-sync", s.Pos(), "primary synced before index")
			} else {
				r.BadPath(rule, shortFunc(fn)+"/primary-sync-before-index-sync", s.Pos(), "index synced to stable storage before the primary", path)
			}
			for _, fl := range idxSites {
				if ok, _ := precededBy(fn, s, map[ssa.Instruction]bool{fl: true}, nil); !ok {
					r.Bad(rule, shortFunc(fn)+"/flush-before-sync", s.Pos(), "index Sync can run before the index Flush")
				}
			}
		}
	}
	if n < 2 {
		r.Bad(rule, "inventory", token.NoPos, fmt.Sprintf("expected at least the two store-level flush sequences (commit, Close), found %d", n))
	}
	r.Min(rule, 5)
}

// returnsOnFailure: the failure edge of call leads only to returns (the
// function gives up), so later code is expected to depend on success.
func returnsOnFailure(fn *ssa.Function, call *ssa.Call) bool {
	for _, fe := range failureEdges(call) {
		b := fe.From.Succs[fe.Idx]
		if _, ok := lastInstr(b).(*ssa.Return); ok {
			return true
		}
	}
	return false
}

// R-BUCKET-AFTER-WRITE
func ruleBucketAfterWrite(r *Report) {
	const rule = "bucket-after-write"
	fn := r.need(rule, "I", "(*Index).Flush")
	if fn == nil {
		return
	}
	var wf *ssa.Call
	for _, c := range callSites(fn, "(*bufio.Writer).Flush") {
		if receiverField(c) == "Index.writer" {
			wf = asCall(c)
		}
	}
	puts := callSites(fn, "(index.Buckets).Put")
	if wf == nil || len(puts) == 0 {
		r.Bad(rule, "(*Index).Flush/shape", fn.Pos(), fmt.Sprintf("Index.Flush: writer.Flush found=%v, bucket updates found=%d: the flush must write the log and then publish the bucket positions", wf != nil, len(puts)))
		return
	}
	for _, p := range puts {
		ok, path := successGuard(fn, p, wf)
		if ok {
			r.Ok(rule, "(*Index).Flush/buckets.Put", p.Pos(), "bucket table updated only after the log write was flushed successfully")
		} else {
			r.BadPath(rule, "(*Index).Flush/buckets.Put", p.Pos(), "the bucket table can be pointed at log positions before (or although not) the buffered log data was written: readers would follow a bucket into bytes not yet in the file, and a crash leaves the snapshot/log inconsistent", path)
		}
		// under bucketLk
		fi := lockFlow(fn, LockSet{})
		r.Check(fi.at[p]["index.Index.bucketLk"] == modeW, rule, "(*Index).Flush/buckets.Put-locked", p.Pos(), "under bucketLk", "bucket table updated without holding bucketLk exclusively")
		// and still under flushLock: the collectors read the current file number under flushLock and
		// take it to mean that everything in older files is already named by the bucket table
		_, fl := fi.at[p]["index.Index.flushLock"]
		r.Check(fl, rule, "(*Index).Flush/buckets.Put-under-flushLock", p.Pos(), "the new positions are published before flushLock is released",
			"flushLock is released before the new bucket positions are published: index GC, which snapshots the current file number under flushLock, can see file N+1 while the record lists just written to file N are not yet named by any bucket — it marks, truncates or removes them, and the flush then publishes pointers into destroyed data")
	}
	// every flushed bucket is published: the blks slice appended in the write loop is the one ranged over
	r.Min(rule, 2)
}

// firstFileEqEdges: edges on which header.FirstFile == x is known.
func firstFileEqEdges(fn *ssa.Function) ([]Edge, []ssa.Value) {
	var others []ssa.Value
	es := condEdges(fn, func(cond ssa.Value) (bool, bool) {
		bo, ok := cond.(*ssa.BinOp)
		if !ok || (bo.Op != token.EQL && bo.Op != token.NEQ) {
			return false, false
		}
		var other ssa.Value
		if fieldOfLoad(bo.X) == "Header.FirstFile" {
			other = bo.Y
		} else if fieldOfLoad(bo.Y) == "Header.FirstFile" {
			other = bo.X
		} else {
			return false, false
		}
		others = append(others, other)
		if bo.Op == token.EQL {
			return true, false
		}
		return false, true
	})
	return es, others
}

// R-HEADER-BEFORE-REMOVE (and the FirstFile guard used by C07)
func ruleHeaderBeforeRemove(r *Report, rule string) {
	type gcfn struct{ alias, name, writeHeader, fileName string }
	fns := []gcfn{
		{"I", "(*Index).gc", "index.writeHeader", "index.indexFileName"},
		{"I", "(*Index).truncateFreeFiles", "index.writeHeader", "index.indexFileName"},
		{"M", "(*primaryGC).gc", "mhprimary.writeHeader", "mhprimary.primaryFileName"},
	}
	for _, g := range fns {
		fn := r.need(rule, g.alias, g.name)
		if fn == nil {
			continue
		}
		removes := callSites(fn, "os.Remove")
		if len(removes) == 0 {
			r.Bad(rule, shortFunc(fn)+"/os.Remove", fn.Pos(), "no os.Remove in this GC function: the rule cannot be evaluated (files are never unlinked?)")
			continue
		}
		eqEdges, eqOthers := firstFileEqEdges(fn)
		for _, rm := range removes {
			key := shortFunc(fn) + "/os.Remove"
			// which file number names the removed file?
			var fileNum ssa.Value
			derives(rm.Common().Args[0], flowOpts{}, func(v ssa.Value) bool {
				if c, ok := v.(*ssa.Call); ok && cname(c) == g.fileName {
					fileNum = c.Call.Args[1]
					return true
				}
				return false
			})
			if fileNum == nil {
				r.Bad(rule, key+"/path", rm.Pos(), "the removed path is not built by "+g.fileName+": cannot relate it to a file number")
				continue
			}
			// guarded by header.FirstFile == fileNum
			match := false
			for _, o := range eqOthers {
				if sameValue(stripIntConv(o), stripIntConv(fileNum)) {
					match = true
				}
			}
			okEq, pathEq := guarded(fn, rm, mkEdgeSet(eqEdges), nil)
			if match && okEq {
				r.Ok(rule, key+"/is-first-file", rm.Pos(), "only the file whose number equals header.FirstFile is unlinked")
			} else {
				r.BadPath(rule, key+"/is-first-file", rm.Pos(), "a data file can be unlinked that is not the header's first file: the header would keep pointing before a gap and recovery (which stops at the first missing file) silently loses every later file", pathEq)
			}
			// guarded by successful writeHeader, preceded by FirstFile+1
			var whOK bool
			var whPath []*ssa.BasicBlock
			for _, wh := range callSites(fn, g.writeHeader) {
				whc := asCall(wh)
				if ok, p := successGuard(fn, rm, whc); ok {
					// FirstFile incremented before the header write
					incOK := false
					for _, st := range fieldStores(fn, "Header.FirstFile") {
						l := linEnv{}.lin(st.Val)
						if l.T["F:Header.FirstFile"] == 1 && l.C == 1 && len(l.T) == 1 {
							if ok2, _ := precededBy(fn, wh, map[ssa.Instruction]bool{st: true}, nil); ok2 {
								incOK = true
							}
						}
					}
					if incOK {
						whOK = true
					}
				} else {
					whPath = p
				}
			}
			if whOK {
				r.Ok(rule, key+"/after-header-write", rm.Pos(), "the file is unlinked only after the header with FirstFile+1 was written successfully")
			} else {
				r.BadPath(rule, key+"/after-header-write", rm.Pos(), "a data file can be unlinked before the header recording FirstFile+1 was written successfully: a crash in between leaves a header whose first file does not exist, and the next open starts an empty log", whPath)
			}
		}
	}
	// upgrade: the legacy file is removed only after the new header exists
	ups := []gcfn{{"I", "upgradeIndex", "index.writeHeader", ""}, {"M", "upgradePrimary", "mhprimary.writeHeader", ""}}
	for _, g := range ups {
		fn := r.need(rule, g.alias, g.name)
		if fn == nil {
			continue
		}
		for _, rm := range callSites(fn, "os.Remove") {
			ok := false
			var path []*ssa.BasicBlock
			for _, wh := range callSites(fn, g.writeHeader) {
				if o, p := successGuard(fn, rm, asCall(wh)); o {
					ok = true
				} else {
					path = p
				}
			}
			if ok {
				r.Ok(rule, shortFunc(fn)+"/os.Remove/after-header-write", rm.Pos(), "legacy file removed only after the new-format header was written")
			} else {
				r.BadPath(rule, shortFunc(fn)+"/os.Remove/after-header-write", rm.Pos(), "the legacy file can be removed before the new header was written: an interrupted upgrade could not be resumed or detected", path)
			}
		}
	}
	r.Min(rule, 8)
}

// R-META-ATOMIC
func ruleMetaAtomic(r *Report) {
	const rule = "meta-atomic"
	for _, t := range [][2]string{{"I", "writeHeader"}, {"M", "writeHeader"}} {
		fn := r.need(rule, t[0], t[1])
		if fn == nil {
			continue
		}
		checkAtomicWrite(r, rule, fn, 0, 0)
	}
	r.Min(rule, 4)
}

func checkAtomicWrite(r *Report, rule string, fn *ssa.Function, pathParam int, depth int) {
	if pathParam >= len(fn.Params) {
		r.Undecided(rule, shortFunc(fn)+": path parameter missing")
		return
	}
	live := fn.Params[pathParam]
	isLive := func(v ssa.Value) bool { return stripConv(v) == ssa.Value(live) }
	writers := callSites(fn, "os.WriteFile", "os.Create", "os.OpenFile")
	if len(writers) == 0 {
		// delegated?
		if depth < 2 {
			for _, c := range allCalls(fn) {
				f := c.Common().StaticCallee()
				if f == nil || f.Blocks == nil || !r.E.InModule(f) {
					continue
				}
				for i, a := range c.Common().Args {
					if isLive(a) {
						r.fn(f)
						checkAtomicWrite(r, rule, f, i, depth+1)
						return
					}
				}
			}
		}
		r.Bad(rule, shortFunc(fn)+"/writer", fn.Pos(), "no file write found for the header path: the rule cannot be evaluated")
		return
	}
	for _, w := range writers {
		p := w.Common().Args[0]
		key := shortFunc(fn) + "/" + cname(w)
		if isLive(p) {
			r.Bad(rule, key+"/not-in-place", w.Pos(), "the live metadata file is rewritten in place (truncate, then write): it is the only copy of FirstFile/sizes, GC rewrites it during normal operation, and a crash between truncation and write leaves an empty header after which the store cannot be opened")
			continue
		}
		r.Ok(rule, key+"/not-in-place", w.Pos(), "written under a different (temporary) name")
		// a rename over the live path must follow on success
		var rnOK bool
		for _, rn := range callSites(fn, "os.Rename") {
			a := rn.Common().Args
			if !sameValue(a[0], p) || !isLive(a[1]) {
				continue
			}
			if wc := asCall(w); wc != nil {
				if ok, _ := successGuard(fn, rn, wc); ok {
					rnOK = true
				}
			}
		}
		if rnOK {
			r.Ok(rule, key+"/rename-over-live", w.Pos(), "on success the temporary file is renamed over the live path")
		} else {
			r.Bad(rule, key+"/rename-over-live", w.Pos(), "the temporary file is not renamed over the live header path after a successful write")
		}
		// success returns only after the rename
		succ, _ := classifyReturns(fn)
		rns := instrSet(callSites(fn, "os.Rename"))
		for _, ret := range succ {
			if ok, path := precededBy(fn, ret, rns, nil); !ok {
				r.BadPath(rule, key+"/success-after-rename", ret.Pos(), "the function can report success without having installed the new header", path)
			}
		}
	}
}

func init() {
	register("C03", func(r *Report) {
		ruleCommitOrder(r)
		ruleCommitAtomicity(r)
		ruleGCHandoverDurable(r)
		ruleRolloverSwitch(r)
		ruleBucketAfterWrite(r)
		ruleHeaderBeforeRemove(r, "header-before-remove")
		ruleMetaAtomic(r)
		ruleSnapshot(r)
		ruleToGC(r)
		ruleTailRecovery(r)
		// "keeps behaving as in C01 afterwards, including through later GC cycles"
		r.support(grpOrder, grpFormat, []string{"remap-completion", "chunk-file-fresh", "remap-offset", "chunk-accounting", "pool-flush-complete", "scan-complete-before-truncate", "primary-mark", "gc-mark-guard", "gc-not-current", "deleted-check", "merge-framing", "span-pair", "rescan-applies-all",
			"firstfile-guard", "free-after-index", "freelist-consume", "gc-flush-first", "scan-from-firstfile", "upgrade-order"})
	},
		"Decides only the ordering discipline that crash safety rests on, not crash behaviour: in every store-level flush sequence the primary is flushed before the index and the freelist after it; Index.Flush publishes bucket positions only after the log write succeeded; GC unlinks a data file only after the header recording FirstFile+1 was written successfully and only the header's first file; legacy files are removed only after the new header exists; header files are replaced by write-temp-then-rename, never rewritten in place; the bucket snapshot is installed by rename after flush+close and removed once opened; an unprocessed freelist hand-over file is never overwritten. Not covered (the bulk of C03): torn appends, the Put-vs-commit interleaving, GC crash windows, recovery behaviour.",
		"crash-state enumeration is outside this technique family; each rule is 'B never happens unless A already succeeded on this path'")
}

// R-COMMIT-ATOMICITY: an index record must not reach the index file before the
// primary bytes it names. commit flushes the primary and then the index; a
// writer that adds (primary record, index record) between the two flushes gets
// its index record written while its primary bytes are still pooled. Necessary
// structural condition: either a lock is held by commit across both flushes
// and by every writer across its primary Put and index Put/Update, or the
// index captures its pool (swap) before the primary is flushed.
func ruleCommitAtomicity(r *Report) {
	const rule = "commit-atomicity"
	e := r.E
	fn := r.need(rule, "S", "(*Store).commit")
	if fn == nil {
		return
	}
	pf := callSites(fn, primaryFlushCalls...)
	xf := callSites(fn, indexFlushCalls...)
	if len(pf) == 0 || len(xf) == 0 {
		r.Undecided(rule, "commit does not flush primary and index")
		return
	}
	fi := lockFlow(fn, LockSet{})
	common := intersect(fi.at[pf[0]], fi.at[xf[0]])
	// shape 2: the index pool is captured before the primary flush
	captured := false
	for _, c := range allCalls(fn) {
		callee := c.Common().StaticCallee()
		if callee == nil || callee.Blocks == nil || !e.InModule(callee) {
			continue
		}
		if len(fieldStores(callee, "Index.curPool")) == 0 {
			continue
		}
		if before, _ := precededBy(fn, pf[0], map[ssa.Instruction]bool{c: true}, nil); before {
			captured = true
		}
	}
	writers := [][2]string{{"S", "(*Store).Put"}, {"M", "(*primaryGC).reapRecords"}}
	for _, w := range writers {
		wf := r.need(rule, w[0], w[1])
		if wf == nil {
			continue
		}
		key := "(*store.Store).commit/vs-" + shortFunc(wf)
		if captured {
			r.Ok(rule, key, xf[0].Pos(), "the index captures the records to write before the primary is flushed: everything it writes names flushed primary bytes")
			continue
		}
		wfi := lockFlow(wf, LockSet{})
		var wp, wi []ssa.CallInstruction
		wp = callSites(wf, "(primary.PrimaryStorage).Put", "(*mhprimary.MultihashPrimary).Put")
		wi = callSites(wf, "(*index.Index).Put", "(*index.Index).Update", "field:primaryGC.updateIndex")
		ok := false
		if len(wp) > 0 && len(wi) > 0 {
			for l := range common {
				all := true
				for _, c := range append(append([]ssa.CallInstruction{}, wp...), wi...) {
					if _, held := wfi.at[c][l]; !held {
						all = false
					}
				}
				if all {
					ok = true
				}
			}
		}
		if ok {
			r.Ok(rule, key, xf[0].Pos(), "a common lock excludes this writer from the window between the primary flush and the index flush")
		} else {
			r.Bad(rule, key, xf[0].Pos(), "nothing excludes "+shortFunc(wf)+" from the window between commit's primary flush and its index flush (no lock held across both flushes that the writer holds across its primary Put and index Put/Update, and the index does not capture its pool before the primary flush): an index record can be written before the primary bytes it names; after a crash a key that was present at the last completed flush reads as an error, is dropped and reports absent")
		}
	}
	r.Min(rule, 2)
}

// R-GC-HANDOVER-DURABLE: primary GC marks a superseded record deleted as soon
// as its freelist entry is handed over; the index update that superseded it
// must be on disk by then, otherwise a crash leaves the on-disk index naming a
// deleted record. Necessary structural condition: on every path to the
// hand-over (processFreeList) an index flush happened in this cycle.
func ruleGCHandoverDurable(r *Report) {
	const rule = "gc-handover-durable"
	fn := r.need(rule, "M", "(*primaryGC).gc")
	if fn == nil {
		return
	}
	sites := callSites(fn, "mhprimary.processFreeList")
	if len(sites) == 0 {
		r.Undecided(rule, "primaryGC.gc does not call processFreeList")
		return
	}
	// calls in gc that (transitively, through the call graph) reach Index.Flush
	memo := map[*ssa.Function]int{}
	var reaches func(f *ssa.Function) bool
	reaches = func(f *ssa.Function) bool {
		switch memo[f] {
		case 1:
			return false
		case 2:
			return true
		}
		memo[f] = 1
		for _, c := range allCalls(f) {
			if cname(c) == "(*index.Index).Flush" {
				memo[f] = 2
				return true
			}
			for _, callee := range r.E.Callees(c) {
				if callee.Blocks != nil && r.E.InModule(callee) && reaches(callee) {
					memo[f] = 2
					return true
				}
			}
		}
		return false
	}
	flushers := map[ssa.Instruction]bool{}
	for _, c := range allCalls(fn) {
		if cname(c) == "(*index.Index).Flush" {
			flushers[c] = true
			continue
		}
		for _, callee := range r.E.Callees(c) {
			if callee.Blocks != nil && r.E.InModule(callee) && reaches(callee) {
				flushers[c] = true
			}
		}
	}
	for _, s := range sites {
		ok, _ := precededBy(fn, s, flushers, nil)
		if ok && len(flushers) > 0 {
			r.Ok(rule, "(*primaryGC).gc/index-flushed-before-handover", s.Pos(), "the index is flushed in this cycle before freelist entries are applied: every applied entry's superseding index record is on disk")
		} else {
			r.Bad(rule, "(*primaryGC).gc/index-flushed-before-handover", s.Pos(), "the GC cycle applies freelist entries (ToGC flushes the freelist pool itself) without the index having been flushed: the superseded record is marked deleted while the on-disk index still names it; a crash before the next store flush makes a key that was present at the last completed flush read as absent")
		}
	}
	r.Min(rule, 1)
}
