package main

import (
	"fmt"
	"go/token"

	"golang.org/x/tools/go/ssa"
)

// outerField names the outermost struct field an address/loaded value belongs
// to: cp.nextPool.refs -> "MultihashPrimary.nextPool".
func outerField(v ssa.Value) string {
	if u, ok := v.(*ssa.UnOp); ok && u.Op == token.MUL {
		v = u.X
	}
	fa, ok := v.(*ssa.FieldAddr)
	if !ok {
		if f, ok := v.(*ssa.Field); ok {
			return outerField(f.X)
		}
		return ""
	}
	for {
		if inner, ok := fa.X.(*ssa.FieldAddr); ok {
			fa = inner
			continue
		}
		break
	}
	return fieldName(fa.X.Type(), fa.Field)
}

func unlocksOf(fn *ssa.Function, lock string) []ssa.CallInstruction {
	var out []ssa.CallInstruction
	for _, c := range allCalls(fn) {
		if _, isDefer := c.(*ssa.Defer); isDefer {
			continue
		}
		if op, id, ok := lockOp(c); ok && (op == "Unlock" || op == "RUnlock") && id == lock {
			out = append(out, c)
		}
	}
	return out
}

// sameSection: lock is held (mode) at a and b and no path a -> unlock -> b exists.
func sameSection(fn *ssa.Function, fi *funcLockInfo, a, b ssa.Instruction, lock string, mode lockMode) (bool, string) {
	if fi.at[a][lock] < mode {
		return false, "lock not held exclusively at the read"
	}
	if fi.at[b][lock] < mode {
		return false, "lock not held exclusively at the write"
	}
	for _, u := range unlocksOf(fn, lock) {
		r1, _ := Search{Fn: fn, From: a, Target: isInstr(u), Avoid: isInstr(b)}.Run()
		r2, _ := Search{Fn: fn, From: u, Target: isInstr(b)}.Run()
		if r1 && r2 {
			return false, "the lock is released between the read and the write"
		}
	}
	return true, ""
}

// R-ATOMIC-RMW
func ruleAtomicRMW(r *Report) {
	const rule = "atomic-rmw"
	const lk = "index.Index.bucketLk"
	for _, m := range []string{"Put", "Update", "Remove"} {
		fn := r.need(rule, "I", "(*Index)."+m)
		if fn == nil {
			continue
		}
		fi := lockFlow(fn, LockSet{})
		reads := callSites(fn, "(*index.Index).getRecordsFromBucket")
		if len(reads) == 0 {
			r.Bad(rule, "(*Index)."+m+"/read", fn.Pos(), "the bucket's record list is not read through getRecordsFromBucket: cannot evaluate the read-modify-write")
			continue
		}
		n := 0
		eachInstr(fn, func(in ssa.Instruction) {
			mu, ok := in.(*ssa.MapUpdate)
			if !ok || fieldOfLoad(mu.Map) != "Index.nextPool" {
				return
			}
			n++
			key := "(*Index)." + m + "/nextPool-store"
			okAny := false
			why := ""
			for _, rd := range reads {
				ok, w := sameSection(fn, fi, rd, mu, lk, modeW)
				if ok {
					// the stored list is computed from the list just read
					if derives(mu.Value, flowOpts{ThroughAllCalls: true}, func(v ssa.Value) bool { return v == ssa.Value(asCall(rd)) }) {
						okAny = true
					} else {
						why = "the stored list is not derived from the list read in this section"
					}
				} else {
					why = w
				}
			}
			if okAny {
				r.Ok(rule, key, instrPos(mu), "read of the bucket's record list and store of the new list happen in one exclusive bucketLk section")
			} else {
				r.Bad(rule, key, instrPos(mu), "the bucket's read-modify-write is not atomic ("+why+"): a concurrent Put/Update/Remove of ANOTHER key in the same bucket between the read and the store is overwritten — keys are silently lost")
			}
		})
		if n == 0 {
			r.Bad(rule, "(*Index)."+m+"/nextPool-store", fn.Pos(), "the new record list is never stored into nextPool")
		}
	}
	r.Min(rule, 4)
}

// R-POOL-SWAP
func rulePoolSwap(r *Report) {
	const rule = "pool-swap"
	type comp struct{ alias, typ, lock string }
	comps := []comp{{"I", "Index", "index.Index.bucketLk"}, {"M", "MultihashPrimary", "mhprimary.MultihashPrimary.poolLk"}, {"Cd", "CIDPrimary", "cidprimary.CIDPrimary.poolLk"}}
	for _, c := range comps {
		fn := r.need(rule, c.alias, "(*"+c.typ+").Flush")
		if fn == nil {
			continue
		}
		var swapCur, swapNext *ssa.Store
		for _, st := range deepFieldStores(fn, c.typ+".curPool") {
			if outerField(st.Val) == c.typ+".nextPool" || fieldOfLoad(st.Val) == c.typ+".nextPool" {
				swapCur = st
			}
		}
		for _, st := range deepFieldStores(fn, c.typ+".nextPool") {
			switch st.Val.(type) {
			case *ssa.MakeMap, *ssa.Call:
				swapNext = st
			}
		}
		if swapCur == nil || swapNext == nil || swapCur.Parent() != swapNext.Parent() {
			r.Bad(rule, c.typ+".Flush/swap", fn.Pos(), "Flush does not move nextPool to curPool and install a fresh nextPool (in one function)")
			continue
		}
		// the two stores may sit in a helper of Flush: analyse that function,
		// entered with the locks Flush holds at its call sites
		sfn := swapCur.Parent()
		fi := lockFlow(sfn, deepCtx(fn, sfn))
		ok, why := sameSection(sfn, fi, swapCur, swapNext, c.lock, modeW)
		ok2, _ := sameSection(sfn, fi, swapNext, swapCur, c.lock, modeW)
		order, _ := Search{Fn: sfn, From: swapCur, Target: isInstr(swapNext)}.Run()
		if ok && ok2 && order {
			r.Ok(rule, c.typ+".Flush/swap-atomic", instrPos(swapCur), "cur = next and next = fresh are stores in one exclusive section of the pool lock")
		} else {
			r.Bad(rule, c.typ+".Flush/swap-atomic", instrPos(swapCur), "the pool swap is not one exclusive critical section ("+why+"): a lookup in between misses data that is in neither pool, or a Put lands in the pool being flushed")
		}
		// the emptiness test is in the same section
		// other stores to curPool in Flush must not hide data before it is published
		for _, st := range deepFieldStores(fn, c.typ+".curPool") {
			if st == swapCur {
				continue
			}
			if c.typ == "Index" {
				reach, _ := Search{Fn: fn, From: st, Target: isCallNamed("(index.Buckets).Put")}.Run()
				if reach {
					r.Bad(rule, c.typ+".Flush/curPool-kept-until-published", instrPos(st), "curPool is overwritten before the bucket table names the flushed data's disk copy: lookups in that window see neither the pool nor the new bucket position (stale reads, and a Put in the same bucket rebuilds its list from stale data)")
					continue
				}
			}
			r.Ok(rule, c.typ+".Flush/curPool-kept-until-published", instrPos(st), "other store to curPool happens after publication")
		}
	}
	// who may store to curPool: only Flush (and index.Open before the index is published)
	allowed := map[string]string{
		"(*index.Index).Flush": "", "(*mhprimary.MultihashPrimary).Flush": "", "(*cidprimary.CIDPrimary).Flush": "",
		"index.Open": "before the index is handed out (remap work pool)",
	}
	for _, fn := range moduleFuncs(r.E) {
		for _, t := range []string{"Index", "MultihashPrimary", "CIDPrimary"} {
			for _, st := range fieldStores(fn, t+".curPool") {
				if isLocalAlloc(st.Addr.(*ssa.FieldAddr).X) {
					continue
				}
				if onlyCalledFrom(fn, func(f *ssa.Function) bool { _, ok := allowed[shortFunc(f)]; return ok }) {
					r.Ok(rule, "curPool-writers/"+shortFunc(fn), instrPos(st), "allowed writer of curPool")
				} else {
					r.Bad(rule, "curPool-writers/"+shortFunc(fn), instrPos(st), "curPool is written outside Flush: the just-flushed data may become unreadable before the bucket table/primary file covers it")
				}
			}
		}
	}
	r.Min(rule, 6)
}

// R-LOOKUP-BOTH-POOLS
func ruleLookupBothPools(r *Report) {
	const rule = "lookup-both-pools"
	type target struct{ alias, name, typ string }
	for _, t := range []target{{"I", "(*Index).readCached", "Index"}, {"M", "(*MultihashPrimary).getCached", "MultihashPrimary"}, {"Cd", "(*CIDPrimary).getCached", "CIDPrimary"}} {
		fn := r.need(rule, t.alias, t.name)
		if fn == nil {
			continue
		}
		var next, cur []ssa.Instruction
		eachInstr(fn, func(in ssa.Instruction) {
			if c, isCall := in.(*ssa.Call); isCall {
				// a lookup method of the pool type, called on the pool field's value: it consults that pool
				// if it performs a map lookup on its receiver
				if f := c.Call.StaticCallee(); f != nil && f.Blocks != nil && len(c.Call.Args) > 0 {
					looksUp := false
					eachInstr(f, func(x ssa.Instruction) {
						if lk, ok := x.(*ssa.Lookup); ok && len(f.Params) > 0 && derives(lk.X, flowOpts{}, func(v ssa.Value) bool { return v == ssa.Value(f.Params[0]) }) {
							looksUp = true
						}
					})
					if looksUp {
						switch fld := fieldOfLoad(c.Call.Args[0]); fld {
						case t.typ + ".nextPool":
							next = append(next, c)
						case t.typ + ".curPool":
							cur = append(cur, c)
						}
					}
				}
				return
			}
			lk, ok := in.(*ssa.Lookup)
			if !ok {
				return
			}
			switch outerField(lk.X) {
			case t.typ + ".nextPool":
				next = append(next, lk)
			case t.typ + ".curPool":
				cur = append(cur, lk)
			}
		})
		if len(next) == 0 || len(cur) == 0 {
			r.Bad(rule, shortFunc(fn)+"/both-pools", fn.Pos(), fmt.Sprintf("the cache lookup consults nextPool %d times and curPool %d times: data in the pool being flushed (or not yet flushed) would be invisible to readers until it is on disk", len(next), len(cur)))
			continue
		}
		n := 0
		for _, ret := range returnsOf(fn) {
			if !isNilConst(retVal(ret, 0)) {
				continue
			}
			n++
			r1, p1 := Search{Fn: fn, Target: isInstr(ret), Avoid: anyOf(instrSet(next))}.Run()
			r2, p2 := Search{Fn: fn, Target: isInstr(ret), Avoid: anyOf(instrSet(cur))}.Run()
			if r1 || r2 {
				p := p1
				if r2 {
					p = p2
				}
				r.BadPath(rule, shortFunc(fn)+"/miss-after-both", ret.Pos(), "a miss can be reported without consulting both pools", p)
			} else {
				r.Ok(rule, shortFunc(fn)+"/miss-after-both", ret.Pos(), "a miss is reported only after both pools were consulted")
			}
		}
		if n == 0 {
			r.Undecided(rule, shortFunc(fn)+": no miss return found")
		}
	}
	r.Min(rule, 3)
}

func init() {
	register("C05", func(r *Report) {
		ruleAtomicRMW(r)
		rulePoolSwap(r)
		ruleLookupBothPools(r)
		rulePublishedBytes(r)
		rulePoolValuesFresh(r)
		ruleIndexNamesNewLocation(r)
		ruleBucketAfterWrite(r)
		ruleKeyCheck(r)
		// all thread roots: the collectors run behind every foreground call too
		la, rt := runLockAnalysis(r, "race")
		reportRaces(r, la, rt, "race", nil, nil)
		r.Min("race", 25)
		reportLockOrder(r, la, "lock-order")
		// "an operation on one key never changes or hides another key, even when
		// both live in the same bucket and share stored prefix bytes"
		r.support(grpMap, grpBackpressure, []string{"splice", "samevalue-guard", "opaque-value", "pool-order", "predict", "gc-not-current", "retain", "free-after-index", "pool-flush-complete"})
	},
		"Decides structural necessary conditions of 'keys do not interfere / lookups after a Put see it', not linearizability over all schedules: in Index.Put/Update/Remove the read of the bucket's record list and the store of the new list happen in one exclusive bucketLk section and the stored list derives from that read; in each Flush the pool swap is one exclusive section, curPool is written only by Flush and (index) not overwritten before the bucket table is updated after a successful write; cache lookups report a miss only after both pools; every present-outcome is behind the full-key comparison; no unprotected conflicting access pair among the foreground/flusher roots; lock order acyclic. Not covered: linearizability itself, same-key write/write interleavings, visibility timing.")
}
