package main

import (
	"fmt"
	"go/token"
	"os"
	"sort"
	"strings"

	"golang.org/x/tools/go/ssa"
)

// R-ERRORS-NOT-DROPPED ("no error from the storage layer is dropped"). For
// every module function that can report an error, and every call in it whose
// callee can fail: from the failure edge of that call no return that reports
// success (a constant nil error) is reachable — except for the instances in
// the table below, each confirmed by reading (the idioms of this code base:
// end-of-file ends a scan, a missing file means "nothing there yet", a
// diagnostic read whose result is only logged, a best-effort clean-up).
//
// The table is keyed by (function, callee): a NEW way of turning a failed
// read/open/write into a successful result — "the file is gone, so the bucket
// is empty", "the previous key cannot be read, carry on as if it were bad" —
// is reported.
var droppedErrorOK = map[string]string{}
var droppedErrorMax = map[string]int{}

func init() {
	for _, l := range strings.Split(droppedErrorTable, "\n") {
		l = strings.TrimSpace(l)
		if l == "" || strings.HasPrefix(l, "#") {
			continue
		}
		parts := strings.SplitN(l, " :: ", 3)
		reason := ""
		n := 1
		if len(parts) == 3 {
			fmt.Sscanf(parts[1], "%d", &n)
			reason = parts[2]
		}
		droppedErrorOK[strings.TrimSpace(parts[0])] = reason
		droppedErrorMax[strings.TrimSpace(parts[0])] = n
	}
}

func ruleErrorsNotDropped(r *Report) {
	const rule = "errors-not-dropped"
	type hit struct {
		key string
		c   ssa.CallInstruction
		p   []*ssa.BasicBlock
		fn  *ssa.Function
	}
	var hits []hit
	seen := map[string]bool{}
	nCalls := 0
	for _, fn := range moduleFuncs(r.E) {
		if fn.Blocks == nil || errResultIndex(fn) < 0 {
			continue
		}
		succ, _ := classifyReturns(fn)
		var okRets []ssa.Instruction
		ei := errResultIndex(fn)
		for _, ret := range succ {
			if isNilConst(retVal(ret, ei)) {
				okRets = append(okRets, ret)
			}
		}
		if len(okRets) == 0 {
			continue
		}
		okSet := instrSet(okRets)
		for _, ci := range allCalls(fn) {
			c := asCall(ci)
			if c == nil || ci.Parent() != fn {
				continue
			}
			carried := carriedErrors(c)
			fes := failureEdges(c)
			fes = append(fes, sentinelEdges(fn, carried)...)
			if len(fes) == 0 {
				continue
			}
			nCalls++
			// on a path that left the call with an error, a later nil test of that error (the shared err
			// variable, a result variable it was assigned to, a wrapped copy of it) takes the non-nil branch
			renil := mkEdgeSet(nilTestEdges(fn, carried))
			for _, fe := range fes {
				fe := fe
				reach, path := Search{Fn: fn, FromEdge: &fe, Target: anyOf(okSet), AvoidEdges: renil}.Run()
				if !reach {
					continue
				}
				root := fn
				for root.Parent() != nil {
					root = root.Parent()
				}
				key := shortFunc(root) + " <- " + cname(c)
				sk := fmt.Sprintf("%s@%d", key, c.Pos())
				if seen[sk] {
					continue
				}
				seen[sk] = true
				hits = append(hits, hit{key, c, path, fn})
			}
		}
	}
	sort.Slice(hits, func(i, j int) bool {
		if hits[i].key != hits[j].key {
			return hits[i].key < hits[j].key
		}
		return hits[i].c.Pos() < hits[j].c.Pos()
	})
	perKey := map[string]int{}
	if os.Getenv("STHLINT_DUMP_DROPPED") != "" {
		for _, h := range hits {
			fmt.Fprintf(os.Stderr, "DROPPED %s @ %s\n", h.key, r.E.Fset.Position(h.c.Pos()))
		}
	}
	// Rename tolerance. The table is keyed by names; a function (or a callee) that was merely renamed
	// must not turn its listed idioms into reports. A function F that is not in the table is matched
	// with a table function G of the same package that no longer exists in the program when every
	// idiom observed in F is listed for G (callees that no longer exist either are paired with F's
	// unlisted module callees one to one).
	present := map[string]bool{}
	for _, f := range moduleFuncs(r.E) {
		present[shortFunc(f)] = true
	}
	tableByFn := map[string]map[string]int{}
	for k, n := range droppedErrorMax {
		parts := strings.SplitN(k, " <- ", 2)
		if tableByFn[parts[0]] == nil {
			tableByFn[parts[0]] = map[string]int{}
		}
		tableByFn[parts[0]][parts[1]] = n
	}
	obsByFn := map[string]map[string]int{}
	for _, h := range hits {
		parts := strings.SplitN(h.key, " <- ", 2)
		if obsByFn[parts[0]] == nil {
			obsByFn[parts[0]] = map[string]int{}
		}
		obsByFn[parts[0]][parts[1]]++
	}
	pkgOfName := func(n string) string {
		n = strings.TrimPrefix(n, "(*")
		n = strings.TrimPrefix(n, "(")
		if i := strings.Index(n, "."); i > 0 {
			return n[:i]
		}
		return n
	}
	covers := func(obs, tab map[string]int) bool {
		unmatched, spare := 0, 0
		for c, n := range obs {
			if tab[c] >= n {
				continue
			}
			if !strings.Contains(c, "os.") && !strings.HasPrefix(c, "io.") { // a module callee may have been renamed too
				unmatched += n - tab[c]
			} else {
				return false
			}
		}
		for c, n := range tab {
			if obs[c] == 0 && !present[c] && !strings.Contains(c, "os.") && !strings.HasPrefix(c, "io.") {
				spare += n
			}
		}
		return unmatched <= spare
	}
	renamedFrom := map[string]string{}
	for f, obs := range obsByFn {
		if tableByFn[f] != nil {
			if covers(obs, tableByFn[f]) {
				renamedFrom[f] = f // same function, a callee was renamed
			}
			continue
		}
		for g, tab := range tableByFn {
			if !present[g] && pkgOfName(g) == pkgOfName(f) && covers(obs, tab) {
				renamedFrom[f] = g
			}
		}
	}
	for _, h := range hits {
		r.fn(h.fn)
		perKey[h.key]++
		if g, ok := renamedFrom[strings.SplitN(h.key, " <- ", 2)[0]]; ok {
			if _, listed := droppedErrorOK[h.key]; !listed || perKey[h.key] > droppedErrorMax[h.key] {
				r.Ok(rule, h.key, h.c.Pos(), "listed idiom of "+g+" (function or callee renamed)")
				continue
			}
		}
		if _, ok := droppedErrorOK[h.key]; ok && perKey[h.key] <= droppedErrorMax[h.key] {
			r.Ok(rule, h.key, h.c.Pos(), "listed idiom: "+droppedErrorOK[h.key])
			continue
		}
		// an unexported helper that only listed functions call inherits their listing
		root := h.fn
		for root.Parent() != nil {
			root = root.Parent()
		}
		callee := cname(h.c)
		if onlyCalledFrom(root, func(f *ssa.Function) bool { _, ok := droppedErrorOK[shortFunc(f)+" <- "+callee]; return ok }) && root.Object() != nil && !root.Object().Exported() {
			r.Ok(rule, h.key, h.c.Pos(), "helper of a function for which this idiom is listed")
			continue
		}
		r.BadPath(rule, h.key, h.c.Pos(), "a failed "+callee+" can be followed by a successful return of "+shortFunc(root)+" (this is not one of the idioms confirmed by reading): the caller continues as if the data had been read/written — a bucket is treated as empty, a previous key as unusable, a write as done — and acknowledged contents are silently lost or replaced", h.p)
	}
	r.Sites += nCalls
	r.Min(rule, 10)
}

const droppedErrorTable = `
(*freelist.FreeList).StorageSize <- (*os.File).Stat :: 1 :: a missing file means 'nothing there (yet)': size 0 / no such file number / nothing to upgrade
(*freelist.FreeList).ToGC <- os.Stat :: 1 :: a missing file means 'nothing there (yet)': size 0 / no such file number / nothing to upgrade
(*index.Index).Put <- (*index.Index).readBucketInfo :: 2 :: diagnostic read: its result is only logged
(*index.Index).StorageSize <- index.readHeader :: 1 :: a missing header means a new (or legacy) store: defaults are used and a header is written
(*index.Index).StorageSize <- os.Stat :: 1 :: a missing file means 'nothing there (yet)': size 0 / no such file number / nothing to upgrade
(*index.Index).flushBucket <- os.Stat :: 1 :: a missing file means 'nothing there (yet)': size 0 / no such file number / nothing to upgrade
(*index.Index).reapIndexRecords <- (*os.File).ReadAt :: 2 :: end of file ends the scan (a torn tail is cut off)
(*index.Index).truncateFreeFiles <- os.Stat :: 1 :: a missing file means 'nothing there (yet)': size 0 / no such file number / nothing to upgrade
(*index.Index).truncateFreeFiles <- os.Truncate :: 1 :: best-effort cut of a torn tail / of an unreferenced file: logged, retried by the next pass
(*index.RawIterator).Next <- index.openFileForScan :: 1 :: a missing next file ends the iteration
(*mhprimary.MultihashPrimary).Iter <- mhprimary.readHeader :: 1 :: a missing header means a new (or legacy) store: defaults are used and a header is written
(*mhprimary.MultihashPrimary).NewIndexRemapper <- os.Stat :: 1 :: a missing file means 'nothing there (yet)': size 0 / no such file number / nothing to upgrade
(*mhprimary.MultihashPrimary).StorageSize <- mhprimary.readHeader :: 1 :: a missing header means a new (or legacy) store: defaults are used and a header is written
(*mhprimary.MultihashPrimary).StorageSize <- os.Stat :: 1 :: a missing file means 'nothing there (yet)': size 0 / no such file number / nothing to upgrade
(*mhprimary.MultihashPrimary).flushBlock <- os.Stat :: 1 :: a missing file means 'nothing there (yet)': size 0 / no such file number / nothing to upgrade
(*mhprimary.primaryGC).reapRecords <- (*freelist.FreeList).Put :: 1 :: freeing the unreachable copy is best effort; logged
(*mhprimary.primaryGC).reapRecords <- (*os.File).ReadAt :: 1 :: end of file ends the scan (a torn tail is cut off)
(*mhprimary.primaryGC).reapRecords <- field:primaryGC.updateIndex :: 1 :: failed re-point: the new copy is freed instead (C13 evidence form)
(*store.Store).getPrimaryKeyData <- (primary.PrimaryStorage).Get :: 1 :: unusable index entry: removed behind the failure edge (rule bad-index-removal) / iterator skips it
(*store.Store).getPrimaryKeyData <- (primary.PrimaryStorage).IndexKey :: 1 :: unusable index entry: removed behind the failure edge (rule bad-index-removal) / iterator skips it
(*storethehash.HashedBlockstore).Put <- (*store.Store).Put :: 1 :: ErrKeyExists from a duplicate block is not an error for a blockstore (rule dup-silent)
(*storethehash.HashedBlockstore).PutMany <- (*store.Store).Put :: 1 :: ErrKeyExists from a duplicate block is not an error for a blockstore (rule dup-silent)
index.MoveFiles <- (*index.fileIter).next :: 1 :: io.EOF / end of the file sequence ends the loop
index.MoveFiles <- os.Stat :: 1 :: a missing file means 'nothing there (yet)': size 0 / no such file number / nothing to upgrade
index.Open <- index.loadBucketState :: 1 :: an unusable snapshot falls back to scanning the log
index.Open <- index.readHeader :: 1 :: a missing header means a new (or legacy) store: defaults are used and a header is written
index.RemoveSavedBuckets <- os.Remove :: 1 :: best-effort removal: a file that is already gone is fine
index.chunkOldIndex <- io.ReadFull :: 1 :: end of file ends the scan (a torn tail is cut off)
index.findLastIndex <- os.Stat :: 1 :: a missing file means 'nothing there (yet)': size 0 / no such file number / nothing to upgrade
index.remapIndex <- (*mhprimary.IndexRemapper).RemapOffset :: 1 :: an entry whose offset cannot be remapped is queued for deletion
index.remapIndex <- (*os.File).Close :: 2 :: logged only: a failed close of the rewritten copy or of the marker does not stop the remap (I/O-fault path, observation O-16)
index.remapIndex <- os.Create :: 1 :: logged only: a marker that cannot be created does not stop the remap (I/O-fault path, observation O-16)
index.remapIndex <- os.Remove :: 1 :: best-effort removal: a file that is already gone is fine
index.remapIndex <- os.Stat :: 1 :: the marker's absence means this file still has to be remapped
index.scanIndex <- index.scanIndexFile :: 1 :: a missing file ends the rescan
index.scanIndexFile <- (*os.File).ReadAt :: 2 :: end of file ends the scan (a torn tail is cut off)
index.scanIndexFile <- os.Truncate :: 2 :: best-effort cut of a torn tail / of an unreferenced file: logged, retried by the next pass
index.upgradeIndex <- os.Open :: 1 :: no legacy index file: nothing to upgrade
mhprimary.Open <- mhprimary.readHeader :: 1 :: a missing header means a new (or legacy) store: defaults are used and a header is written
mhprimary.applyFreeList <- (*freelist.Iterator).Next :: 1 :: io.EOF / end of the file sequence ends the loop
mhprimary.chunkOldPrimary <- (*os.File).ReadAt :: 2 :: end of file ends the scan (a torn tail is cut off)
mhprimary.findLastPrimary <- os.Stat :: 1 :: a missing file means 'nothing there (yet)': size 0 / no such file number / nothing to upgrade
mhprimary.processFreeList <- (*freelist.Iterator).Next :: 1 :: io.EOF / end of the file sequence ends the loop
mhprimary.upgradePrimary <- os.Stat :: 2 :: a missing file means 'nothing there (yet)': size 0 / no such file number / nothing to upgrade
`

// R-BUCKET-WRITERS: the in-memory bucket table is the index of the index log —
// an entry may only be set to a position at which a record list for that
// bucket has been written (Index.Flush, after the log write) or found (the
// recovery scan, the snapshot load, the remap/upgrade at open). An operation
// that sets a bucket directly — "the bucket is empty now, mark it 0" — leaves
// the log with the old record as the newest one for that bucket, so a rescan
// brings the removed keys back, and races with a flush that is between its
// pool swap and its table update. Likewise entries of the index write pools
// only leave by the pool swap: deleting a pending entry loses an update that
// was acknowledged.
func ruleBucketWriters(r *Report) {
	const rule = "bucket-writers"
	allowedPut := map[string]bool{"(*index.Index).Flush": true, "index.scanIndexFile": true}
	n := 0
	for _, fn := range moduleFuncs(r.E) {
		root := fn
		for root.Parent() != nil {
			root = root.Parent()
		}
		if root.Pkg == nil || root.Pkg.Pkg.Name() != "index" {
			continue
		}
		for _, c := range allCalls(fn) {
			if cname(c) != "(index.Buckets).Put" {
				continue
			}
			n++
			r.fn(fn)
			ok := allowedPut[shortFunc(root)] || onlyCalledFrom(root, func(f *ssa.Function) bool { return allowedPut[shortFunc(f)] })
			r.Check(ok, rule, shortFunc(root)+"/Buckets.Put", c.Pos(), "the bucket table is set by Flush (after the log write) or by the recovery scan",
				"the bucket table is set outside Index.Flush and the recovery scan: the log still holds the previous record list as the newest one for that bucket (a reopen without snapshot brings removed keys back), and a concurrent flush that already swapped the pools overwrites the entry with the stale position")
		}
		eachInstr(fn, func(in ssa.Instruction) {
			c, ok := in.(ssa.CallInstruction)
			if !ok || cname(c) != "builtin.delete" {
				return
			}
			f := fieldOfLoad(c.Common().Args[0])
			if f == "" {
				f = outerField(c.Common().Args[0])
			}
			if f != "Index.nextPool" && f != "Index.curPool" {
				return
			}
			n++
			r.Bad(rule, shortFunc(root)+"/delete-from-pool", c.Pos(), "an entry is deleted from an index write pool: pending entries only leave by the pool swap of Flush; deleting one drops an acknowledged update (or lets a lookup fall through to an older list on disk)")
		})
	}
	r.Min(rule, 2)
}

// R-MATCH-LAST: several stored prefixes can match a key (an older, shorter
// prefix that another key's entry has since made ambiguous stays in front of
// the longer one); RecordList.Get and RecordList.GetRecord must both take the
// LAST match, otherwise lookup and update/remove address different entries.
// Shape: from the "prefix matches" edge no return is reachable that does not
// go round the loop again.
func ruleMatchLast(r *Report) {
	const rule = "match-last"
	for _, name := range []string{"(RecordList).Get", "(RecordList).GetRecord"} {
		fn := r.need(rule, "I", name)
		if fn == nil {
			continue
		}
		key := name + "/match-does-not-end-search"
		hps := callSites(fn, "bytes.HasPrefix")
		var done []ssa.Instruction
		for _, c := range allCalls(fn) {
			if strings.HasSuffix(cname(c), "RecordListIter).Done") {
				done = append(done, c)
			}
		}
		if len(hps) == 0 || len(done) == 0 {
			r.Bad(rule, key, fn.Pos(), "prefix test or loop condition not found")
			continue
		}
		for _, hp := range hps {
			c := asCall(hp)
			if c == nil {
				continue
			}
			bad := false
			for _, ed := range boolEdges(fn, c, true) {
				ed := ed
				if reach, path := (Search{Fn: fn, FromEdge: &ed, Target: isReturn, Avoid: anyOf(instrSet(done))}).Run(); reach {
					bad = true
					r.BadPath(rule, key, hp.Pos(), "the first stored prefix that matches ends the search: when an older, shorter prefix of another key precedes the key's own entry, update/remove address that other key's entry (the sibling lookup takes the last match)", path)
				}
			}
			if !bad {
				r.Ok(rule, key, hp.Pos(), "a match is remembered and the search continues: the last matching prefix wins")
			}
		}
	}
	r.Min(rule, 2)
}

// R-FNCB-SUMMARY: the prefix arithmetic of Index.Put (rules trim-neighbours,
// slice-guard) treats firstNonCommonByte(a, b) as "the first position at which
// a and b differ, or the length of the shorter one". That summary is checked
// here in the one shape it is established for: a counter from 0, stepped by 1,
// returned when it reaches min(len a, len b) or when a[i] != b[i]. Any other
// shape (word-at-a-time comparison, table lookup) is not summarised and is
// reported: the summary the other rules rely on can no longer be established.
func ruleFNCBSummary(r *Report) {
	const rule = "fncb-summary"
	fn := r.need(rule, "I", "firstNonCommonByte")
	if fn == nil {
		return
	}
	key := "firstNonCommonByte/first-difference"
	if len(fn.Params) != 2 {
		r.Bad(rule, key, fn.Pos(), "unexpected signature")
		return
	}
	a, b := ssa.Value(fn.Params[0]), ssa.Value(fn.Params[1])
	var idx *ssa.Phi
	okShape := true
	why := ""
	for _, ret := range returnsOf(fn) {
		p, ok := stripIntConv(retVal(ret, 0)).(*ssa.Phi)
		if !ok || (idx != nil && p != idx) {
			okShape, why = false, "a return value is not the position counter"
			continue
		}
		idx = p
	}
	if idx == nil {
		r.Bad(rule, key, fn.Pos(), "no position counter returned: "+why)
		return
	}
	for i, e := range idx.Edges {
		pred := idx.Block().Preds[i]
		if idx.Block().Dominates(pred) {
			bo, ok := stripIntConv(e).(*ssa.BinOp)
			k, isC := int64(0), false
			if ok {
				k, isC = intConst(bo.Y)
			}
			if !ok || bo.Op != token.ADD || stripIntConv(bo.X) != ssa.Value(idx) || !isC || k != 1 {
				okShape, why = false, "the counter is not stepped by exactly 1"
			}
		} else if k, isC := intConst(e); !isC || k != 0 {
			okShape, why = false, "the counter does not start at 0"
		}
	}
	isLenOf := func(v, s ssa.Value) bool {
		c, ok := v.(*ssa.Call)
		return ok && cname(c) == "builtin.len" && c.Call.Args[0] == s
	}
	isMinLen := func(v ssa.Value) bool {
		c, ok := stripIntConv(v).(*ssa.Call)
		if !ok || len(c.Call.Args) != 2 {
			return false
		}
		n := cname(c)
		if n != "builtin.min" && n != "index.min" {
			return false
		}
		x, y := c.Call.Args[0], c.Call.Args[1]
		return (isLenOf(x, a) && isLenOf(y, b)) || (isLenOf(x, b) && isLenOf(y, a))
	}
	isElem := func(v, s ssa.Value) bool {
		u, ok := v.(*ssa.UnOp)
		if !ok || u.Op != token.MUL {
			return false
		}
		ia, ok := u.X.(*ssa.IndexAddr)
		return ok && ia.X == s && stripIntConv(ia.Index) == ssa.Value(idx)
	}
	nBound, nCmp := 0, 0
	for _, blk := range fn.Blocks {
		ifi, ok := lastInstr(blk).(*ssa.If)
		if !ok {
			continue
		}
		cond, _ := stripNot(ifi.Cond)
		bo, ok := cond.(*ssa.BinOp)
		switch {
		case ok && (bo.Op == token.LSS || bo.Op == token.GEQ) && stripIntConv(bo.X) == ssa.Value(idx) && isMinLen(bo.Y):
			nBound++
		case ok && (bo.Op == token.GTR || bo.Op == token.LEQ) && stripIntConv(bo.Y) == ssa.Value(idx) && isMinLen(bo.X):
			nBound++
		case ok && (bo.Op == token.NEQ || bo.Op == token.EQL) && ((isElem(bo.X, a) && isElem(bo.Y, b)) || (isElem(bo.X, b) && isElem(bo.Y, a))):
			nCmp++
		default:
			okShape, why = false, "a branch that is neither the bound test (i < min(len a, len b)) nor the byte comparison a[i] != b[i]"
		}
	}
	if nBound == 0 || nCmp == 0 {
		okShape, why = false, "bound test or byte comparison missing"
	}
	r.Check(okShape, rule, key, fn.Pos(), "counts from 0 by 1 and stops at min(len a, len b) or at the first differing byte",
		"firstNonCommonByte does not have the byte-wise first-difference shape ("+why+"): the summary 'first position where the two keys differ' that the prefix-trimming rules rely on cannot be established for it — a wrong position makes Index.Put judge a new key as already present, or store a prefix that does not tell two keys apart")
	r.Min(rule, 1)
}

// R-GC-START-ORDER: the primary collector truncates and removes primary files;
// the index upgrade (remap of legacy offsets) reads the sizes of those files to
// translate old linear offsets. OpenStore therefore starts the primary
// collector only after index.Open (which performs the remap) has returned.
func ruleGCStartOrder(r *Report) {
	const rule = "gc-start-order"
	fn := r.need(rule, "S", "OpenStore")
	if fn == nil {
		return
	}
	opens := instrSet(callSites(fn, "index.Open"))
	starts := callSites(fn, "(*mhprimary.MultihashPrimary).StartGC")
	if len(opens) == 0 || len(starts) == 0 {
		r.Bad(rule, "OpenStore/StartGC-after-index.Open", fn.Pos(), "index.Open or StartGC call not found in OpenStore")
		return
	}
	for _, s := range starts {
		if ok, path := precededBy(fn, s, opens, nil); ok {
			r.Ok(rule, "OpenStore/StartGC-after-index.Open", s.Pos(), "the primary collector is started only after the index is open (remap finished)")
		} else {
			r.BadPath(rule, "OpenStore/StartGC-after-index.Open", s.Pos(), "the primary collector can be started before index.Open has returned: a GC cycle that truncates or removes primary files while the index upgrade is remapping legacy offsets (it derives the new positions from the primary files' sizes) makes every later offset wrong", path)
		}
	}
	r.Min(rule, 1)
}

// carriedErrors: the values that hold the error of call c or an error made from
// it (fmt.Errorf("…%w", err)), closed under phis and captured cells.
func carriedErrors(c *ssa.Call) map[ssa.Value]bool {
	out := errValues(c)
	fn := c.Parent()
	for changed := true; changed; {
		changed = false
		eachInstr(fn, func(in ssa.Instruction) {
			w, ok := in.(*ssa.Call)
			if !ok || out[w] || cname(w) != "fmt.Errorf" {
				return
			}
			for _, a := range w.Call.Args {
				if derives(a, flowOpts{}, func(v ssa.Value) bool { return out[v] }) {
					for v := range errValues(w) {
						if !out[v] {
							out[v] = true
							changed = true
						}
					}
					return
				}
			}
		})
	}
	return out
}

// nilTestEdges: the edges on which one of vals was found nil.
func nilTestEdges(fn *ssa.Function, vals map[ssa.Value]bool) []Edge {
	return condEdges(fn, func(cond ssa.Value) (bool, bool) {
		b, ok := cond.(*ssa.BinOp)
		if !ok || (b.Op != token.EQL && b.Op != token.NEQ) {
			return false, false
		}
		if !(vals[b.X] && isNilConst(b.Y)) && !(vals[b.Y] && isNilConst(b.X)) {
			return false, false
		}
		return b.Op == token.EQL, b.Op == token.NEQ
	})
}

// sentinelEdges: the edges on which one of vals was found equal to a
// package-level error variable (io.EOF, types.ErrKeyExists, …) — the error is
// non-nil there just as on the `err != nil` edge.
func sentinelEdges(fn *ssa.Function, vals map[ssa.Value]bool) []Edge {
	isSentinel := func(v ssa.Value) bool {
		if mi, ok := v.(*ssa.MakeInterface); ok {
			_, isC := mi.X.(*ssa.Const)
			return isC && isErrorType(mi.Type())
		}
		u, ok := v.(*ssa.UnOp)
		if !ok || u.Op != token.MUL {
			return false
		}
		_, isG := u.X.(*ssa.Global)
		return isG && isErrorType(u.Type())
	}
	return condEdges(fn, func(cond ssa.Value) (bool, bool) {
		b, ok := cond.(*ssa.BinOp)
		if !ok || (b.Op != token.EQL && b.Op != token.NEQ) {
			return false, false
		}
		if !(vals[b.X] && isSentinel(b.Y)) && !(vals[b.Y] && isSentinel(b.X)) {
			return false, false
		}
		return b.Op == token.EQL, b.Op == token.NEQ
	})
}

// R-RECORD-READERS: every function of a primary that reads a record at a
// location the index handed out (a ReadAt whose offset derives from
// Block.Offset) reads the whole record — size prefix plus Block.Size bytes —
// into a buffer of exactly that length. A "key only" reader that clamps the
// length to what it assumes the largest key to be returns a truncated key for
// larger multihashes (identity hashes, long digests): the full-key comparison
// then fails and present blocks are reported absent.
func ruleRecordReaders(r *Report) {
	const rule = "record-readers"
	n := 0
	for _, fn := range moduleFuncs(r.E) {
		root := fn
		for root.Parent() != nil {
			root = root.Parent()
		}
		if root.Pkg == nil {
			continue
		}
		if pn := root.Pkg.Pkg.Name(); pn != "mhprimary" && pn != "cidprimary" {
			continue
		}
		for _, c := range callSites(fn, "(*os.File).ReadAt") {
			if c.Parent() != fn {
				continue
			}
			a := c.Common().Args
			if !derives(a[2], flowOpts{ThroughAllCalls: true, Arith: true}, isFieldLoad("Block.Offset")) {
				continue
			}
			// size-word readers (the collectors, the freelist consumers) read 4 bytes into a constant-size buffer
			if l, isLen := (linEnv{}).sliceLen(a[1]); isLen {
				if k, isC := l.isConst(); isC && k <= 8 {
					continue
				}
			}
			n++
			r.fn(fn)
			key := shortFunc(root) + "/reads-whole-record"
			mk, ok := rootBuffer(a[1]).(*ssa.MakeSlice)
			if !ok {
				r.Bad(rule, key, c.Pos(), "the read buffer is not a freshly made slice: its length cannot be related to the record size")
				continue
			}
			l := (linEnv{}).lin(mk.Len)
			okLen := l.T["F:Block.Size"] == 1 && len(l.T) == 1 && l.C > 0 && l.C <= 8
			r.Check(okLen, rule, key, c.Pos(), "reads [ "+l.String()+" ] bytes = size prefix + stored size",
				"a record located through the index is read into a buffer of [ "+l.String()+" ] bytes, not size prefix + Block.Size: a clamped or shortened read returns a truncated key or value for records larger than the assumed maximum, so the full-key comparison fails and present keys are reported absent (or values come back cut)")
		}
	}
	r.Min(rule, 2)
}

// R-SNAPSHOT-COVERS: loading the bucket snapshot assigns every bucket: the
// element stores into the table are indexed by a counter that starts at 0,
// steps by 1 and runs while it is below len(table) (or a range over the
// table). A block-wise reader whose loop drops a final partial block leaves the
// last buckets at zero: their keys are absent after a clean reopen. Any other
// loop shape is reported as "coverage cannot be established".
func ruleSnapshotCovers(r *Report) {
	const rule = "snapshot-covers"
	fn := r.need(rule, "I", "loadBucketState")
	if fn == nil {
		return
	}
	key := "loadBucketState/assigns-every-bucket"
	var table *ssa.Parameter
	for _, p := range fn.Params {
		if strings.HasSuffix(p.Type().String(), "index.Buckets") {
			table = p
		}
	}
	if table == nil {
		r.Bad(rule, key, fn.Pos(), "bucket table parameter not found")
		return
	}
	n := 0
	okAll := true
	why := ""
	eachInstr(fn, func(in ssa.Instruction) {
		st, ok := in.(*ssa.Store)
		if !ok {
			return
		}
		ia, ok := st.Addr.(*ssa.IndexAddr)
		if !ok || !derives(ia.X, flowOpts{}, func(v ssa.Value) bool { return v == ssa.Value(table) }) {
			return
		}
		n++
		idx := stripIntConv(ia.Index)
		var phi *ssa.Phi
		switch x := idx.(type) {
		case *ssa.Phi:
			phi = x
		case *ssa.BinOp: // range loops: index = phi + 1
			if k, isC := intConst(x.Y); isC && k == 1 && x.Op == token.ADD {
				phi, _ = stripIntConv(x.X).(*ssa.Phi)
			}
		}
		if phi == nil || !isCountedPhi(phi) {
			okAll, why = false, "the element index is not a simple loop counter"
			return
		}
		// step 1, bound len(table)
		for i, e := range phi.Edges {
			if phi.Block().Dominates(phi.Block().Preds[i]) {
				bo, ok := stripIntConv(e).(*ssa.BinOp)
				k, isC := int64(0), false
				if ok {
					k, isC = intConst(bo.Y)
				}
				if !ok || bo.Op != token.ADD || !isC || k != 1 {
					okAll, why = false, "the counter does not step by 1"
				}
			}
		}
		bounded := false
		for _, b := range fn.Blocks {
			ifi, ok := lastInstr(b).(*ssa.If)
			if !ok {
				continue
			}
			bo, ok := ifi.Cond.(*ssa.BinOp)
			if !ok || bo.Op != token.LSS {
				continue
			}
			x := stripIntConv(bo.X)
			isCtr := x == ssa.Value(phi)
			if b2, ok := x.(*ssa.BinOp); ok && b2.Op == token.ADD && stripIntConv(b2.X) == ssa.Value(phi) {
				if k, isC := intConst(b2.Y); isC && k == 1 {
					isCtr = true
				}
			}
			if c, ok := stripIntConv(bo.Y).(*ssa.Call); ok && isCtr && cname(c) == "builtin.len" && derives(c.Call.Args[0], flowOpts{}, func(v ssa.Value) bool { return v == ssa.Value(table) }) {
				bounded = true
			}
		}
		if !bounded {
			okAll, why = false, "the loop does not run while counter < len(table)"
		}
	})
	if n == 0 {
		okAll, why = false, "no element store into the table"
	}
	r.Check(okAll, rule, key, fn.Pos(), "the table is filled by a counter from 0 by 1 below len(table)",
		"it cannot be established that loading the snapshot assigns every bucket ("+why+"): buckets left at zero make their keys absent after a clean Close and reopen")
	r.Min(rule, 1)
}
