package main

import (
	"os"

	"golang.org/x/tools/go/ssa"
)

// "Deep" helpers: a root function together with the same-package helper
// functions it calls (transitively, depth <= searchDepth) — the unit a rule
// looks at, so that extracting a block into a helper does not hide it.

func famFuncs(root *ssa.Function) []*ssa.Function {
	if root == nil {
		return nil
	}
	pkg := pkgOfFunc(root)
	seen := map[*ssa.Function]bool{root: true}
	out := []*ssa.Function{root}
	frontier := []*ssa.Function{root}
	for d := 0; d < searchDepth && len(frontier) > 0; d++ {
		var next []*ssa.Function
		for _, f := range frontier {
			eachInstr(f, func(in ssa.Instruction) {
				c, ok := in.(*ssa.Call)
				if !ok {
					return
				}
				g := c.Call.StaticCallee()
				if g == nil || g.Blocks == nil || seen[g] || pkgOfFunc(g) != pkg {
					return
				}
				seen[g] = true
				out = append(out, g)
				next = append(next, g)
			})
		}
		frontier = next
	}
	return out
}

func deepEach(root *ssa.Function, f func(fn *ssa.Function, in ssa.Instruction)) {
	for _, fn := range famFuncs(root) {
		eachInstr(fn, func(in ssa.Instruction) { f(fn, in) })
	}
}

func deepCallSites(root *ssa.Function, names ...string) []ssa.CallInstruction {
	var out []ssa.CallInstruction
	for _, fn := range famFuncs(root) {
		out = append(out, callSites(fn, names...)...)
	}
	return out
}

func deepFieldStores(root *ssa.Function, field string) []*ssa.Store {
	var out []*ssa.Store
	for _, fn := range famFuncs(root) {
		out = append(out, fieldStores(fn, field)...)
	}
	return out
}

func deepFieldLoads(root *ssa.Function, field string) []*ssa.UnOp {
	var out []*ssa.UnOp
	for _, fn := range famFuncs(root) {
		out = append(out, fieldLoads(fn, field)...)
	}
	return out
}

func deepCondEdges(root *ssa.Function, classify func(cond ssa.Value) (bool, bool)) []Edge {
	var out []Edge
	for _, fn := range famFuncs(root) {
		out = append(out, condEdges(fn, classify)...)
	}
	return out
}

// deepLockAt: the locks definitely held immediately before `in` when it is
// reached from root (entered with no lock held). For an instruction in a
// helper: the intersection, over the helper's call sites within the family,
// of the helper's flow entered with the locks held at the call site.
func deepLockAt(root *ssa.Function, in ssa.Instruction) LockSet {
	return deepLockAtDepth(root, in, 0)
}

func deepLockAtDepth(root *ssa.Function, in ssa.Instruction, depth int) LockSet {
	fn := in.Parent()
	if fn == root {
		return lockFlowRaw(root, LockSet{}).at[in]
	}
	if depth > searchDepth {
		return LockSet{}
	}
	fam := map[*ssa.Function]bool{}
	for _, f := range famFuncs(root) {
		fam[f] = true
	}
	var out LockSet
	first := true
	for _, c := range staticCallers[fn] {
		if !fam[c.Parent()] {
			continue
		}
		ctx := deepLockAtDepth(root, c, depth+1)
		if ctx == nil {
			ctx = LockSet{}
		}
		ls := lockFlowRaw(fn, ctx).at[in]
		if ls == nil {
			ls = LockSet{}
		}
		if first {
			out = ls.clone()
			first = false
		} else {
			out = intersect(out, ls)
		}
	}
	if out == nil {
		out = LockSet{}
	}
	return out
}

// fieldValue reports whether v is the value of struct field "T.f": a load of
// it, or the result of a same-package accessor all of whose returns yield such
// a load. It returns the load instructions involved.
func fieldValueLoads(v ssa.Value, field string) []*ssa.UnOp {
	v = stripConv(v)
	if fieldOfLoad(v) == field {
		if ld, ok := v.(*ssa.UnOp); ok {
			return []*ssa.UnOp{ld}
		}
	}
	var call *ssa.Call
	idx := 0
	switch x := v.(type) {
	case *ssa.Call:
		call = x
	case *ssa.Extract:
		call, _ = x.Tuple.(*ssa.Call)
		idx = x.Index
	}
	if call == nil {
		return nil
	}
	h := call.Call.StaticCallee()
	if h == nil || h.Blocks == nil {
		return nil
	}
	var out []*ssa.UnOp
	for _, ret := range returnsOf(h) {
		if idx >= len(ret.Results) {
			return nil
		}
		sub := fieldValueLoads(retVal(ret, idx), field)
		if len(sub) == 0 {
			return nil
		}
		out = append(out, sub...)
	}
	return out
}

// flagEdges returns the branch edges of fn that are taken only when one of the
// boolean struct fields `fields` was read as `want` — either tested directly,
// or through the result of a same-package helper: every return of the helper
// that can yield `want` for that result either returns the field's loaded
// value or lies behind such an edge inside the helper.
func flagEdges(fn *ssa.Function, fields []string, want bool) []Edge {
	return flagEdgesDepth(fn, fields, want, 0)
}

func flagEdgesDepth(fn *ssa.Function, fields []string, want bool, depth int) []Edge {
	isField := func(v ssa.Value) bool {
		f := fieldOfLoad(stripConv(v))
		if f == "" {
			return false
		}
		for _, x := range fields {
			if f == x {
				return true
			}
		}
		return false
	}
	return condEdges(fn, func(cond ssa.Value) (bool, bool) {
		ok := isField(cond)
		if !ok && depth < searchDepth {
			ok = helperFlag(cond, fields, want, depth, isField)
		}
		if !ok && depth < searchDepth {
			// a local flag merged from the field's value and constants (result variable of an inlined helper)
			if phi, isPhi := stripConv(cond).(*ssa.Phi); isPhi {
				ok = true
				var ev edgeSet
				type leaf struct {
					v    ssa.Value
					pred *ssa.BasicBlock
				}
				var leaves []leaf
				seen := map[*ssa.Phi]bool{}
				var flat func(p *ssa.Phi)
				flat = func(p *ssa.Phi) {
					if seen[p] {
						return
					}
					seen[p] = true
					for i, ed := range p.Edges {
						if q, isQ := stripConv(ed).(*ssa.Phi); isQ {
							flat(q)
							continue
						}
						leaves = append(leaves, leaf{stripConv(ed), p.Block().Preds[i]})
					}
				}
				flat(phi)
				for _, lf := range leaves {
					if isField(lf.v) {
						continue
					}
					b, isC := boolConst(lf.v)
					if !isC {
						ok = false
						break
					}
					if b != want {
						continue
					}
					// the zero value of a result variable that is overwritten on every path never arrives; a
					// constant equal to `want` must come from a block behind the evidence
					if ev == nil {
						ev = mkEdgeSet(flagEdgesDepth(fn, fields, want, depth+1))
					}
					if g, _ := guarded(fn, lastInstr(lf.pred), ev, nil); !g || len(ev) == 0 {
						ok = false
						break
					}
				}
			}
		}
		if !ok {
			return false, false
		}
		if want {
			return true, false
		}
		return false, true
	})
}

func helperFlag(v ssa.Value, fields []string, want bool, depth int, isField func(ssa.Value) bool) bool {
	var call *ssa.Call
	idx := 0
	switch x := stripConv(v).(type) {
	case *ssa.Call:
		call = x
	case *ssa.Extract:
		call, _ = x.Tuple.(*ssa.Call)
		idx = x.Index
	}
	if call == nil {
		return false
	}
	h := call.Call.StaticCallee()
	if h == nil || h.Blocks == nil {
		return false
	}
	rets := returnsOf(h)
	if len(rets) == 0 {
		return false
	}
	var ev edgeSet
	for _, ret := range rets {
		if idx >= len(ret.Results) {
			return false
		}
		rv := stripConv(retVal(ret, idx))
		if isField(rv) {
			continue
		}
		if b, isC := boolConst(rv); isC && b != want {
			continue
		}
		if ev == nil {
			ev = mkEdgeSet(flagEdgesDepth(h, fields, want, depth+1))
		}
		if len(ev) == 0 {
			return false
		}
		if g, _ := guarded(h, ret, ev, nil); !g {
			return false
		}
	}
	return true
}

// usedAsValue: module functions referenced other than as the callee of a plain
// static call (go/defer statements, method values, closures).
var usedAsValue = map[*ssa.Function]bool{}

// onlyCalledFrom reports whether fn is one of the allowed functions or an
// unexported helper (or closure) that can only run on behalf of them: every
// static caller, transitively, is allowed and fn is never used as a value.
// It lets who-may-write inventories survive the extraction of a helper.
func onlyCalledFrom(fn *ssa.Function, allowed func(*ssa.Function) bool) bool {
	return onlyCalledFromDepth(fn, allowed, 0)
}

func onlyCalledFromDepth(fn *ssa.Function, allowed func(*ssa.Function) bool, depth int) bool {
	if fn == nil {
		return false
	}
	if allowed(fn) {
		return true
	}
	if depth >= searchDepth {
		return false
	}
	if fn.Parent() != nil {
		return onlyCalledFromDepth(fn.Parent(), allowed, depth+1)
	}
	if usedAsValue[fn] {
		return false
	}
	if obj := fn.Object(); obj == nil || obj.Exported() {
		return false
	}
	cs := staticCallers[fn]
	if len(cs) == 0 {
		return false
	}
	for _, c := range cs {
		if !onlyCalledFromDepth(c.Parent(), allowed, depth+1) {
			return false
		}
	}
	return true
}

// deepCtx: locks definitely held on entry to fn when reached from root.
func deepCtx(root, fn *ssa.Function) LockSet {
	if fn == root || len(fn.Blocks) == 0 || len(fn.Blocks[0].Instrs) == 0 {
		return LockSet{}
	}
	// the first instruction's lockset is the entry context
	return deepLockAt(root, fn.Blocks[0].Instrs[0])
}

// callsReaching lists the call instructions of fn itself that are a call to
// one of names, or a call to a same-package helper whose family contains one.
func callsReaching(fn *ssa.Function, names ...string) []ssa.CallInstruction {
	var out []ssa.CallInstruction
	pkg := pkgOfFunc(fn)
	for _, c := range allCalls(fn) {
		n := cname(c)
		hit := false
		for _, want := range names {
			if n == want {
				hit = true
			}
		}
		if !hit {
			if g := c.Common().StaticCallee(); g != nil && g.Blocks != nil && g != fn && pkgOfFunc(g) == pkg {
				hit = len(deepCallSites(g, names...)) > 0
			}
		}
		if hit {
			out = append(out, c)
		}
	}
	return out
}

// anchorFuncs: functions the rule tables name directly (tool/roles.json); they
// are analysed in their own right and never absorbed into a caller's scope.
var anchorFuncs = map[*ssa.Function]bool{}

var scopeCache = map[*ssa.Function][]*ssa.Function{}

// scopeDisabled switches private-helper absorption off (STHLINT_NOSCOPE=1, for
// comparing results).
var scopeDisabled = os.Getenv("STHLINT_NOSCOPE") == "1"

// scopeOf returns fn followed by its private helpers: unexported, named
// functions of the same package that are not anchors themselves, are never
// used as values, and whose every static caller is fn or another member of the
// scope (depth <= searchDepth). Such a helper can only run as part of fn.
func scopeOf(fn *ssa.Function) []*ssa.Function {
	if fn == nil {
		return nil
	}
	if s, ok := scopeCache[fn]; ok {
		return s
	}
	out := []*ssa.Function{fn}
	if scopeDisabled {
		scopeCache[fn] = out
		return out
	}
	in := map[*ssa.Function]bool{fn: true}
	pkg := pkgOfFunc(fn)
	for round := 0; round < searchDepth; round++ {
		added := false
		for _, f := range append([]*ssa.Function{}, out...) {
			eachInstr(f, func(instr ssa.Instruction) {
				c, ok := instr.(*ssa.Call)
				if !ok {
					return
				}
				g := c.Call.StaticCallee()
				if g == nil || g.Blocks == nil || in[g] || g.Parent() != nil || pkgOfFunc(g) != pkg || anchorFuncs[g] || usedAsValue[g] {
					return
				}
				if obj := g.Object(); obj == nil || obj.Exported() {
					return
				}
				for _, c2 := range staticCallers[g] {
					if !in[c2.Parent()] {
						return
					}
				}
				in[g] = true
				out = append(out, g)
				added = true
			})
		}
		if !added {
			break
		}
	}
	scopeCache[fn] = out
	return out
}
