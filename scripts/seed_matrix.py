#!/usr/bin/env python3
"""Runs every registered check against every confirmed seeded change (applied to /repo and reverted straight afterwards)
and records which checks fire in seeded/<id>/meta.json (detected_by) and seeded/MATRIX.md."""
import glob, json, os, subprocess, sys
import shutil
BIN = "/tmp/sthlint_matrix"
shutil.copy("/verif/bin/sthlint", BIN)
props = subprocess.run([BIN, "-list"], capture_output=True, text=True).stdout.split()
claimed = [c["property_id"] for c in json.load(open("/verif/MANIFEST.json"))["checks"]]
only = sys.argv[1:]
rows = []
for d in sorted(glob.glob("/verif/seeded/*/")):
    sid = os.path.basename(d.rstrip("/"))
    if only and sid not in only: 
        m = json.load(open(d + "meta.json")); rows.append((sid, m["breaks_property"], m.get("detected_by") or [])); continue
    meta = json.load(open(d + "meta.json"))
    WT = "/tmp/matrix_wt"
    if not os.path.isdir(WT):
        subprocess.run(f"git -C /repo worktree add -q --detach {WT} HEAD", shell=True, check=True)
    subprocess.run(f"git -C {WT} checkout -q --detach $(git -C /repo rev-parse HEAD) && git -C {WT} checkout -- .", shell=True)
    fired = {}
    try:
        r = subprocess.run(f"git -C {WT} apply {d}patch.diff", shell=True, capture_output=True, text=True)
        if r.returncode != 0:
            meta["detected_by"] = None; meta["note"] = "patch no longer applies to /repo HEAD: " + r.stderr.strip()[:200]
        else:
            def one(p):
                out = subprocess.run(["timeout", "600", BIN, "-property", p, "-no-evidence", "-repo", WT, "-verif", "/verif"], capture_output=True, text=True).stdout
                keys = [l[4:].split(" | ")[0] for l in out.splitlines() if l.startswith("BAD ")]
                if "engine/undecided" in out: keys.append("engine/undecided")
                return p, keys
            from concurrent.futures import ThreadPoolExecutor
            with ThreadPoolExecutor(8) as ex:
                for p, keys in ex.map(one, claimed):
                    if keys: fired[p] = keys[:4]
            meta["detected_by"] = fired
    finally:
        subprocess.run(f"git -C {WT} checkout -- .", shell=True)
    json.dump(meta, open(d + "meta.json", "w"), indent=1)
    rows.append((sid, meta["breaks_property"], fired))
    print(sid, "->", {k: v[0] for k, v in fired.items()} if fired else "MISSED", flush=True)
with open("/verif/seeded/MATRIX.md", "w") as f:
    f.write("| seeded change | breaks | caught by (first obligation per check) |\n|---|---|---|\n")
    for sid, prop, fired in rows:
        if isinstance(fired, dict) and fired:
            txt = "; ".join(f"{p}: `{ks[0]}`" for p, ks in sorted(fired.items()))
        else:
            txt = "**not caught**"
        f.write(f"| {sid} | {prop} | {txt} |\n")
subprocess.run("git -C /repo worktree remove --force /tmp/matrix_wt", shell=True)
n = sum(1 for _, _, f in rows if f)
print(f"{n}/{len(rows)} caught")
