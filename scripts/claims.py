# Table of claims; exec'd by gen_manifest.py.
COMMON_NOTE = ("Trusted base: go/types, go/ssa, go/packages, callgraph cha/vta (x/tools v0.50.0, Go 1.26.8 front end); the rule tables in "
               "/verif/tool. Decides only the named structural clauses (necessary conditions), not the behaviour; dominance is computed "
               "without pruning infeasible paths except boolean-flag correlation and the return statement of an inlined same-package helper. "
               "After its own rules each check also runs the rules of the mechanisms the property depends on (tool/support.go; every rule run is "
               "listed with its instance count in the evidence): an open store always has the flusher and both collectors running behind every call. "
               "Rules added in later rounds (DESIGN.md 9.9-9.20, e.g. errors-not-dropped with its frozen idiom table, bucket-writers, match-last, flush-waits, "
               "flush-writes, record-readers, config-wiring of objects, handover-owners, commit-stops) are necessary conditions of the same kind; the evidence "
               "lists every rule run, and DESIGN.md 9.1 tabulates them per property.")

claim("C16", "DESIGN.md §2 C16",
      "Interprocedural must-hold lockset analysis from the thread roots the statement names: for every field of the store's shared structs, every conflicting access pair from concurrently runnable roots shares a lock held exclusively on one side; lock acquire/release is balanced on all paths; lock order is acyclic. A necessary condition of race freedom decided for all paths and call chains at once; channel happens-before, aliasing beyond the field abstraction and Open/Close/iterator entry points are not covered.",
      "static lockset/race analysis over go/ssa + VTA call graph; lock-balance dataflow; lock-order cycle check",
      COMMON_NOTE + " Ownership assumption: one instance of each component per store, reached through fields never written after construction.")

claim("C01", "DESIGN.md §2 C01",
      "Structural necessary conditions of map-equivalence decided on all paths: every outcome of Store.Get/Has/GetSize/Remove/Put that reports or acts on an existing key is dominated by a successful full-key comparison (the index stores prefixes only); Put's store-nothing success exit requires the key match; no primary Get branches on the cached value bytes (nil/empty values are values); ErrKeyExists precedes every write; index cache lookup order; the location predicted by a primary's Put and the bytes its flushBlock writes/its Get reads agree as affine expressions (rollover test, advance, prefix, reader length). Decides those clauses, not the behaviour: prefix trimming, ordering inside record lists, iteration contents and division-based position arithmetic are not covered.",
      "CFG dominance / evidence-edge path rules with boolean-flag correlation, value provenance, affine sibling comparison over go/ssa",
      COMMON_NOTE)

claim("C02", "DESIGN.md §2 C02",
      "Structural necessary conditions of clean-Close-then-reopen: Store.Close reaches the Close of index, primary, file cache and freelist on every path behind the open guard (cleared under stateLk); each component flushes before closing its file; the bucket snapshot is written temp+rename only after successful flush and close, trusted only when its size matches, removed once opened; writer, rescan and GC agree on the bucket position convention (affine); every sequential log scanner and point reader branches on the deleted bit before using a size word; recovery scans start at the header's FirstFile; the primary resumes at the end of its last file. Does not decide that rescan order reproduces the live table for every history.",
      "must-call / must-precede path rules on the SSA CFG, success-edge dominance through captured error cells, affine comparison, value provenance",
      COMMON_NOTE)

claim("C03", "DESIGN.md §2 C03",
      "Decides only the ordering discipline crash safety rests on (each rule: B never happens unless A already succeeded on this path): primary flushed before index and freelist after it in every store-level flush sequence (commit, Close); Index.Flush publishes bucket positions only after the log write succeeded; GC unlinks a data file only after the header recording FirstFile+1 was written successfully and only the header's first file; legacy files removed only after the new header exists; header files replaced by write-temp-then-rename, never in place; bucket snapshot installed by rename after flush+close and removed once opened; an unprocessed freelist hand-over file is never overwritten. Crash-state behaviour itself (torn appends, Put-vs-commit interleaving, GC crash windows, recovery) is NOT decided: crash-state enumeration is outside the static family.",
      "must-precede / success-edge dominance path rules on the SSA CFG; who-may-write inventory of header files",
      COMMON_NOTE)

claim("C13", "DESIGN.md §2 C13",
      "Structural necessary conditions of exactly-once freeing: every FreeList.Put call site in the module (inventory, min 4) matches an accepted evidence form — old location from index.Get freed only after a successful index Update/Remove behind the full-key match (so nothing is freed for a new key, a rejected Put or an absent key), relocation frees the old location after the re-point and the new copy only when the re-point failed; hand-over to GC never overwrites an unprocessed batch, runs in one exclusive flushLock section after a pool flush; the hand-over file is removed only after EOF and every record read is applied; records are marked only via the freelist, only when not already deleted and only when sizes match; the primary is flushed before the hand-over; freelist fields are lock-protected. Duplicates from two concurrent writers of one key, crash points and timing are not covered.",
      "call-site inventory + evidence-form classification (dominance, provenance), lock-span check from the lockset dataflow",
      COMMON_NOTE)

claim("C12", "DESIGN.md §2 C12",
      "Decides the shape of the back-pressure protocol, each rule a necessary condition of 'no lost wake-up': every successful return of Store.Flush passes the broadcast point (test-and-close of flushNotice under rateLk, directly or via a helper all of whose paths do); close is followed by flushNotice=nil before the lock is released; flushTick creates-if-nil and loads the channel in one exclusive rateLk section, waits on that loaded value without the lock, signals flushNow non-blockingly after registering and before waiting; the flusher serves every flushNow signal with a Flush, sends to flushNow only non-blockingly, and flushNow is buffered. Freedom from lost wake-ups over all schedules is a model-checking question and is NOT decided.",
      "must-pass-through path rules with helper summaries, lockset dataflow for critical-section membership, select/send shape checks over go/ssa",
      COMMON_NOTE)

claim("C14", "DESIGN.md §2 C14",
      "Structural necessary conditions of 'never closes a lent handle': every os.File.Close in package filecache (inventory) is dominated by last-holder evidence (entry refs==0 / removed-count==1 / handle shown unmanaged); FileCache.Close changes an entry's count only after showing the entry holds this very *os.File; counts incremented exactly where a cached handle is handed out, decremented only behind a non-zero check, evicted-but-referenced entries move to removed with their count; every access to FileCache/entry fields holds FileCache.lock (lockset analysis, all exported methods as self-concurrent roots); every client Open outside the package is paired with FileCache.Close of the same cache on all success paths and the handle does not escape. The exhaustive operation-sequence behaviour and the descriptor bound are not decided.",
      "close-site inventory with dominance evidence forms, typestate-like refcount rules, lockset analysis",
      COMMON_NOTE)

claim("C15", "DESIGN.md §2 C15",
      "Decides the shape of the thin adapter (necessary conditions of its contract): every store call in a context-taking method is dominated by the ctx.Err()==nil edge and the other edge returns ctx.Err(); the key handed to the store is cid.Hash() of the requested CID/block, the value the block's RawData; a miss returns ipld.ErrNotFound carrying the requested CID, data only on the found edge, Has returns the store's answer; the store's Put error reaches a return only on the not-ErrKeyExists edge (Put/PutMany agree); Store.GetSize = indexed size − len(key) (affine); HashOnRead stores its argument, re-hashing only when enabled and then only a verified block is returned. Round-trip byte equality is inherited from C01 and not decided here.",
      "dominance path rules, value provenance, parameter-flow and affine checks over go/ssa",
      COMMON_NOTE)

claim("C17", "DESIGN.md §2 C17",
      "Structural necessary conditions of 'Close stops everything and releases every resource': for every go statement (inventory, min 5) the goroutine begins with defer close(done), its loop's stop case never re-enters the loop, GC supervisors cancel the cycle context and wait for a running cycle, the go statement is the last fallible step of its spawner, a stopper closes stop before waiting for done and every flush/file-close/snapshot in the stopper is only reachable behind that wait (or the never-started edge); Store.Close reaches every component Close on all paths; OpenStore/translateIndex/inner Opens release what they acquired before every error return reachable after the acquisition; cache handles are returned and closed only by their last holder. Goroutine/descriptor counts and directory quiescence as observations are not decided.",
      "go-statement inventory + CFG path rules (must-follow, gate dominance), release-on-failure typestate over acquisitions",
      COMMON_NOTE)

claim("C04", "DESIGN.md §2 C04",
      "Structural necessary conditions of 'GC never changes contents': index GC sets the deleted bit only on the busy()==false edge (busy reads the bucket under bucketLk and reports in-use iff file number AND position match) or when merging already-deleted records; primary records are marked only via the freelist, when not deleted and the size matches; slices handed to the primary's retaining Put during relocation do not alias a reused buffer; no *os.File result is used after its open failed; the primary is flushed and the freelist pool handed over before a cycle applies the freelist; reap/remove/truncate only touch file numbers dominated by a != current test against a snapshot read under flushLock (taken before the bucket scan); relocation frees exactly the moved record's (offset,size) pair after the re-point; FirstFile advances only past a file shown empty and only the header's first file is unlinked after the header write; merged free spans grow by exactly the scanner's advance; the rescan applies every non-deleted record; all scanners honour the deleted bit. Truncation offsets, resume cursor and schedules are not covered.",
      "dominance/evidence-edge path rules, alias/retention provenance, affine merge-framing comparison, paired-variable consistency over phis, call-site inventories",
      COMMON_NOTE)

claim("C05", "DESIGN.md §2 C05",
      "Structural necessary conditions of 'keys do not interfere / lookups after a Put see it' (NOT linearizability over all schedules): in Index.Put/Update/Remove the read of the bucket's record list and the store of the new list happen in one exclusive bucketLk section and the stored list derives from that read; in each Flush the pool swap is one exclusive section, curPool is written only by Flush and not overwritten before the bucket table is updated after a successful write; cache lookups report a miss only after both pools; every present-outcome is behind the full-key comparison; no unprotected conflicting access pair among the foreground/flusher roots; lock order acyclic.",
      "lock-span checks from the lockset dataflow, path rules, lockset race analysis from all thread roots (foreground, flusher, both collectors)",
      COMMON_NOTE)

claim("C06", "DESIGN.md §2 C06",
      "Structural necessary conditions of 'concurrent GC never disturbs callers': no unprotected conflicting access pair between public calls, flusher and both collectors (lockset analysis incl. GC roots); lock order acyclic; index GC marks only on the busy()==false edge; GC only touches files dominated by a != current test against a snapshot taken under flushLock and before the bucket scan; hand-over in one exclusive flushLock section; relocation hands stable buffers to the primary; relocation may re-point a key only if the index still names the moved record — violated on the current tree and reported as KNOWN-FINDING KF-2 (known_findings.json). The reader-holds-position window and all timing are not covered.",
      "lockset/race analysis over go/ssa + VTA call graph, path rules, call-graph-resolved function-field callee check (compare-and-swap shape)",
      COMMON_NOTE)

claim("C07", "DESIGN.md §2 C07",
      "Structural necessary conditions of the fsck invariant (NOT the invariant over reachable disk states; an fsck needs the files): no location is freed unless the index stopped naming it on that path; FirstFile advances only past a file shown empty, only the header's first file is unlinked and only after the header write; scanners/readers honour the deleted bit; merged free spans keep the log framed (grow by the scanner's advance); the rescan applies every non-deleted record; writer, rescan and GC agree on the bucket position convention; writer and reader tables of the index entry, index log record, freelist entry and primary record agree (affine comparison). Sortedness/prefix-freeness, key-carrying and division-based position arithmetic are not covered.",
      "affine writer/reader table comparison, dominance path rules, call-site inventory",
      COMMON_NOTE)

claim("C08", "DESIGN.md §2 C08",
      "Decides two structural clauses of the record-list property (resolution of every key for every key set and order is a property of runtime byte strings and is NOT decided): (splice) Index.Update/Remove replace exactly the byte range [r.Pos, r.NextPos()) of the record found for the addressed key, by one entry carrying the record's own stored prefix and the new location, or by nothing; Index.Put replaces nothing at the insertion position or exactly [prevRecord.Pos, pos); (trim-neighbours) in the non-prefix branch the new entry's stored prefix ends at 1+min(max(first non-common byte with previous, with next), len-1), each neighbour ignored only when it does not exist, with the max/min helpers verified to return the larger/smaller argument; entry writer/reader offsets agree.",
      "value provenance and affine checks at PutKeys call sites; ordering-domain summary of max/min helpers; phi-entry edge analysis",
      COMMON_NOTE)

claim("C09", "DESIGN.md §2 C09",
      "Structural necessary conditions of 're-bucketing keeps contents; mismatching file sizes are refused': translateIndex starts only on the errors.As(ErrIndexWrongBitSize) edge of index.Open's error; between reading the header and refusing with the three mismatch errors no call that may (transitively) modify files is made and the refusal sits on the header != requested edge; in translateIndex old files are displaced only after both indexes closed successfully, new ones installed after that, the displaced copy deleted only after a successful install; every record the old iterator returns reaches newIndex.Put with the key read from the primary at the record's location and the location unchanged. The crash clause (two non-atomic MoveFiles, observation O-3) and contents equality are not decided.",
      "dominance path rules, transitive file-effect summaries over the call graph, value provenance",
      COMMON_NOTE)

claim("C10", "DESIGN.md §2 C10",
      "Ordering/shape clauses of the legacy upgrade (NOT equality of contents or resumability at every crash point): upgradePrimary applies the pending freelist before chunking (excused only without a freelist), chunks only if that succeeded, header only after successful chunking, legacy file removed only after the header; upgradeIndex converts only version 2 with the same order; remapIndex rewrites offsets only in .tmp copies, closes before renaming temp over original, records completion only after the per-file loop and always queues un-remappable entries for deletion; the five start-a-new-file tests use the same >= relation; chunkOldPrimary/applyFreeList honour the deleted bit.",
      "gated must-precede path rules, affine sibling comparison of rollover tests",
      COMMON_NOTE)

PENDING = "check for this property is still being built in this session; see DESIGN.md for the planned structural rules"
claim("C11", "DESIGN.md §2 C11 and §9.15",
      "Decides only the SHAPE the collectors' progress rests on, each rule a necessary condition (if it is violated, some history ending in files without live data is never reclaimed however many cycles run): both GC supervisors re-arm their timer after every finished cycle, every cycle calls the collector and signals completion on every exit; files in which the freelist pass marked records leave the visited set before the file loop, a file is marked visited only after a successful reap, and deleteRecords enters every file it marked in into the affected set; the three file loops (primary gc, index gc, truncateFreeFiles) start at the header's first file (or the recorded resume point), advance by one file, and pass over a file only for a stated reason (visited / still referenced / unreadable / already empty); an empty oldest file is unlinked in the same pass; a zero-length file and a file cut at offset 0 are reported empty; a completed scan that found a trailing free span truncates; an index record no bucket refers to is marked in the same pass; relocation of a low-use file's last live records is skipped only for the stated reasons and the low-use test has the form 100*free >= percent*(...); an index pass stopped by the time limit records its resume point, the next pass starts there and clears the request before its first reap; a configured time limit of 0 never becomes a deadline; OpenStore always gives the primary collector the freelist and a non-nil index callback. NOT decided: the number of cycles, reclaimed byte counts, the fixed point, 'GC never increases storage', or that these shapes together suffice for progress — those are quantities of executions.",
      "must-reach / skip-only-for-stated-reason path rules on the SSA CFG (reachability avoiding the work instruction and the bypass polarity of the stated-reason tests), loop-variable start/step forms, select-case analysis of the supervisors",
      COMMON_NOTE)
