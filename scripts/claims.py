# Table of claims; exec'd by gen_manifest.py.
COMMON_NOTE = ("Trusted base: go/types, go/ssa, go/packages, callgraph cha/vta (x/tools v0.50.0, Go 1.26.8 front end); the rule tables in "
               "/verif/tool. Decides only the named structural clauses (necessary conditions), not the behaviour; dominance is computed "
               "without pruning infeasible paths except boolean-flag correlation.")

claim("C16", "DESIGN.md §2 C16",
      "Interprocedural must-hold lockset analysis from the thread roots the statement names: for every field of the store's shared structs, every conflicting access pair from concurrently runnable roots shares a lock held exclusively on one side; lock acquire/release is balanced on all paths; lock order is acyclic. A necessary condition of race freedom decided for all paths and call chains at once; channel happens-before, aliasing beyond the field abstraction and Open/Close/iterator entry points are not covered.",
      "static lockset/race analysis over go/ssa + VTA call graph; lock-balance dataflow; lock-order cycle check",
      COMMON_NOTE + " Ownership assumption: one instance of each component per store, reached through fields never written after construction.")

PENDING = "check for this property is still being built in this session; see DESIGN.md for the planned structural rules"
for p in ["C01","C02","C03","C04","C05","C06","C07","C08","C09","C10","C12","C13","C14","C15","C17"]:
    na(p, PENDING)
na("C11", "progress, reclaimed byte counts, 'bounded number of cycles' and fixed points are quantities of executions; no refactoring-stable structural necessary condition exists beyond safety rules already claimed under C04/C07 (DESIGN.md §2 C11)")
