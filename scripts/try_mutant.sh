#!/bin/bash
# usage: try_mutant.sh <patch.diff> [property ...]   — applies the patch to /repo, runs the checks (no evidence written), reverts.
set -u
patch="$1"; shift
props="$*"
if [ -z "$props" ]; then props=$(/verif/bin/sthlint -list); fi
cd /repo || exit 2
if ! git diff --quiet; then echo "/repo has uncommitted changes; refusing"; exit 2; fi
trap 'git -C /repo checkout -- . >/dev/null 2>&1' EXIT
git apply "$patch" || { echo "patch does not apply"; exit 2; }
for p in $props; do
  out=$(/verif/bin/sthlint -property $p -no-evidence 2>&1)
  bad=$(echo "$out" | grep -c '^BAD ')
  if [ "$bad" -gt 0 ] || echo "$out" | grep -q 'engine/undecided'; then
    echo "== $p: FIRED"; echo "$out" | grep -E '^BAD |undecided' | cut -c1-260
  else
    echo "== $p: silent"
  fi
done
