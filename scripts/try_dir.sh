#!/bin/bash
# usage: try_dir.sh <agent_out_dir> — runs all registered checks on each n/patch.diff using the scratch copy /tmp/head
for d in "$1"/*/; do
  n=$(basename "$d")
  [ -f "$d/patch.diff" ] || continue
  cd /tmp/head && git checkout -q -- . && if ! git apply "$d/patch.diff" 2>/dev/null; then echo "== $n: patch does not apply"; continue; fi
  fired=""
  for p in $(/verif/bin/sthlint -list); do
    out=$(timeout 600 /verif/bin/sthlint -property $p -repo /tmp/head -no-evidence 2>&1)
    k=$(echo "$out" | grep '^BAD ' | head -1 | cut -c5- | cut -d'|' -f1)
    [ -n "$k" ] && fired="$fired $p:[$k]"
  done
  git checkout -q -- .
  if [ -n "$fired" ]; then echo "== $n: FIRED $fired" | cut -c1-400; else echo "== $n: MISSED"; fi
done
