#!/bin/bash
# usage: try_dir.sh <agent_out_dir> [only_n...] — runs all registered checks on each n/patch.diff using the scratch copy /tmp/head
# STHLINT_BIN overrides the binary (default /verif/bin/sthlint)
BIN=${STHLINT_BIN:-/verif/bin/sthlint}
dir="$1"; shift
for d in "$dir"/*/; do
  n=$(basename "$d")
  [ -f "$d/patch.diff" ] || continue
  if [ $# -gt 0 ]; then case " $* " in *" $n "*) ;; *) continue;; esac; fi
  cd /tmp/head && git checkout -q -- . && git clean -fdq && if ! git apply "$d/patch.diff" 2>/dev/null; then echo "== $n: patch does not apply"; continue; fi
  tmpd=$(mktemp -d)
  for p in $($BIN -list); do
    ( out=$(timeout 600 $BIN -property $p -repo /tmp/head -verif /verif -no-evidence 2>&1)
      k=$(echo "$out" | grep -E '^BAD |engine/undecided' | head -1 | cut -c5- | cut -d'|' -f1)
      [ -n "$k" ] && echo "$p:[$k]" > $tmpd/$p ) &
  done
  wait
  fired=$(cat $tmpd/* 2>/dev/null | tr '\n' ' ')
  rm -rf $tmpd
  git checkout -q -- . && git clean -fdq
  if [ -n "$fired" ]; then echo "== $n: FIRED $fired" | cut -c1-400; else echo "== $n: MISSED"; fi
done
