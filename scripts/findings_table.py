fixed("C16", "150dfab", "race/mhprimary.MultihashPrimary.fileNum/R@(*mhprimary.primaryGC).gc/W@(*mhprimary.MultihashPrimary).flushBlock",
      "D8a: primaryGC.gc read MultihashPrimary.fileNum in its loop bound with no lock while flushBlock writes it under flushLock")
fixed("C16", "fa8389a", "race/freelist.FreeList.file/R@(*freelist.FreeList).StorageSize/W@(*freelist.FreeList).ToGC",
      "D8b: FreeList.StorageSize read FreeList.file with no lock while ToGC replaces it under flushLock")
fixed("C16", "7768ca7", "race/store.Store.flushRate/R@(*store.Store).flushTick/W@(*store.Store).Flush",
      "D8c: flushTick read Store.flushRate in its log-call arguments without rateLk while Flush writes it under rateLk")
