fixed("C16", "150dfab", "race/mhprimary.MultihashPrimary.fileNum/R@(*mhprimary.primaryGC).gc/W@(*mhprimary.MultihashPrimary).flushBlock",
      "D8a: primaryGC.gc read MultihashPrimary.fileNum in its loop bound with no lock while flushBlock writes it under flushLock")
fixed("C16", "fa8389a", "race/freelist.FreeList.file/R@(*freelist.FreeList).StorageSize/W@(*freelist.FreeList).ToGC",
      "D8b: FreeList.StorageSize read FreeList.file with no lock while ToGC replaces it under flushLock")
fixed("C16", "7768ca7", "race/store.Store.flushRate/R@(*store.Store).flushTick/W@(*store.Store).Flush",
      "D8c: flushTick read Store.flushRate in its log-call arguments without rateLk while Flush writes it under rateLk")
fixed("C01", "8305c78", "samevalue-guard/(*Store).Put/return-nil",
      "D1: Store.Put compared the value with storedVal outside the key-match guard; Put(k2, empty) with another key under the same prefix returned success without storing")
fixed("C01", "8315bc0", "opaque-value/(*mhprimary.MultihashPrimary).Get/branch-on-value",
      "D2: mhprimary.Get treated a cached record with nil value as a miss; Put(k,nil) then Get before flush read unwritten bytes and the key was deleted")
fixed("C01", "8315bc0", "opaque-value/(*cidprimary.CIDPrimary).Get/branch-on-value",
      "D2: cidprimary.Get treated a cached record with nil value as a miss")
fixed("C03", "e70cc09", "commit-order/(*store.Store).Close/primary-before-(*index.Index).Close",
      "D9: Store.Close closed (flushed) the index before the primary; a crash in between left index records naming unwritten primary bytes")
fixed("C03", "4fe7ccd", "meta-atomic/index.writeHeader/os.WriteFile/not-in-place",
      "D11: index writeHeader rewrote the .info file in place; a crash after truncation left an empty header and OpenStore failed")
fixed("C03", "4fe7ccd", "meta-atomic/mhprimary.writeHeader/os.WriteFile/not-in-place",
      "D11: primary writeHeader rewrote the .info file in place")
fixed("C13", "5666341", "gc-flush-first/(*primaryGC).gc/flush-before-handover",
      "D12: primaryGC.gc handed the freelist over before flushing the primary; Put(K,v1) unflushed, Put(K,v2), GC ... relocation => Get(K)=v1")
fixed("C13", "fa8389a", "freelist-locks/freelist.FreeList.file/R@(*freelist.FreeList).StorageSize/W@(*freelist.FreeList).ToGC",
      "D8b: FreeList.StorageSize read FreeList.file without flushLock")
fixed("C02", "0fa93ad", "tail-recovery/scanIndexFile/short-size prefix-is-cut-off",
      "D13: scanIndexFile treated io.EOF from ReadAt as a clean end although 1-3 bytes of a size prefix had been read; the torn bytes stayed, later appends followed them and the next rescan lost flushed keys (repro/d13_torn_size_prefix_test.go.txt)")
fixed("C03", "0fa93ad", "tail-recovery/scanIndexFile/short-size prefix-is-cut-off",
      "D13: torn index append of 1-3 bytes not cut off by the recovery scan (os.File.ReadAt reports the short read as io.EOF)")
known("C06", "reloc-fresh/(*primaryGC).reapRecords/updateIndex",
      "KF-2: relocation re-points the index unconditionally (primaryGC.updateIndex = Index.Update): schedule GC started; writer waits for <index>.free.gc to appear, then Put(K,v2); relocation of K's old record follows => Get(K)=v1 after an acknowledged v2. Also reachable sequentially after an interrupted hand-over (leftover .gc processed instead of the current freelist). Needs a compare-and-swap index API (exported UpdateIndexFunc signature changes): not a minimal patch")
fixed("C04", "c0dfeb8", "retain/(*mhprimary.primaryGC).reapRecords/primary.Put/arg0",
      "D3: reapRecords handed slices of a reused scratch buffer to the retaining primary Put; relocating two records made the first read back the second's bytes")
fixed("C04", "c0dfeb8", "retain/(*mhprimary.primaryGC).reapRecords/primary.Put/arg1",
      "D3: same, value slice")
fixed("C04", "997fc5f", "erruse/mhprimary.deleteRecords/os.OpenFile/use-after-failed-open",
      "D4: deleteRecords called file.Name() on the nil result of a failed os.OpenFile; a freelist entry naming a missing primary file panicked the GC goroutine")
fixed("C04", "5666341", "gc-flush-first/(*primaryGC).gc/flush-before-handover",
      "D12: freelist handed over before the primary was flushed")
fixed("C04", "150dfab", "gc-not-current/(*mhprimary.primaryGC).gc/current-read-under-flushLock",
      "D8a: primary GC loop bound read MultihashPrimary.fileNum without flushLock")
known("C03", "commit-atomicity/(*store.Store).commit/vs-(*store.Store).Put",
      "KF-3a: Store.commit flushes the primary, then the index; a Put(K,v2) of a key flushed with v1 that lands between the two flushes gets its index record written while its primary bytes are still pooled; crash before the next primary flush => reopen: read error, entry dropped, Get(K) absent although K was present at the last completed flush and never removed (repro/kf3_put_between_flushes_test.go.txt, schedule emulated with Primary().Flush(); Put; Index().Flush(); directory copy). Repair needs either a store-level lock that blocks writers for the whole flush or a two-phase index flush (capture pool, flush primary, write pool): not a small patch")
known("C03", "commit-atomicity/(*store.Store).commit/vs-(*mhprimary.primaryGC).reapRecords",
      "KF-3b: same window, writer = primary-GC relocation (primary Put of the copy + index re-point between commit's primary flush and index flush); crash => the relocated key, present at the last completed flush, reads absent (second test in repro/kf3_put_between_flushes_test.go.txt)")
known("C03", "gc-handover-durable/(*primaryGC).gc/index-flushed-before-handover",
      "KF-4: a primary-GC cycle hands the freelist over (ToGC flushes the freelist pool itself) and marks the superseded record deleted although the index update that superseded it is not flushed: Put(K,v1); Flush; Put(K,v2); GC; crash (directory copy) => reopen: on-disk index names the deleted v1 record, Get(K) absent although K was present at the last completed flush and never removed (repro/kf4_gc_applies_freelist_before_index_flush_test.go.txt; sequential, no concurrency). Repair needs the collector to flush the index first (a store-level commit callback: API change) or to hand over only durable entries, which in turn needs KF-2's compare-and-swap to stay safe")
fixed("C14", "3945bb2", "fc-list-nonnil/(*filecache.FileCache).removeOldest/(*container/list.List).Back",
      "D14: FileCache.removeOldest dereferenced the nil LRU list; SetCacheSize(smaller, non-zero) on a cache that has cached nothing yet (freshly opened store, Store.SetFileCacheSize) or after Clear panicked (repro/d14_setcachesize_nil_list_test.go.txt)")
