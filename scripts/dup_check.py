#!/usr/bin/env python3
"""usage: dup_check.py <agent_out_dir> — for each n/patch.diff print the most similar existing seeded patch (Jaccard over changed lines)."""
import glob, os, sys, re
def lines(p):
    out=set()
    for l in open(p, errors='replace'):
        if (l.startswith('+') or l.startswith('-')) and not l.startswith(('+++','---')):
            t=re.sub(r'\s+','',l[1:])
            if t and not t.startswith('//'): out.add(l[0]+t)
    return out
seeds={os.path.basename(os.path.dirname(p)):lines(p) for p in glob.glob('/verif/seeded/*/patch.diff')}
for d in sorted(glob.glob(sys.argv[1]+'/*/')):
    p=d+'patch.diff'
    if not os.path.exists(p): continue
    a=lines(p)
    best=max(((len(a&b)/max(1,len(a|b)),k) for k,b in seeds.items()), default=(0,''))
    print(os.path.basename(d.rstrip('/')), f"{best[0]:.2f}", best[1], len(a))
