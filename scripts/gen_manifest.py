#!/usr/bin/env python3
"""Generates /verif/MANIFEST.json from the table below (kept in one place so the
claimed list, not_applicable list and commands stay consistent)."""
import json, os, subprocess

HERE = os.path.dirname(os.path.dirname(os.path.abspath(__file__)))

# id -> (claimed?, design section, level text, technique, level note)
CLAIMED = {}
NA = {}

def claim(pid, ref, text, technique, note):
    CLAIMED[pid] = dict(ref=ref, text=text, technique=technique, note=note)

def na(pid, reason):
    NA[pid] = reason

exec(open(os.path.join(HERE, "scripts", "claims.py")).read())

SETUP = ("cd /verif/tool && env -u GOWORK PATH=/opt/veriftools/go1.26.8/bin:$PATH GOTOOLCHAIN=local "
         "GOFLAGS=-mod=mod GOPROXY=off GOSUMDB=off go build -o /verif/bin/sthlint .")
BASELINE = ("cd /repo && env -u GOWORK GOFLAGS=-mod=mod GOPROXY=off go test -vet=off -count=1 -timeout 25m ./...")

checks = []
for pid in sorted(CLAIMED):
    c = CLAIMED[pid]
    checks.append({
        "property_id": pid,
        "quick_cmd": f"/verif/bin/sthlint -property {pid} -tier quick",
        "thorough_cmd": f"/verif/bin/sthlint -property {pid} -tier thorough",
        "evidence_file": f"/verif/evidence/{pid}.json",
        "replay_cmd_template": f"/verif/bin/sthlint -property {pid} -tier quick  # violations listed in {{path}}",
        "engine": "sthlint",
        "level_claimed": {"category": "other", "text": c["text"], "design_ref": c["ref"]},
        "level_note": c["note"],
        "technique": c["technique"],
    })

manifest = {
    "version": 1,
    "setup_cmd": SETUP,
    "hooks": {
        "guard": "verif",
        "enable": "none needed: static analysis reads the unmodified source; no hook commits exist",
        "baseline_off_cmd": BASELINE,
        "source_commits": [],
        "add_only": True,
    },
    "engines": [{
        "name": "sthlint",
        "path": "/verif/tool",
        "serves_properties": sorted(CLAIMED),
        "kind_free_text": "repository-specific static analyser over go/packages + go/ssa (lockset dataflow, CFG path rules with dominance/evidence edges, affine sibling comparison, value provenance, who-may-call inventories); never executes repository code",
    }],
    "checks": checks,
    "not_applicable": [{"property_id": p, "reason": NA[p]} for p in sorted(NA)],
    "notes": "All claims are level 'other': structural necessary conditions decided statically on /repo's current source; see DESIGN.md. Genuine defects repaired by fix: commits in /repo are recorded in known_findings.json (status fixed); KF-2 (C06), KF-3a/b and KF-4 (C03) are known findings. No property is listed as not applicable: C11 is claimed for its progress-shape clauses only (see its level text).",
}
json.dump(manifest, open(os.path.join(HERE, "MANIFEST.json"), "w"), indent=1)
print("claimed:", sorted(CLAIMED), "not_applicable:", sorted(NA))
