#!/usr/bin/env python3
"""Regenerates the rule/instance table of DESIGN.md section 9.1 (between the RULETABLE markers) from the evidence files."""
import json, glob, re
rows = []
for f in sorted(glob.glob('/verif/evidence/C*.json')):
    e = json.load(open(f)); c = e['coverage']
    sup = set((c.get('supporting_rules') or {}).get('rules') or [])
    own, dep = [], []
    for k, v in sorted(c['rules'].items()):
        (dep if k in sup else own).append(f"{k} {v['instances']}")
    rows.append(f"| {e['property_id']} | {c['obligations']} | {', '.join(own)} | {', '.join(dep) or '—'} |")
table = "| id | obligations | own rules (instances) | supporting rules (instances) |\n|---|---|---|---|\n" + "\n".join(rows)
p = '/verif/DESIGN.md'
s = open(p).read()
s2 = re.sub(r'<!-- RULETABLE:BEGIN -->.*?<!-- RULETABLE:END -->', '<!-- RULETABLE:BEGIN -->\n' + table + '\n<!-- RULETABLE:END -->', s, flags=re.S)
assert s2 != s or table in s
open(p, 'w').write(s2)
print("rule table updated:", len(rows), "rows")
