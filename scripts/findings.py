#!/usr/bin/env python3
"""Writes /verif/known_findings.json from the table below. The file is read (never written) by the checks."""
import json, os
HERE = os.path.dirname(os.path.dirname(os.path.abspath(__file__)))
F = []
def fixed(prop, commit, key, what):
    F.append(dict(property=prop, rule=key.split("/")[0], key=key, status="fixed", commit=commit, what=what,
                  record=f"fixed: property={prop} {commit} {what}"))
def known(prop, key, what):
    F.append(dict(property=prop, rule=key.split("/")[0], key=key, status="known", what=what))
exec(open(os.path.join(HERE, "scripts", "findings_table.py")).read())
json.dump(F, open(os.path.join(HERE, "known_findings.json"), "w"), indent=1)
print(len(F), "entries")
