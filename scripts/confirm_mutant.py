#!/usr/bin/env python3
"""Confirm a seeded change produced by a sub-agent and store it under /verif/seeded/<id>/.

usage: confirm_mutant.py <agent_out_dir> <seed_id> <property> [--race]

Steps (all in a scratch worktree of /repo HEAD outside /repo and /verif, removed afterwards):
  1. demo on the clean tree           -> must pass
  2. apply patch; go build ./...       -> must compile
  3. demo with the change             -> must fail
  4. pinned suite with the change (demo file removed) -> must pass
Writes patch.diff, the demo file(s) and meta.json; prints one summary line.
"""
import json, os, re, shutil, subprocess, sys, glob, time

PKGDIR = {
    "store_test": "store", "store": "store",
    "freelist_test": "store/freelist", "freelist": "store/freelist",
    "mhprimary_test": "store/primary/multihash", "mhprimary": "store/primary/multihash",
    "cidprimary_test": "store/primary/cid", "cidprimary": "store/primary/cid",
    "index_test": "store/index", "index": "store/index",
    "filecache_test": "store/filecache", "filecache": "store/filecache",
    "storethehash_test": ".", "storethehash": ".",
    "inmemory_test": "store/primary/inmemory",
}

def run(cmd, cwd, timeout=1500):
    env = dict(os.environ, GOFLAGS="-mod=mod", GOPROXY="off")
    env.pop("GOTOOLCHAIN", None); env.pop("GOSUMDB", None); env.pop("GOWORK", None)
    p = subprocess.run(cmd, cwd=cwd, shell=True, env=env, stdout=subprocess.PIPE, stderr=subprocess.STDOUT, timeout=timeout)
    return p.returncode, p.stdout.decode(errors="replace")

def main():
    src, seed_id, prop = sys.argv[1], sys.argv[2], sys.argv[3]
    race = "--race" in sys.argv
    wt = f"/tmp/confirm_{seed_id}"
    subprocess.run(f"git -C /repo worktree remove --force {wt}", shell=True, stdout=subprocess.DEVNULL, stderr=subprocess.DEVNULL)
    shutil.rmtree(wt, ignore_errors=True)
    rc, out = run(f"git -C /repo worktree add -q --detach {wt} HEAD", "/")
    if rc != 0:
        print(seed_id, "ERROR worktree", out); return 2
    result = {"id": seed_id, "property": prop}
    try:
        demos = sorted(glob.glob(os.path.join(src, "*_test.go")))
        patch = os.path.join(src, "patch.diff")
        if not demos or not os.path.exists(patch):
            print(seed_id, "SKIP: no demo test file or patch"); return 1
        placed = []
        pkgs = set()
        for d in demos:
            txt = open(d).read()
            m = re.search(r"^package\s+(\w+)", txt, re.M)
            pkg = PKGDIR.get(m.group(1)) if m else None
            if pkg is None:
                print(seed_id, "SKIP: unknown package", m.group(1) if m else None); return 1
            dst = os.path.join(wt, pkg, "zz_" + os.path.basename(d).replace("zz_", ""))
            shutil.copy(d, dst); placed.append(dst); pkgs.add("./" + pkg if pkg != "." else ".")
        tests = "|".join(sorted(set(re.findall(r"^func (Test\w+)\(", "".join(open(d).read() for d in demos), re.M))))
        flag = "-race " if race else ""
        demo_cmd = f"go test -vet=off -count=1 {flag}-timeout 20m -run '^({tests})$' " + " ".join(sorted(pkgs))
        rc_clean, out_clean = run(demo_cmd, wt)
        rc, out = run(f"git apply {patch}", wt)
        if rc != 0:
            print(seed_id, "SKIP: patch does not apply:", out.strip()[:200]); return 1
        rc_build, out_build = run("go build ./...", wt)
        rc_mut, out_mut = run(demo_cmd, wt)
        for p in placed:
            os.remove(p)
        rc_suite, out_suite = run("go test -vet=off -count=1 -timeout 25m ./...", wt)
        ok = rc_clean == 0 and rc_build == 0 and rc_mut != 0 and rc_suite == 0
        result.update({
            "demo_cmd": demo_cmd,
            "demo_clean_passes": rc_clean == 0, "compiles": rc_build == 0,
            "demo_with_change_fails": rc_mut != 0, "suite_with_change_passes": rc_suite == 0,
            "confirmed": ok, "confirmed_at": time.strftime("%Y-%m-%dT%H:%M:%SZ", time.gmtime()),
            "demo_with_change_tail": out_mut.strip().splitlines()[-12:],
            "suite_tail": out_suite.strip().splitlines()[-12:],
        })
        if ok:
            dst = f"/verif/seeded/{seed_id}"
            os.makedirs(dst, exist_ok=True)
            shutil.copy(patch, os.path.join(dst, "patch.diff"))
            for d in demos:
                shutil.copy(d, os.path.join(dst, os.path.basename(d) + ".txt"))
            notes = os.path.join(src, "NOTES.md")
            if os.path.exists(notes):
                shutil.copy(notes, os.path.join(dst, "NOTES.md"))
            meta = {"id": seed_id, "breaks_property": prop, "needs_to_manifest": "see NOTES.md (written by the independent sub-agent that produced the change)",
                    "what_was_run": result, "demo_files": [os.path.basename(d) + ".txt (place in " + PKGDIR[re.search(r'^package\s+(\w+)', open(d).read(), re.M).group(1)] + "/ as *_test.go)" for d in demos],
                    "detected_by": None}
            json.dump(meta, open(os.path.join(dst, "meta.json"), "w"), indent=1)
        print(seed_id, "CONFIRMED" if ok else "NOT-CONFIRMED", json.dumps({k: result[k] for k in ("demo_clean_passes", "compiles", "demo_with_change_fails", "suite_with_change_passes")}))
        if not ok:
            print("   clean tail:", out_clean.strip().splitlines()[-3:])
            print("   mut tail:", out_mut.strip().splitlines()[-3:])
            print("   suite tail:", out_suite.strip().splitlines()[-3:])
        return 0 if ok else 1
    finally:
        subprocess.run(f"git -C /repo worktree remove --force {wt}", shell=True, stdout=subprocess.DEVNULL, stderr=subprocess.DEVNULL)
        shutil.rmtree(wt, ignore_errors=True)

if __name__ == "__main__":
    sys.exit(main())
